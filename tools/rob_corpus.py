#!/usr/bin/env python3
"""tools/rob_corpus.py [--raw] [--translator-only] DIR...      (DIR = a corpus entry with patch.diff, named Cxx-k)

Acceptance / regression runs of the translator robustness work (design.d/translator_robustness.md): applies the patch
of every corpus entry in $VERIF_REPO (a git worktree), runs `./check Cxx --tier quick` of this framework against it,
undoes the patch and prints one JSON line per entry: verdict quiet | obligation-only | concrete-violation, the broken
obligations and the violation lines.  --raw sets VERIF_TRANSLATE_RAW=1 (translator without the normalisation pass:
the behaviour "before").  --translator-only only lists the translator items that fail (seconds instead of minutes).
"""
import json, os, re, subprocess, sys, time

VERIF = os.path.dirname(os.path.dirname(os.path.abspath(__file__)))
REPO = os.environ.get('VERIF_REPO')
assert REPO and REPO != '/repo', 'export VERIF_REPO=<your katdal worktree>'
raw = '--raw' in sys.argv
tonly = '--translator-only' in sys.argv
dirs = [a for a in sys.argv[1:] if not a.startswith('--')]


def sh(cmd, **kw):
    return subprocess.run(cmd, shell=isinstance(cmd, str), stdout=subprocess.PIPE, stderr=subprocess.STDOUT, text=True, **kw)


env = dict(os.environ, VERIF_REPO=REPO)
env.pop('VERIF_TRANSLATE_RAW', None)
if raw:
    env['VERIF_TRANSLATE_RAW'] = '1'
for d in dirs:
    d = d.rstrip('/')
    name = os.path.basename(d)
    prop = name.split('-')[0]
    assert sh('git -C %s status --porcelain --untracked-files=no' % REPO).stdout.strip() == '', 'katdal worktree not clean'
    r = sh('git -C %s apply %s/patch.diff' % (REPO, d))
    rec = dict(entry=name, mode='raw' if raw else 'normalised', applies=r.returncode == 0)
    try:
        if r.returncode == 0 and tonly:
            code = ("from vh import translate\nf=[]\ntranslate.generate(%r,f)\nimport json\n"
                    "print(json.dumps([m for o,m in f if o==%r or (o=='translate' and %r=='c16')]))" % (REPO, prop.lower(), prop.lower()))
            r2 = sh(['/venv/bin/python', '-c', code], env=dict(env, PYTHONPATH='%s:%s/harness' % (REPO, VERIF)))
            rec['own_items_failing'] = json.loads(r2.stdout.strip().split('\n')[-1]) if r2.returncode == 0 else r2.stdout[-500:]
        elif r.returncode == 0:
            t0 = time.time()
            r2 = sh('cd %s && timeout 3000 ./check %s --tier quick' % (VERIF, prop), env=env)
            vio = [l for l in r2.stdout.split('\n') if l.startswith('VIOLATION')]
            concrete = [l for l in vio if not l.rstrip().endswith('no-failing-input-found')]
            sigs = []
            for l in concrete[:6]:
                m = re.search(r'replay=(\S+)', l)
                if m and os.path.exists(m.group(1)):
                    try:
                        sigs.append(json.load(open(m.group(1))).get('signature'))
                    except Exception:
                        pass
            rec.update(exit=r2.returncode, wall_s=round(time.time() - t0, 1), violations=len(vio),
                       broken=[l[:600] for l in r2.stdout.split('\n') if l.startswith('BROKEN')][:2],
                       concrete_signatures=sigs,
                       verdict=('quiet' if r2.returncode == 0 and not vio else
                                'obligation-only' if vio and not concrete else
                                'concrete-violation' if concrete else 'exit-%d-without-violation-line' % r2.returncode))
    finally:
        sh('git -C %s checkout -- .' % REPO)
    print(json.dumps(rec), flush=True)
