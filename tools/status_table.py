#!/usr/bin/env python3
"""Prints the 'as built' status tables of DESIGN.md (Part II) from the files on disk:
Props/*.v (theorem names), evidence/*.json (last committed run), known_findings.json, seeded/*/meta.json."""
import glob
import json
import os
import re

root = os.path.dirname(os.path.dirname(os.path.abspath(__file__)))
props = [json.loads(l) for l in open(os.path.join(root, 'properties.jsonl'))]
man = json.load(open(os.path.join(root, 'MANIFEST.json')))
claimed = {c['property_id']: c for c in man['checks']}
kf = json.load(open(os.path.join(root, 'known_findings.json')))['findings']


def cone(prop):
    seen, todo = [], ['Props/%s.v' % prop]
    while todo:
        s = todo.pop()
        p = os.path.join(root, 'coq', s)
        if s in seen or not os.path.exists(p):
            continue
        seen.append(s)
        for m in re.finditer(r'From KV Require (?:Import|Export)?\s*(.*?)\.\s', open(p).read(), re.S):
            for mod in m.group(1).split():
                todo.append(mod.replace('.', '/') + '.v')
    return seen


print('| id | model files (coq/Model, coq/Base) | property theorems | statements in cone | quick: cases / impl runs / wall | findings fixed / open | seeded caught / kept |')
print('|----|------------|----|----|----|----|----|')
for p in props:
    pid = p['id']
    if pid not in claimed:
        print('| %s | not claimed | | | | | |' % pid)
        continue
    c = cone(pid)
    models = sorted(os.path.basename(s)[:-2] for s in c if s.startswith(('Model/', 'Base/')) and 'Sx' not in s and 'Str.' not in s)
    txt = re.sub(r'\(\*.*?\*\)', '', open(os.path.join(root, 'coq/Props/%s.v' % pid)).read(), flags=re.S)
    thms = re.findall(r'^\s*Theorem\s+([\w\']+)', txt, re.M)
    ev = {}
    try:
        ev = json.load(open(os.path.join(root, 'evidence/%s.json' % pid)))
    except Exception:
        pass
    cov = ev.get('coverage', {})
    fx = sum(1 for e in kf if e['property'] == pid and e['status'] == 'fixed')
    op = sum(1 for e in kf if e['property'] == pid and e['status'] == 'open')
    seeds = sorted(glob.glob(os.path.join(root, 'seeded/%s-*/meta.json' % pid)))
    caught = sum(1 for s in seeds if json.load(open(s)).get('detected'))
    print('| %s | %s | %d | %s | %s / %s / %ss | %d / %d | %d / %d |' % (
        pid, ' '.join(models), len(thms), cov.get('obligations', '?'), cov.get('evaluations', '?'),
        cov.get('traces_validated_against_impl', '?'), ev.get('wall_s', '?'), fx, op, caught, len(seeds)))

print()
print('| seeded change | what it needs to manifest | caught by (signature / broken obligation) |')
print('|----|----|----|')
for s in sorted(glob.glob(os.path.join(root, 'seeded/*/meta.json'))):
    m = json.load(open(s))
    name = os.path.basename(os.path.dirname(s))
    need = (m.get('title') or m.get('needs_to_manifest', '').split('\n')[0]).lstrip('# ').strip()[:160]
    by = '; '.join([x for x in (m.get('check_signatures') or []) if x][:3]) or ''
    bo = '; '.join(b.replace('BROKEN OBLIGATION(S): ', '')[:90] for b in (m.get('check_broken_obligations') or [])[:1])
    verdict = ('caught: ' + (by or bo)) if m.get('detected') else ('pending' if m.get('detected') is None else 'MISSED')
    if m.get('detected') and by and bo:
        verdict += ' (+ obligation ' + bo + ')'
    if m.get('caught_by_other'):
        verdict += ' [' + m['caught_by_other'] + ']'
    print('| %s | %s | %s |' % (name, need.replace('|', '/'), verdict.replace('|', '/')))
