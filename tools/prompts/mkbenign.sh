#!/bin/bash
# mkbenign.sh Cxx N : scratch worktree + prompt for a benign-change (false-alarm) agent
P=$1; N=${2:-2}
WT=/tmp/benign/$P/repo; OUT=/tmp/benign/$P/out
mkdir -p /tmp/benign/$P $OUT
git -C /repo worktree remove --force $WT 2>/dev/null
git -C /repo worktree add -q --detach $WT HEAD
python3 - "$P" "$N" "$WT" "$OUT" <<'PY'
import json, sys
P, N, WT, OUT = sys.argv[1:]
rec = [json.loads(l) for l in open('/verif/properties.jsonl') if json.loads(l)['id'] == P][0]
text = 'Title: %s\n\nStatement: %s\n\nQuantified over: %s\n\nCode anchors: files %s; mechanisms: %s; observe at: %s' % (
    rec['title'], rec['statement'], rec['quantifier']['text'],
    ', '.join(rec['anchors']['files']),
    '; '.join('%s (%s)' % (m['name'], m['where']) for m in rec['anchors'].get('mechanism', [])),
    '; '.join(rec['anchors'].get('observe_at', [])))
t = open('/work/prompts/benign.md').read()
t = t.replace('{TEXT}', text).replace('{P}', P).replace('{N}', N).replace('{WT}', WT).replace('{OUT}', OUT)
open('/tmp/benign/%s/prompt.md' % P, 'w').write(t)
PY
echo /tmp/benign/$P/prompt.md
