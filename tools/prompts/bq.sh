#!/bin/bash
# bq.sh slot "P k" ... : benign evaluations
slot=$1; shift
for pk in "$@"; do set -- $pk
  git -C /work/seedtest$slot/verif checkout -q -f --detach main
  (cd /verif && VERIF_DIR=/work/seedtest$slot/verif python3 tools/eval_benign.py $1 $2 > /tmp/qa/benign_$1_$2.log 2>&1)
  echo "benign $1-$2 $(grep -E '"verdict"|check_exit_on_changed|demo_' /tmp/qa/benign_$1_$2.log | tr -d '\n')" >> /tmp/qa/benigns.txt
done
