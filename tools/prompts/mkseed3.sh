#!/bin/bash
# mkseed2.sh Cxx : second-wave seeding prompt (changes 3 and 4), telling the agent which ideas were already used
P=$1
WT=/tmp/seed/$P/repo; OUT=/tmp/seed/$P/out
mkdir -p /tmp/seed/$P $OUT
git -C /repo worktree remove --force $WT 2>/dev/null
git -C /repo worktree add -q --detach $WT HEAD
python3 - "$P" "$WT" "$OUT" <<'PY'
import json, sys, glob, os
P, WT, OUT = sys.argv[1:]
rec = [json.loads(l) for l in open('/verif/properties.jsonl') if json.loads(l)['id'] == P][0]
text = 'Title: %s\n\nStatement: %s\n\nQuantified over: %s\n\nWhy tests cannot settle it: %s\n\nCode anchors: files %s; mechanisms: %s; observe at: %s' % (
    rec['title'], rec['statement'], rec['quantifier']['text'], rec['why_tests_cant'],
    ', '.join(rec['anchors']['files']),
    '; '.join('%s (%s)' % (m['name'], m['where']) for m in rec['anchors'].get('mechanism', [])),
    '; '.join(rec['anchors'].get('observe_at', [])))
used = []
for d in sorted(glob.glob('/verif/seeded/%s-*' % P)):
    n = os.path.join(d, 'notes.md')
    if os.path.exists(n):
        used.append('  - ' + open(n).readline().lstrip('# ').strip())
t = open('/work/prompts/seeder.md').read()
t = t.replace('{TEXT}', text).replace('{P}', P).replace('{N}', '2').replace('{WT}', WT).replace('{OUT}', OUT)
nxt = 1 + max([int(os.path.basename(d).split('-')[1]) for d in glob.glob('/verif/seeded/%s-*' % P)] + [0])
t = t.replace('For change k (k = 1..2) write into %s/k/' % OUT, 'Number your changes k = %d and k = %d. For change k write into %s/k/' % (nxt, nxt + 1, OUT))
open('/tmp/seed/%s/next.txt' % P, 'w').write('%d %d' % (nxt, nxt + 1))
t += '\n\nOther engineers already produced these changes for this property; yours must differ from them in mechanism, in the code site touched and preferably in the clause of the property broken (pick clauses of the statement that these do not touch):\n' + '\n'.join(used) + '\n'
open('/tmp/seed/%s/prompt3.md' % P, 'w').write(t)
PY
echo /tmp/seed/$P/prompt3.md $(cat /tmp/seed/$P/next.txt)
