#!/bin/bash
# mkstrengthen.sh Cxx "k1 k2" : worktrees + prompt for a strengthening agent
P=$1; KS=$2; p=$(echo $P | tr A-Z a-z)
mkdir -p /work/$P
[ -d /work/$P/verif ] || git -C /verif worktree add -q -b agent-${P}${SUFFIX:-r} /work/$P/verif main
[ -d /work/$P/repo ] || git -C /repo worktree add -q -b fix-${P}${SUFFIX:-r} /work/$P/repo main
MISSED=""
for k in $KS; do MISSED="$MISSED  * /verif/seeded/$P-$k/  : $(head -1 /verif/seeded/$P-$k/notes.md | sed 's/^# *//')\n"; done
python3 - "$P" "$p" "$MISSED" <<'PY'
import sys, os
P, p, missed = sys.argv[1:]
t = open('/work/prompts/strengthen_common.md').read().replace('{MISSED}', missed.replace('\\n', '\n')).replace('{P}r', P + os.environ.get('SUFFIX', 'r')).replace('{P}x', P + os.environ.get('SUFFIX', 'x')).replace('{P}', P).replace('{p}', p)
open('/work/%s/strengthen_prompt.md' % P, 'w').write(t)
PY
echo /work/$P/strengthen_prompt.md
