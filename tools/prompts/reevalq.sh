#!/bin/bash
slot=$1; shift
for pk in "$@"; do
  set -- $pk
  git -C /work/seedtest$slot/verif checkout -q -f --detach main 2>/dev/null
  (cd /verif && VERIF_DIR=/work/seedtest$slot/verif python3 tools/eval_seed.py $1 $2 --reeval $REEVAL_FLAGS > /tmp/qa/reeval_$1_$2.log 2>&1)
  echo "$1-$2 $(grep -E '"detected"|suite_tail|suite_new' /tmp/qa/reeval_$1_$2.log | tr -d '\n')" >> /tmp/qa/reevals.txt
done
