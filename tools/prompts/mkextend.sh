#!/bin/bash
# mkextend.sh Cxx "extra text": worktrees + prompt for an extension agent
P=$1; EXTRA=$2; p=$(echo $P | tr A-Z a-z)
mkdir -p /work/$P
[ -d /work/$P/verif ] || git -C /verif worktree add -q -b agent-${P}${SUFFIX:-x} /work/$P/verif main
[ -d /work/$P/repo ] || git -C /repo worktree add -q -b fix-${P}${SUFFIX:-x} /work/$P/repo main
python3 - "$P" "$p" "$EXTRA" <<'PY'
import sys, os
P, p, extra = sys.argv[1:]
t = open('/work/prompts/extend_common.md').read().replace('{EXTRA}', extra).replace('{P}r', P + os.environ.get('SUFFIX', 'r')).replace('{P}x', P + os.environ.get('SUFFIX', 'x')).replace('{P}', P).replace('{p}', p)
open('/work/%s/extend_prompt.md' % P, 'w').write(t)
PY
echo /work/$P/extend_prompt.md
