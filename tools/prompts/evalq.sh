#!/bin/bash
# evalq.sh <slot> "P K" "P K" ... : evaluate seeds sequentially in seed-evaluation worktree <slot>
slot=$1; shift
for pk in "$@"; do
  set -- $pk
  git -C /work/seedtest$slot/verif checkout -q -f --detach main 2>/dev/null
  (cd /verif && VERIF_DIR=/work/seedtest$slot/verif python3 tools/eval_seed.py $1 $2 > /tmp/qa/eval_$1_$2.log 2>&1)
  echo "$1-$2 $(grep -E '"detected"|suite_tail|suite_new' /tmp/qa/eval_$1_$2.log | tr -d '\n')" >> /tmp/qa/evals.txt
done
