#!/bin/bash
# mkfix.sh Cxx "candidates text": worktrees + prompt for a defect-repair agent
P=$1; CAND=$2; p=$(echo $P | tr A-Z a-z)
mkdir -p /work/$P
[ -d /work/$P/verif ] || git -C /verif worktree add -q -b agent-${P}f /work/$P/verif main
[ -d /work/$P/repo ] || git -C /repo worktree add -q -b fix-${P}f /work/$P/repo main
python3 - "$P" "$p" "$CAND" <<'PY'
import sys
P, p, cand = sys.argv[1:]
t = open('/work/prompts/fix_common.md').read().replace('{CANDIDATES}', cand).replace('{P}', P).replace('{p}', p)
open('/work/%s/fix_prompt.md' % P, 'w').write(t)
PY
echo /work/$P/fix_prompt.md
