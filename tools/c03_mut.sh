#!/bin/bash
# usage: mut.sh NAME FILE 'python-expr-old' 'python-expr-new'
cd /work/C03/repo
git checkout -q -- .
# the "last good driver" must come from the unchanged tree
(cd /work/C03/verif && VERIF_REPO=/work/C03/repo PYTHONPATH=/work/C03/repo:/work/C03/verif/harness /venv/bin/python -c "
from vh import core
with core.BuildLock():
    print('baseline', core.regenerate('C03'), core.build_model()[0])" | tail -1)
/venv/bin/python - "$2" "$3" "$4" <<'PY'
import sys
f,old,new=sys.argv[1:4]
s=open(f).read()
old=old.encode().decode('unicode_escape'); new=new.encode().decode('unicode_escape')
assert s.count(old)>=1, 'pattern not found'
n=int(sys.argv[4]) if len(sys.argv)>4 else 1
s=s.replace(old,new,1)
open(f,'w').write(s)
PY
[ $? -eq 0 ] || { echo "PATCH FAILED $1"; exit 2; }
git diff --stat | tail -1
cd /work/C03/verif
export VERIF_REPO=/work/C03/repo
out=$(./check C03 2>&1); rc=$?
echo "== $1: exit $rc"
echo "$out" | grep -c "^VIOLATION" | sed 's/^/violations: /'
echo "$out" | grep "BROKEN OBLIGATION" | cut -c1-300
for f in $(echo "$out" | grep "^VIOLATION" | sed 's/.*replay=\([^ ]*\).*/\1/' | head -40); do /venv/bin/python -c "
import json,sys; d=json.load(open('$f')); print('   ', d.get('signature'))"; done | sort | uniq -c | sort -rn | head -8
cd /work/C03/repo && git checkout -q -- .
