#!/bin/bash
# tools/merge_branch.sh <branch> : merge an agent branch of /verif into main; generated files are re-assembled,
# evidence conflicts take the branch's version (it was produced by the branch's own run; re-run before committing claims)
cd /verif
B=$1
git merge $B -m "Merge $B" >/dev/null 2>&1
for f in $(git diff --name-only --diff-filter=U); do
  case $f in
    MANIFEST.json|known_findings.json|DESIGN.md) git checkout --ours -- $f 2>/dev/null; git add $f;;
    evidence/*) git checkout --theirs -- $f; git add $f;;
    *) echo "UNRESOLVED: $f";;
  esac
done
python3 tools/mkmanifest.py
python3 tools/mkdesign.py
git add -A
git commit -qm "Merge $B" || true
git log --oneline | head -2
