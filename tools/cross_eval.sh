#!/bin/bash
# tools/cross_eval.sh <seed-id e.g. C19-2> <property check to run e.g. C05> <slot>
S=$1; P=$2; slot=${3:-1}
WT=/tmp/crosseval/$S-$P
mkdir -p /tmp/crosseval; git -C /repo worktree remove --force $WT 2>/dev/null
git -C /repo worktree add -q --detach $WT HEAD && git -C $WT apply /verif/seeded/$S/patch.diff || exit 2
git -C /work/seedtest$slot/verif checkout -q -f --detach main
(cd /work/seedtest$slot/verif && VERIF_REPO=$WT timeout 3000 ./check $P --tier quick > /tmp/qa/cross_$S-$P.out 2>/tmp/qa/cross_$S-$P.err; echo "cross $S by $P: exit=$? violations=$(grep -c ^VIOLATION /tmp/qa/cross_$S-$P.out)")
git -C /repo worktree remove --force $WT
(cd /work/seedtest$slot/verif && ./check $P --tier quick >/dev/null 2>&1; echo "clean after: exit=$?")
