#!/bin/bash
# tools/seed_suite.sh Cxx k : run the pinned test-suite on a scratch worktree with the seeded patch; record result
P=$1; K=$2
WT=/tmp/seedsuite/$P-$K
mkdir -p /tmp/seedsuite
git -C /repo worktree remove --force $WT 2>/dev/null
git -C /repo worktree add -q --detach $WT HEAD
git -C $WT apply /tmp/seed/$P/out/$K/patch.diff || { echo "$P-$K patch does not apply" > /tmp/seedsuite/$P-$K.result; git -C /repo worktree remove --force $WT; exit 1; }
(cd $WT && timeout 3000 /venv/bin/python -m pytest -q -p no:cacheprovider --timeout=900 --continue-on-collection-errors -rf katdal/test 2>&1 | grep -E "^FAILED|passed|failed" ) > /tmp/seedsuite/$P-$K.result
git -C /repo worktree remove --force $WT
