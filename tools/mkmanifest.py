#!/usr/bin/env python3
"""Assemble MANIFEST.json from manifest.d/*.json (one sidecar per claimed property)."""
import json, os, glob
root = os.path.dirname(os.path.dirname(os.path.abspath(__file__)))
props = [json.loads(l)['id'] for l in open(os.path.join(root, 'properties.jsonl'))]
checks = []
for p in props:
    f = os.path.join(root, 'manifest.d', p + '.json')
    if os.path.exists(f):
        checks.append(json.load(open(f)))
na_file = os.path.join(root, 'manifest.d', 'not_applicable.json')
na_reasons = json.load(open(na_file)) if os.path.exists(na_file) else {}
claimed = {c['property_id'] for c in checks}
na = [{'property_id': p, 'reason': na_reasons.get(p, 'check not built yet in this development (work in progress, see DESIGN.md section 10); no claim is made')}
      for p in props if p not in claimed]
man = {
 'version': 1,
 'setup_cmd': './setup.sh',
 'hooks': {'guard': 'KATDAL_VERIF', 'enable': 'no source hooks: checks observe public APIs, recording ChunkStore subclasses, a loopback S3 endpoint, strace and a trace-function scheduler; KATDAL_VERIF=1 is exported by ./check but nothing in /repo reads it',
           'baseline_off_cmd': 'cd /repo && /venv/bin/python -m pytest -ra -q -p no:cacheprovider --timeout=900 --continue-on-collection-errors',
           'source_commits': [], 'add_only': True},
 'engines': [{'name': 'coq-model+correspondence', 'path': '/verif/check', 'serves_properties': sorted(claimed),
              'kind_free_text': 'Coq 8.16 models/specs/theorems (coq/), translator-regenerated constants (coq/Gen/Generated.v), extraction to OCaml and differential correspondence against the real katdal code (harness/)'}],
 'checks': checks,
 'not_applicable': na,
 'notes': 'See DESIGN.md. Known findings: known_findings.json. Seeded changes: seeded/.',
}
json.dump(man, open(os.path.join(root, 'MANIFEST.json'), 'w'), indent=1)
# known_findings.json is assembled from known_findings.d/*.json (lists of entries), never at check time
entries = []
for f in sorted(glob.glob(os.path.join(root, 'known_findings.d', '*.json'))):
    entries += json.load(open(f))
doc = {'_comment': 'assembled by tools/mkmanifest.py from known_findings.d/; open entries suppress only their own signature; fixed entries suppress nothing',
       'findings': entries,
       'fixed': [e['line'] for e in entries if e.get('status') == 'fixed']}
json.dump(doc, open(os.path.join(root, 'known_findings.json'), 'w'), indent=1)
print('claimed', sorted(claimed), 'unclaimed', [x['property_id'] for x in na])
