"""Mutation self-test of the C01 check (see design.d/C01.md): applies one edit at a time to the katdal worktree
/work/C01/repo, runs ./check C01 --tier quick (after a clean run) and reverts.  Usage: tools/c01_mutations.py [M1 M2 ...]"""
import subprocess, sys, os, json, glob, shutil
REPO='/work/C01/repo'; VERIF='/work/C01/verif'
MUTS = [
 ('M1 v3 _vislike_indexer: duplicate final dump no longer padded', 'katdal/h5datav3.py',
  "        if len(time_keep) == len(dataset) - 1:\n            time_keep = np.zeros(len(dataset), dtype=bool)\n            time_keep[:len(self._time_keep)] = self._time_keep\n        stage1 = (time_keep, self._freq_keep, self._corrprod_keep)[:dims]",
  "        stage1 = (time_keep, self._freq_keep, self._corrprod_keep)[:dims]"),
 ('M2 v2 vis: conjugation dropped', 'katdal/h5datav2.py',
  "lambda vis, keep: vis.view(np.complex64)[..., 0].conjugate(),", "lambda vis, keep: vis.view(np.complex64)[..., 0],"),
 ('M3 v1 timestamps: half dump period not added', 'katdal/h5datav1.py',
  "lambda t, keep: np.float64(t) / 1000. + 0.5 * dump_period + time_offset,", "lambda t, keep: np.float64(t) / 1000. + time_offset,"),
 ('M4 v4 _set_keep: weights indexer built without the selection', 'katdal/visdatav4.py',
  "self._weights = DaskLazyIndexer(self._corrected.weights, stage1)", "self._weights = DaskLazyIndexer(self._corrected.weights)"),
 ('M5 DaskLazyIndexer keeps a live reference to the masks', 'katdal/lazy_indexer.py',
  "self.keep = copy.deepcopy(keep)", "self.keep = keep"),
 ('M6 DataSet.select: channels attribute computed from the time mask', 'katdal/dataset.py',
  "self.channels = self._freq_keep.nonzero()[0]", "self.channels = self._time_keep.nonzero()[0]"),
 ('M7 v3 weights: channel weights not applied', 'katdal/h5datav3.py',
  "return lo_res_weights * hi_res_weights if weights_select else", "return lo_res_weights.astype(np.float32) if weights_select else"),
 ('M8 v1 per-scan time mask segment starts one dump late', 'katdal/h5datav1.py',
  "indexers.append(LazyIndexer(s['data'], keep=(self._time_keep[self._segments[n]:self._segments[n + 1]],",
  "indexers.append(LazyIndexer(s['data'], keep=(np.roll(self._time_keep[self._segments[n]:self._segments[n + 1]], 1),"),
 ('M9 v3 vis: sideband test inverted', 'katdal/h5datav3.py',
  "if self.spectral_windows[self.spw].sideband == 1:", "if self.spectral_windows[self.spw].sideband != 1:"),
 ('M10 v4 flags transform reads the current flag selection', 'katdal/visdatav4.py',
  "select = self._flags_select.copy()\n            def bitwise_and(flags): return da.bitwise_and(select, flags)",
  "def bitwise_and(flags): return da.bitwise_and(self._flags_select, flags)"),
 ('M11 v4 timestamps: not restricted to the selected dumps after a frequency-only select', 'katdal/dataset.py',
  "self.shape = (self._time_keep.sum(), self._freq_keep.sum(), self._corrprod_keep.sum())",
  "self.shape = (len(self._time_keep), self._freq_keep.sum(), self._corrprod_keep.sum())"),
 ('M12 v2 flags indexer uses the weights dataset', 'katdal/h5datav2.py',
  "return self._vislike_indexer(self._flags, extract)", "return self._vislike_indexer(self._weights, extract)"),
 ('M13 v3 timestamps: offset to the middle of the dump forgotten', 'katdal/h5datav3.py',
  "self._timestamps += offset_to_middle_of_dump + self.time_offset", "self._timestamps += self.time_offset"),
 ('M14 SensorCache not told about the new time selection', 'katdal/dataset.py',
  "                self.sensor._set_keep(self._time_keep)", "                pass"),
 ('M15 SensorCache serves all dumps instead of the selected ones', 'katdal/sensordata.py',
  "return sensor_data[self.keep] if select else sensor_data", "return sensor_data"),
 ('M16 revert F8 repair: v1 corrprod mask not copied', 'katdal/h5datav1.py',
  "corrprod_keep = self._corrprod_keep.copy()", "corrprod_keep = self._corrprod_keep"),
 ('M17 revert F8b repair (v3 flags): transform reads self._flags_select', 'katdal/h5datav3.py',
  "return np.bool_(np.bitwise_and(flags_select, flags))", "return np.bool_(np.bitwise_and(self._flags_select, flags))"),
 ('M18 revert F17 repair: v2 timestamps mask not padded', 'katdal/h5datav2.py',
  "        return LazyIndexer(self._timestamps, keep=time_keep, transforms=[extract_time])",
  "        return LazyIndexer(self._timestamps, keep=self._time_keep, transforms=[extract_time])"),
 ('M19 v2 weights: selection test inverted', 'katdal/h5datav2.py',
  "return weights.astype(np.float32) if weights_select else", "return weights.astype(np.float32) if not weights_select else"),
 ('M20 DataSet.select: corr_products labels taken from the unselected list head', 'katdal/dataset.py',
  "self.corr_products = self.subarrays[self.subarray].corr_products[self._corrprod_keep]",
  "self.corr_products = self.subarrays[self.subarray].corr_products[:self._corrprod_keep.sum()]"),
 # ---- round 2: per-dump sensors are evaluated at the timestamps of the same dumps (seeded C01-3 and its neighbourhood)
 ('M21 seeded C01-3: v2 restores the real timestamps into the sensor cache only when found irregular', 'PATCH',
  '/verif/seeded/C01-3/patch.diff', ''),
 ('M22 v1: the real timestamps are never restored into the sensor cache', 'katdal/h5datav1.py',
  "        self.sensor.timestamps = self.timestamps\n", "        pass\n"),
 ('M23 v2: the restored sensor-cache timestamps ignore time_offset', 'katdal/h5datav2.py',
  "extract_time = LazyTransform('extract_time', lambda t, keep: t + 0.5 * dump_period + time_offset)\n        self.sensor.timestamps",
  "extract_time = LazyTransform('extract_time', lambda t, keep: t + 0.5 * dump_period)\n        self.sensor.timestamps"),
 ('M24 v3: sensor cache built on the dump START times', 'katdal/h5datav3.py',
  "self.sensor = SensorCache(cache, self._timestamps, self.dump_period,", "self.sensor = SensorCache(cache, self._timestamps - 0.5 * self.dump_period, self.dump_period,"),
 ('M25 v4: sensor cache built on the dump START times', 'katdal/visdatav4.py',
  "self.sensor = SensorCache(source.metadata.sensors, source.timestamps,", "self.sensor = SensorCache(source.metadata.sensors, source.timestamps - half_dump,"),
 ('M26 v3: sensor cache ignores time_offset', 'katdal/h5datav3.py',
  "self.sensor = SensorCache(cache, self._timestamps, self.dump_period,", "self.sensor = SensorCache(cache, self._timestamps - self.time_offset, self.dump_period,"),
 ('M27 SensorCache: numeric sensors interpolated at the start of each dump', 'katdal/sensordata.py',
  "sensor_data = np.interp(timestamps, sensor_timestamps, sensor_data.value)", "sensor_data = np.interp(timestamps - 0.5 * dump_period, sensor_timestamps, sensor_data.value)"),
 ('M28 mjd computed from the start of each dump', 'katdal/dataset.py',
  "cache[name] = mjd = np.array([katpoint.Timestamp(t).to_mjd()", "cache[name] = mjd = np.array([katpoint.Timestamp(t - 0.5 * cache.dump_period).to_mjd()"),
 ('M29 v3: timestamps regularised when the quick uniformity test passes', 'katdal/h5datav3.py',
  "        # Ensure timestamps are aligned with the middle of each dump\n",
  "        if num_dumps > 1 and abs((self._timestamps[-1] - self._timestamps[0]) / self.dump_period + 1 - num_dumps) < 0.01:\n            self._timestamps = self._timestamps[0] + self.dump_period * np.arange(num_dumps)\n"),
 ('M30 v2: sensor cache restored from ALL stored timestamps (duplicate final dump included)', 'katdal/h5datav2.py',
  "self.sensor.timestamps = LazyIndexer(self._timestamps, keep=slice(num_dumps), transforms=[extract_time])",
  "self.sensor.timestamps = LazyIndexer(self._timestamps, transforms=[extract_time])"),
 ('M31 select(timerange=) decided on the estimated uniform grid', 'katdal/dataset.py',
  "                self._time_keep &= (self.sensor.timestamps[:] >= start_time)\n                self._time_keep &= (self.sensor.timestamps[:] <= end_time)",
  "                grid = self.sensor.timestamps[0] + self.dump_period * np.arange(len(self._time_keep))\n                self._time_keep &= (grid >= start_time)\n                self._time_keep &= (grid <= end_time)"),
 ('M32 categorical sensors aligned with the dump START times', 'katdal/sensordata.py',
  "sensor_data = sensor_to_categorical(sensor_data.timestamp, sensor_data.value,\n                                                timestamps, dump_period, **props)",
  "sensor_data = sensor_to_categorical(sensor_data.timestamp, sensor_data.value,\n                                                timestamps - 0.5 * dump_period, dump_period, **props)"),

 # ---- round 3: v4 data sets opened with a preselection: data, freqs and timestamps name the same STORED coordinates
 #      (seeded C01-5 and its neighbourhood)
 ('M33 seeded C01-5: SpectralWindow.subrange merges the two floor divisions', 'PATCH', '/verif/seeded/C01-5/patch.diff', ''),
 ('M34 subrange: centre channel of the sub-range rounded up', 'katdal/spectral_window.py',
  "channel_shift = (first + last) // 2 - self.num_chans // 2", "channel_shift = (first + last + 1) // 2 - self.num_chans // 2"),
 ('M35 subrange: shift from the centre of the sub-range length', 'katdal/spectral_window.py',
  "channel_shift = (first + last) // 2 - self.num_chans // 2", "channel_shift = first + (last - first) // 2 - (self.num_chans - 1) // 2"),
 ('M36 v4: preselected channel range not normalised (negative stop taken literally)', 'katdal/visdatav4.py',
  "            start, stop, stride = preselect['channels'].indices(num_chans)\n            assert stride == 1    # Checked by TelstateDataSource\n",
  "            start = preselect['channels'].start or 0\n            stop = preselect['channels'].stop or num_chans\n            if start < 0:\n                start += num_chans\n"),
 ('M37 datasource: timestamps of a dump preselection start at the first dump of the capture', 'katdal/datasources.py',
  "            timestamps = timestamps[preselect['dumps']]", "            timestamps = timestamps[:len(timestamps[preselect['dumps']])]"),
 ('M38 datasource: chunk store sliced one channel late', 'katdal/datasources.py',
  "                index = (preselect.get('dumps', np.s_[:]), preselect.get('channels', np.s_[:]))",
  "                index = (preselect.get('dumps', np.s_[:]), preselect.get('channels', np.s_[:]))\n                if index[1].start:\n                    index = (index[0], slice(index[1].start + 1, index[1].stop + 1 if index[1].stop and index[1].stop > 0 and index[1].stop < chunk_info['correlator_data']['shape'][1] else index[1].stop))"),
 ('M39 v4: spectral window of a channel preselection keeps the centre frequency of the whole band', 'katdal/visdatav4.py',
  "            spw = spw.subrange(start, stop)", "            spw = SpectralWindow(centre_freq, channel_width, stop - start, product, sideband, band_map[band])"),
 ('M40 SpectralWindow.channel_freqs: centre channel of an even window one too low', 'katdal/spectral_window.py',
  "np.arange(self.num_chans) - self.num_chans // 2) / self.num_chans", "np.arange(self.num_chans) - (self.num_chans - 1) // 2) / self.num_chans"),
 ('M41 v4: time_offset applied to the data timestamps twice when dumps are preselected', 'katdal/visdatav4.py',
  "        source.timestamps += self.time_offset\n", "        source.timestamps += self.time_offset * (2 if getattr(source, 'capture_start', None) is not None and source.capture_start != source.timestamps[0] else 1)\n"),
 # ---- extension round: the frequency axis of the HDF5 readers against the stored attributes
 ('M42 v1: spectral window built with the upper sideband', 'katdal/h5datav1.py',
  "SpectralWindow(centre_freq, channel_width, num_chans, 'poco')", "SpectralWindow(centre_freq, channel_width, num_chans, 'poco', 1)"),
 ('M43 SpectralWindow: default sideband +1', 'katdal/spectral_window.py',
  "sideband=-1, band='L', bandwidth=None):", "sideband=1, band='L', bandwidth=None):"),
 ('M44 v2 (old files): LO offset 4000 MHz', 'katdal/h5datav2.py', "freq - 4200e6 for freq", "freq - 4000e6 for freq"),
 ('M45 v2: version test excludes 2.1 files from the calculated centre-frequency sensor', 'katdal/h5datav2.py',
  "if self.version >= '2.1':\n            centre_freq", "if self.version > '2.1':\n            centre_freq"),
 ('M46 v3 fake UHF: spectrum not flipped', 'katdal/h5datav3.py',
  "            spw_params['centre_freq'] = 428e6\n            spw_params['sideband'] = -1\n", "            spw_params['centre_freq'] = 428e6\n"),
 ('M47 v3: centre_freq argument applied BEFORE the L0 attribute', 'katdal/h5datav3.py',
  "        if l0_centre_freq is not None:\n            spw_params['centre_freq'] = l0_centre_freq\n",
  "        if l0_centre_freq is not None and not centre_freq:\n            spw_params['centre_freq'] = l0_centre_freq\n        if l0_centre_freq is not None and centre_freq:\n            centre_freq = l0_centre_freq\n"),
 ('M48 v3: UHF band centred on 815 MHz', 'katdal/h5datav3.py', "centre_freq=816e6", "centre_freq=815e6"),
 ('M49 v3: CBF bandwidth bug no longer worked around', 'katdal/h5datav3.py', "if bandwidth == 857152196.0:", "if bandwidth == 857152197.0:"),
 ('M50 v2: channel width from one channel too few', 'katdal/h5datav2.py', "channel_width = bandwidth / num_chans", "channel_width = bandwidth / (num_chans - 1)"),
 ('M51 v3: vis conjugated for the upper sideband too when the band is UHF', 'katdal/h5datav3.py',
  "if self.spectral_windows[self.spw].sideband == 1:", "if self.spectral_windows[self.spw].sideband == 1 and self.spectral_windows[self.spw].band != 'UHF':"),
 # ---- extension round: dimensionality of answers, keepdims
 ('M52 v3 keepdims: scalar axes are not re-inserted', 'katdal/h5datav3.py',
  "keep_singles = [(np.newaxis if np.isscalar(dim_keep) else slice(None))\n                            for dim_keep in keep]\n            return data[tuple(keep_singles)]\n        force_full_dim",
  "keep_singles = [slice(None) for dim_keep in keep if not np.isscalar(dim_keep)]\n            return data[tuple(keep_singles)]\n        force_full_dim"),
 ('M53 v3: keepdims test inverted', 'katdal/h5datav3.py', "        if self._keepdims:\n            transforms.append(force_full_dim)", "        if not self._keepdims:\n            transforms.append(force_full_dim)"),
 ('M54 v2: keepdims argument ignored', 'katdal/h5datav2.py', "self._keepdims = keepdims", "self._keepdims = False"),
 ('M55 revert a3e00d5: flags combined with the one-element mask array', 'katdal/h5datav3.py',
  "np.bitwise_and(flags_select[0], flags)", "np.bitwise_and(flags_select, flags)"),
 ('M56 v2 keepdims: only the first two axes are guarded', 'katdal/h5datav2.py',
  "keep = keep[:3] + (slice(None),) * (3 - len(keep))\n", "keep = keep[:2] + (slice(None),) * (2 - len(keep))\n"),
 ('M57 v3 weights under keepdims: per-channel weights keep their singleton axes too', 'katdal/h5datav3.py',
  "        weights_channel.transforms = []\n", "        pass\n"),
 # ---- extension round: the product axis against the stored ordering
 ('M58 v4: subarray built from the SORTED baseline ordering', 'katdal/visdatav4.py',
  "self.subarrays = subs = [Subarray(ants, corrprods)]", "self.subarrays = subs = [Subarray(ants, sorted(tuple(cp) for cp in corrprods))]"),
 ('M59 v3: subarray products listed with the two inputs swapped', 'katdal/h5datav3.py',
  "self.subarrays = [Subarray(ants, corrprods)]", "self.subarrays = [Subarray(ants, [(b, a) for a, b in corrprods])]"),
 # ---- round 4: several spectral windows / subarrays (seeded C01-9 and its neighbourhood)
 ('M60 seeded C01-9: dumps restricted to the active window / subarray only when that changes', 'PATCH',
  '/verif/seeded/C01-9/patch.diff', ''),
 ('M61 select: a change of window restarts the frequency axis only', 'katdal/dataset.py',
  "            reset += 'TF'\n", "            reset += 'F'\n"),
 ('M62 select: dumps restricted to the PREVIOUS window (the time base compares with the old self.spw)', 'katdal/dataset.py',
  "        if spw != self.spw:\n            reset += 'TF'\n            self.spw = spw\n        if subarray != self.subarray:\n            reset += 'TB'\n            self.subarray = subarray\n        # Reset the selection flags on the appropriate dimensions\n        if 'T' in reset:\n            self._time_keep[:] = True\n            self._time_keep &= (self.sensor.get('Observation/spw_index') == spw)",
  "        prev_spw = self.spw if self.spw >= 0 else spw\n        if spw != self.spw:\n            reset += 'TF'\n            self.spw = spw\n        if subarray != self.subarray:\n            reset += 'TB'\n            self.subarray = subarray\n        # Reset the selection flags on the appropriate dimensions\n        if 'T' in reset:\n            self._time_keep[:] = True\n            self._time_keep &= (self.sensor.get('Observation/spw_index') == prev_spw)"),
 ('M63 select: freqs always those of window 0', 'katdal/dataset.py',
  "self.freqs = self.channel_freqs = self.spectral_windows[self.spw].channel_freqs[self._freq_keep]",
  "self.freqs = self.channel_freqs = self.spectral_windows[0].channel_freqs[self._freq_keep]"),
 ('M64 v2: spectral windows listed by increasing centre frequency, spw_index by first appearance', 'katdal/h5datav2.py',
  "for spw_centre in centre_freq.unique_values]", "for spw_centre in sorted(centre_freq.unique_values)]"),
 ('M65 select: the bare select() keeps all dumps (no window restriction when nothing is given)', 'katdal/dataset.py',
  "            self._time_keep &= (self.sensor.get('Observation/spw_index') == spw)",
  "            self._time_keep &= (self.sensor.get('Observation/spw_index') == spw) | (len(kwargs) == 2)"),
 ('M66 select: time criteria with an explicit reset keep the dumps of all windows', 'katdal/dataset.py',
  "        if 'T' in reset:\n            self._time_keep[:] = True\n            self._time_keep &= (self.sensor.get('Observation/spw_index') == spw)",
  "        if 'T' in reset:\n            self._time_keep[:] = True\n            self._time_keep &= (self.sensor.get('Observation/spw_index') == spw) | ('T' in kwargs.get('reset', ''))"),
 ('M67 v2: the window of every dump decided on the dump START times without time_offset', 'katdal/h5datav2.py',
  "self.sensor['Observation/spw_index'] = CategoricalData(centre_freq.indices, centre_freq.events)",
  "self.sensor['Observation/spw_index'] = CategoricalData(centre_freq.indices, np.r_[0, np.minimum(np.array(centre_freq.events[1:-1]) + 1, centre_freq.events[-1] - 1), centre_freq.events[-1]].astype(int) if len(centre_freq.events) > 2 else centre_freq.events)"),
 ('M68 select: a change of window does not restart the frequency axis (stale channel selection kept)', 'katdal/dataset.py',
  "            reset += 'TF'\n", "            reset += 'T'\n"),
 ('M69 select: the subarray comparison dropped from the time base', 'katdal/dataset.py',
  "            self._time_keep &= (self.sensor.get('Observation/subarray_index') == subarray)\n", ""),
 ('M70 select: a change of subarray restarts the product axis only', 'katdal/dataset.py',
  "            reset += 'TB'\n", "            reset += 'B'\n"),
 ('M71 select: corr_products always those of subarray 0', 'katdal/dataset.py',
  "self.corr_products = self.subarrays[self.subarray].corr_products[self._corrprod_keep]",
  "self.corr_products = self.subarrays[0].corr_products[self._corrprod_keep]"),
 ('M72 select: dumps restricted to the active SUBARRAY only when the subarray changes (window half left alone)', 'katdal/dataset.py',
  "        if subarray != self.subarray:\n            reset += 'TB'\n            self.subarray = subarray\n        # Reset the selection flags on the appropriate dimensions\n        if 'T' in reset:\n            self._time_keep[:] = True\n            self._time_keep &= (self.sensor.get('Observation/spw_index') == spw)\n            self._time_keep &= (self.sensor.get('Observation/subarray_index') == subarray)\n            for key in time_selectors:\n                self._selection.pop(key, None)\n",
  "        sub_changed = subarray != self.subarray\n        if sub_changed:\n            reset += 'TB'\n            self.subarray = subarray\n        # Reset the selection flags on the appropriate dimensions\n        if 'T' in reset:\n            self._time_keep[:] = True\n            self._time_keep &= (self.sensor.get('Observation/spw_index') == spw)\n            for key in time_selectors:\n                self._selection.pop(key, None)\n        if sub_changed:\n            self._time_keep &= (self.sensor.get('Observation/subarray_index') == subarray)\n"),
 ('M73 concatenation: spw_index of the parts not remapped to the merged windows', 'katdal/concatdata.py',
  "            d.sensor['Observation/spw_index'] = CategoricalData(split_spw[n].indices, split_spw[n].events)\n", ""),
]
only = sys.argv[1:]
res = []
for (name, rel, old, new) in MUTS:
    if only and name.split()[0] not in only: continue
    env0 = dict(os.environ, VERIF_REPO=REPO, VERIF_SEED='1')
    if not os.environ.get('C01_MUT_NOCLEAN'):
        r0 = subprocess.run(['timeout', '900', './check', 'C01', '--tier', 'quick'], cwd=VERIF, env=env0, capture_output=True, text=True)
        assert r0.returncode == 0, r0.stdout[-2000:]
    if rel == 'PATCH':
        subprocess.run(['git', '-C', REPO, 'apply', old], check=True)
    else:
        p = os.path.join(REPO, rel); s = open(p).read()
        assert s.count(old) == 1, (name, s.count(old))
        open(p, 'w').write(s.replace(old, new))
    shutil.rmtree(os.path.join(VERIF, 'replays'), ignore_errors=True)
    try:
        env = dict(os.environ, VERIF_REPO=REPO, VERIF_SEED=os.environ.get('VERIF_SEED', '1'))
        r = subprocess.run(['timeout', '900', './check', 'C01', '--tier', 'quick'], cwd=VERIF, env=env, capture_output=True, text=True)
        out = r.stdout + r.stderr
        viol = [l for l in out.split('\n') if l.startswith('VIOLATION')]
        sigs = []
        for f in sorted(glob.glob(os.path.join(VERIF, 'replays', 'C01-*.json')))[:6]:
            d = json.load(open(f)); sigs.append(d.get('signature') or str(d.get('broken_obligation')))
        broken = [l for l in out.split('\n') if 'BROKEN OBLIGATION' in l]
        res.append((name, r.returncode, len(viol), sigs, broken[:1]))
        print(name, '| exit', r.returncode, '| violations', len(viol), '|', sigs[:3], broken[:1], flush=True)
    finally:
        subprocess.run(['git', '-C', REPO, 'checkout', '--', '.'])
json.dump(res, open(os.path.join(VERIF, 'build/c01_mutation_results%s.json' % ('_' + '_'.join(only) if only else '')), 'w'), indent=1)
