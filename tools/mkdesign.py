#!/usr/bin/env python3
"""Assemble /verif/DESIGN.md from design.d/part1.md (the design), design.d/part2.md (as built, hand written),
generated tables (tools/status_table.py, known_findings.json, seeded/*/meta.json) and design.d/Cxx.md."""
import glob
import json
import os
import subprocess
import sys

root = os.path.dirname(os.path.dirname(os.path.abspath(__file__)))
part1 = open(os.path.join(root, 'design.d', 'part1.md')).read()
part2 = open(os.path.join(root, 'design.d', 'part2.md')).read()
tables = subprocess.run([sys.executable, os.path.join(root, 'tools', 'status_table.py')], capture_output=True,
                        text=True, check=True).stdout
status, seeded = tables.split('\n\n', 1)

kf = json.load(open(os.path.join(root, 'known_findings.json')))['findings']
lines = ['Repaired in /repo (%d `fix:` commits; the line is what `known_findings.json` records):' %
         sum(1 for e in kf if e['status'] == 'fixed'), '']
for e in kf:
    if e['status'] == 'fixed':
        lines.append('* `%s`' % e.get('line', 'fixed: property=%s %s %s' % (e['property'], e.get('commit', '?'), e['what'])))
lines += ['', 'Open (printed as `KNOWN-FINDING:` by the check of the property; signature in brackets):', '']
for e in kf:
    if e['status'] == 'open':
        lines.append('* %s %s [`%s`] — %s' % (e['property'], e['id'], e['signature'], e['what']))
findings = '\n'.join(lines)

# property-preserving changes (false-alarm corpus)
rows = ['| benign change | what it does | check on the changed tree |', '|----|----|----|']
for mpath in sorted(glob.glob(os.path.join(root, 'benign', '*', 'meta.json'))):
    m = json.load(open(mpath))
    name = os.path.basename(os.path.dirname(mpath))
    title = ''
    npath = os.path.join(os.path.dirname(mpath), 'notes.md')
    if os.path.exists(npath):
        title = open(npath).readline().lstrip('# ').strip()
    v = m.get('verdict', '?')
    if m.get('check_broken_obligations'):
        v += ' (' + '; '.join(x.replace('BROKEN OBLIGATION(S): ', '')[:110] for x in m['check_broken_obligations'][:1]) + ')'
    if m.get('concrete_violation_signatures'):
        v += ' signatures: ' + '; '.join(str(x) for x in m['concrete_violation_signatures'][:3])
    rows.append('| %s | %s | %s |' % (name, title.replace('|', '/'), v.replace('|', '/')))
benign = '\n'.join(rows)
sm = [json.load(open(x)) for x in sorted(glob.glob(os.path.join(root, 'seeded', '*', 'meta.json')))]
n_all = len(sm)
n_det = sum(1 for m in sm if m.get('detected'))
n_conc = sum(1 for m in sm if m.get('detected') and not ((m.get('check_first_violations') or []) and all(
    v.rstrip().endswith('no-failing-input-found') for v in m.get('check_first_violations'))
    and m.get('check_violation_lines', 0) <= len(m.get('check_first_violations') or [])))
bm = [json.load(open(x)) for x in sorted(glob.glob(os.path.join(root, 'benign', '*', 'meta.json')))]
seeded_summary = ('State of the corpora at the last evaluation recorded in the `meta.json` files: **%d seeded changes** kept, **%d caught** by '
                  'the check of their own property (%d of them with at least one concrete failing input in the replay, the others '
                  'through a broken proof obligation / translator item for which the search found no input); **%d property-preserving '
                  'changes**: %d quiet, %d obligation-only, %d false alarms.' % (
                      n_all, n_det, n_conc, len(bm), sum(1 for m in bm if m.get('verdict') == 'quiet'),
                      sum(1 for m in bm if str(m.get('verdict', '')).startswith('obligation')),
                      sum(1 for m in bm if m.get('verdict') == 'FALSE ALARM')))

na = json.load(open(os.path.join(root, 'MANIFEST.json'))).get('not_applicable', [])
out = part1.rstrip('\n') + '\n' + part2
out = out.replace('@@STATUS_TABLE@@', status.strip()).replace('@@FINDINGS_TABLE@@', findings).replace('@@SEEDED_TABLE@@', seeded.strip()).replace('@@BENIGN_TABLE@@', benign).replace('@@SEEDED_SUMMARY@@', seeded_summary)
for f in sorted(glob.glob(os.path.join(root, 'design.d', 'C[0-9][0-9].md'))):
    txt = open(f).read().strip('\n')
    # demote headings by two levels so that each note becomes a subsection of section 16
    txt = '\n'.join(('##' + l) if l.startswith('#') else l for l in txt.split('\n'))
    out += '\n' + txt + '\n\n---------------------------------------------------------------------------\n'
out += '\n## 17. Properties not claimed\n\n'
if na:
    for x in na:
        out += '* %s — %s\n' % (x['property_id'], x['reason'])
else:
    out += 'None: all 20 properties are claimed in MANIFEST.json. Clauses that are only reached by the correspondence ' \
           '(no theorem) are listed as NV ("not verified") in the per-property notes above.\n'
open(os.path.join(root, 'DESIGN.md'), 'w').write(out)
print('DESIGN.md: %d lines' % out.count('\n'))
