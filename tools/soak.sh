#!/bin/bash
# tools/soak.sh "<seeds>" [props...] : run the quick tier of every check with several seeds on the unchanged tree
# (false-alarm soak; meant for `vp run`). Prints one line per run; non-zero exits and VIOLATION lines are kept in soak/.
seeds=${1:-"2 3 4"}; shift
[ -n "$VP_RUN_REPO" ] && export VERIF_REPO=$VP_RUN_REPO
props=${@:-C01 C02 C03 C04 C05 C06 C07 C08 C09 C10 C11 C12 C13 C14 C15 C16 C17 C18 C19 C20}
[ -x build/extract/driver ] || ./setup.sh > /dev/null 2>&1
mkdir -p soak
for s in $seeds; do for p in $props; do
  t0=$(date +%s)
  VERIF_SEED=$s ./check $p --tier quick > soak/$p-$s.log 2>&1; rc=$?
  echo "$p seed=$s exit=$rc wall=$(( $(date +%s) - t0 ))s $(grep -c '^VIOLATION' soak/$p-$s.log) violations $(grep -c '^KNOWN-FINDING' soak/$p-$s.log) known"
  grep '^VIOLATION' soak/$p-$s.log | head -3
done; done
