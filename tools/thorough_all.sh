#!/bin/bash
# tools/thorough_all.sh [props...] : run the thorough tier of every check once on the unchanged tree (meant for `vp run`)
[ -n "$VP_RUN_REPO" ] && export VERIF_REPO=$VP_RUN_REPO
props=${@:-C01 C02 C03 C04 C05 C06 C07 C08 C09 C10 C11 C12 C13 C14 C15 C16 C17 C18 C19 C20}
[ -x build/extract/driver ] || ./setup.sh > /dev/null 2>&1
mkdir -p soak
for p in $props; do
  t0=$(date +%s)
  ./check $p --tier thorough > soak/$p-thorough.log 2>&1; rc=$?
  echo "$p thorough exit=$rc wall=$(( $(date +%s) - t0 ))s $(grep -c '^VIOLATION' soak/$p-thorough.log) violations $(grep -c '^KNOWN-FINDING' soak/$p-thorough.log) known"
  grep '^VIOLATION' soak/$p-thorough.log | head -3
done
