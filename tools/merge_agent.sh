#!/bin/bash
# tools/merge_agent.sh Cxx : merge branch agent-Cxx into main, regenerate MANIFEST / known findings
set -e
cd /verif
P=$1
git checkout -- evidence 2>/dev/null || true
git merge agent-$P -m "Merge agent-$P" >/dev/null 2>&1 || true
for f in $(git diff --name-only --diff-filter=U | grep "^evidence/"); do git checkout --theirs $f; git add $f; done
for f in MANIFEST.json known_findings.json DESIGN.md; do git checkout --ours $f 2>/dev/null && git add $f 2>/dev/null; done || true
git rm -q --cached coq/_CoqProject 2>/dev/null || true
for f in $(git diff --name-only --diff-filter=U); do echo "UNRESOLVED: $f"; UNRES=1; done
if [ -n "$UNRES" ]; then echo "merge left with conflicts: resolve by hand, then run mkmanifest/mkdesign and commit"; exit 1; fi
python3 tools/mkmanifest.py
python3 tools/mkdesign.py >/dev/null
git add -A
git commit -qm "Merge agent-$P" || true
git log --oneline | head -2
git -C /repo log --oneline main..fix-$P | cat
