#!/usr/bin/env python3
"""tools/eval_benign.py Cxx k [--skip-suite]

False-alarm test.  Confirms a property-PRESERVING change produced by an independent sub-agent under
/tmp/benign/Cxx/out/k and records it as /verif/benign/Cxx-k/: (1) its demo passes on the unchanged tree AND with the
change, (2) the pinned suite still passes with the change, (3) what our check says when run against the changed tree.
Expected: exit 0; or exit 1 with nothing but `no-failing-input-found` lines (a broken translator item / proof
obligation is permitted by the brief for a harmless rewrite, a concrete failing input is not: that is a false alarm).
"""
import json, os, re, shutil, subprocess, sys, time

P, K = sys.argv[1], sys.argv[2]
VDIR = os.environ.get('VERIF_DIR', '/verif')
src = '/tmp/benign/%s/out/%s' % (P, K)
dst = '/verif/benign/%s-%s' % (P, K)
if '--reeval' in sys.argv:
    src = dst
wt = '/tmp/benigneval/%s-%s' % (P, K)


def sh(cmd, **kw):
    return subprocess.run(cmd, shell=True, stdout=subprocess.PIPE, stderr=subprocess.STDOUT, text=True, **kw)


os.makedirs('/tmp/benigneval', exist_ok=True)
sh('git -C /repo worktree remove --force %s' % wt)
r = sh('git -C /repo worktree add --detach %s HEAD' % wt)
assert r.returncode == 0, r.stdout
meta = dict(property=P, index=int(K), kind='benign', evaluated_at=time.strftime('%Y-%m-%dT%H:%M:%SZ', time.gmtime()),
            repo_head=sh('git -C /repo rev-parse --short HEAD').stdout.strip(),
            verif_head=sh('git -C %s rev-parse --short HEAD' % VDIR).stdout.strip())
try:
    r = sh('git -C %s apply --check %s/patch.diff && git -C %s apply %s/patch.diff' % (wt, src, wt, src))
    meta['patch_applies'] = r.returncode == 0
    env = 'PYTHONHASHSEED=0 OMP_NUM_THREADS=1'
    r1 = sh('cd /tmp && %s PYTHONPATH=/repo timeout 900 /venv/bin/python %s/demo.py' % (env, src))
    r2 = sh('cd /tmp && %s PYTHONPATH=%s timeout 900 /venv/bin/python %s/demo.py' % (env, wt, src))
    meta['demo_clean_exit'] = r1.returncode
    meta['demo_changed_exit'] = r2.returncode
    if '--skip-suite' not in sys.argv:
        r3 = sh('cd %s && timeout 3000 /venv/bin/python -m pytest -q -p no:cacheprovider --timeout=900 '
                '--continue-on-collection-errors katdal/test 2>&1 | tail -3' % wt)
        meta['suite_tail'] = r3.stdout.strip().split('\n')[-1]
    t0 = time.time()
    r4 = sh('cd %s && VERIF_REPO=%s timeout 3000 ./check %s --tier quick' % (VDIR, wt, P))
    meta['check_exit_on_changed'] = r4.returncode
    meta['check_wall_s'] = round(time.time() - t0, 1)
    vio = [l for l in r4.stdout.split('\n') if l.startswith('VIOLATION')]
    meta['check_violation_lines'] = len(vio)
    meta['check_first_violations'] = vio[:4]
    meta['check_broken_obligations'] = [l for l in r4.stdout.split('\n') if l.startswith('BROKEN')][:2]
    concrete = [l for l in vio if not l.rstrip().endswith('no-failing-input-found')]
    sigs = []
    for l in concrete[:6]:
        m = re.search(r'replay=(\S+)', l)
        if m and os.path.exists(m.group(1)):
            try:
                sigs.append(json.load(open(m.group(1))).get('signature'))
            except Exception:
                pass
    meta['concrete_violation_signatures'] = sigs
    meta['verdict'] = ('quiet' if r4.returncode == 0 and not vio else
                       'obligation-only (no-failing-input-found)' if vio and not concrete else 'FALSE ALARM')
finally:
    sh('git -C /repo worktree remove --force %s' % wt)
    r5 = sh('cd %s && timeout 3000 ./check %s --tier quick' % (VDIR, P))
    meta['check_exit_on_clean_after'] = r5.returncode
os.makedirs(dst, exist_ok=True)
for f in ('patch.diff', 'demo.py', 'notes.md'):
    if src != dst and os.path.exists(os.path.join(src, f)):
        shutil.copy(os.path.join(src, f), os.path.join(dst, f))
json.dump(meta, open(os.path.join(dst, 'meta.json'), 'w'), indent=1)
print(json.dumps(meta, indent=1))
