#!/usr/bin/env python3
"""tools/eval_seed.py Cxx k [--skip-suite]

Confirms a seeded change produced by an independent sub-agent under /tmp/seed/Cxx/out/k and records it as
/verif/seeded/Cxx-k/:  (1) demo passes on the unchanged tree, (2) demo fails with the change, (3) the pinned
test-suite still passes with the change (same failures as BASELINE always_fail at most), (4) what our check says
when run against the changed tree (VERIF_REPO=<scratch worktree>), and on the clean tree afterwards.
"""
import json
import os
import re
import shutil
import subprocess
import sys
import time

P, K = sys.argv[1], sys.argv[2]
VDIR = os.environ.get('VERIF_DIR', '/verif')
skip_suite = '--skip-suite' in sys.argv
src = '/tmp/seed/%s/out/%s' % (P, K)
dst = '/verif/seeded/%s-%s' % (P, K)
if '--reeval' in sys.argv:      # re-run the checks on an already recorded seeded change
    src = dst
wt = '/tmp/seedeval/%s-%s' % (P, K)
base = json.load(open('/root/.vp/BASELINE.json'))
always_fail = set(base['always_fail'])


def sh(cmd, **kw):
    return subprocess.run(cmd, shell=True, stdout=subprocess.PIPE, stderr=subprocess.STDOUT, text=True, **kw)


os.makedirs('/tmp/seedeval', exist_ok=True)
sh('git -C /repo worktree remove --force %s' % wt)
r = sh('git -C /repo worktree add --detach %s HEAD' % wt)
assert r.returncode == 0, r.stdout
meta = dict(property=P, seed_index=int(K), evaluated_at=time.strftime('%Y-%m-%dT%H:%M:%SZ', time.gmtime()),
            repo_head=sh('git -C /repo rev-parse --short HEAD').stdout.strip(),
            verif_head=sh('git -C /verif rev-parse --short HEAD').stdout.strip())
try:
    r = sh('git -C %s apply --check %s/patch.diff && git -C %s apply %s/patch.diff' % (wt, src, wt, src))
    meta['patch_applies'] = r.returncode == 0
    if r.returncode:
        meta['patch_error'] = r.stdout[-500:]
    env = 'PYTHONHASHSEED=0 OMP_NUM_THREADS=1'
    r1 = sh('cd /tmp && %s PYTHONPATH=/repo timeout 600 /venv/bin/python %s/demo.py' % (env, src))
    r2 = sh('cd /tmp && %s PYTHONPATH=%s timeout 600 /venv/bin/python %s/demo.py' % (env, wt, src))
    meta['demo_clean_exit'] = r1.returncode
    meta['demo_changed_exit'] = r2.returncode
    meta['demo_changed_tail'] = r2.stdout[-600:]
    if not skip_suite:
        r3 = sh('cd %s && timeout 3000 /venv/bin/python -m pytest -q -p no:cacheprovider --timeout=900 '
                '--continue-on-collection-errors -rf katdal/test 2>&1 | tail -40' % wt)
        failed = set()
        for m in re.finditer(r'^FAILED (\S+)', r3.stdout, re.M):
            t = m.group(1).replace('/', '.').replace('.py::', '::')
            failed.add(t)
        new_fail = sorted(f for f in failed if not any(f.split(' ')[0].endswith(a.split('::', 1)[1]) and
                                                      a.split('::')[0].split('.')[-1] in f for a in always_fail))
        meta['suite_tail'] = r3.stdout.strip().split('\n')[-1]
        meta['suite_new_failures'] = new_fail
    t0 = time.time()
    r4 = sh('cd %s && VERIF_REPO=%s timeout 3000 ./check %s --tier quick' % (VDIR, wt, P))
    meta['check_exit_on_changed'] = r4.returncode
    meta['check_wall_s'] = round(time.time() - t0, 1)
    vio = [l for l in r4.stdout.split('\n') if l.startswith('VIOLATION')]
    meta['check_violation_lines'] = len(vio)
    meta['check_first_violations'] = vio[:3]
    meta['check_broken_obligations'] = [l for l in r4.stdout.split('\n') if l.startswith('BROKEN')][:2]
    sigs = []
    for l in vio[:8]:
        m = re.search(r'replay=(\S+)', l)
        if m and os.path.exists(m.group(1)):
            try:
                sigs.append(json.load(open(m.group(1))).get('signature'))
            except Exception:
                pass
    meta['check_signatures'] = sigs
    meta['detected'] = r4.returncode == 1 and len(vio) > 0
finally:
    sh('git -C /repo worktree remove --force %s' % wt)
    # restore the build state for the clean tree
    r5 = sh('cd %s && timeout 3000 ./check %s --tier quick' % (VDIR, P))
    meta['check_exit_on_clean_after'] = r5.returncode
if skip_suite and os.path.exists(os.path.join(dst, 'meta.json')):   # carry over the suite result of the full evaluation
    old = json.load(open(os.path.join(dst, 'meta.json')))
    for k in ('suite_tail', 'suite_new_failures'):
        if k in old and k not in meta:
            meta[k] = old[k]
os.makedirs(dst, exist_ok=True)
for f in ('patch.diff', 'demo.py', 'notes.md'):
    if src != dst and os.path.exists(os.path.join(src, f)):
        shutil.copy(os.path.join(src, f), os.path.join(dst, f))
meta['needs_to_manifest'] = open(os.path.join(src, 'notes.md')).read()[:1200] if os.path.exists(os.path.join(src, 'notes.md')) else ''
meta['what_was_run'] = ['demo.py on /repo (clean) and on a scratch worktree with patch.diff applied',
                        'pytest katdal/test on the changed worktree' if not skip_suite else 'suite skipped',
                        'VERIF_REPO=<changed worktree> ./check %s --tier quick, then ./check %s on the clean tree' % (P, P)]
json.dump(meta, open(os.path.join(dst, 'meta.json'), 'w'), indent=1)
print(json.dumps({k: meta[k] for k in meta if k not in ('needs_to_manifest', 'demo_changed_tail')}, indent=1))
