"""Mutation self-test of the C06 check, round 2 (see design.d/C06.md): applies one edit at a time to the katdal worktree
/work/C06/repo, runs ./check C06 --tier quick and reverts.  Usage: tools/c06_mutations.py [M1 M2 ...]"""
import subprocess, sys, os, json, glob, shutil
REPO = '/work/C06/repo'; VERIF = '/work/C06/verif'
NPY = 'katdal/chunkstore_npy.py'; CS = 'katdal/chunkstore.py'; VFW = 'katdal/vis_flags_weights.py'; DS = 'katdal/datasources.py'
MUTS = [
 ('M1 NPY store consults a directory listing cached per array (chunks arriving later stay "absent")', 'PATCH',
  os.path.join(VERIF, 'seeded/C06-6/patch.diff'), ''),
 ('M2 NPY store caches the chunks it has read (a chunk removed or rewritten later is served stale)', NPY,
  "        with self._standard_errors(chunk_name):\n            chunk = np.load(filename, allow_pickle=False)\n        if chunk.shape != shape",
  "        cache = self.__dict__.setdefault('_chunk_cache', {})\n        if chunk_name in cache:\n            return cache[chunk_name]\n"
  "        with self._standard_errors(chunk_name):\n            chunk = np.load(filename, allow_pickle=False)\n        cache[chunk_name] = chunk\n        if chunk.shape != shape"),
 ('M3 get_chunk_or_placeholder remembers the chunks it found missing and does not ask the store again', CS,
  "        if not dryrun:\n            try:\n                return self.get_chunk(array_name, slices, dtype)\n            except ChunkNotFound:\n                pass\n        chunk_name, shape = self.chunk_metadata(array_name, slices)\n        return PlaceholderChunk(shape, dtype, chunk_name)",
  "        chunk_name, shape = self.chunk_metadata(array_name, slices)\n        missing = self.__dict__.setdefault('_known_missing', set())\n"
  "        if not dryrun and chunk_name not in missing:\n            try:\n                return self.get_chunk(array_name, slices, dtype)\n            except ChunkNotFound:\n                missing.add(chunk_name)\n        return PlaceholderChunk(shape, dtype, chunk_name)"),
 ('M4 _apply_data_lost stops after the first missing source chunk', VFW,
  "            flags[slices] |= DATA_LOST\n    return flags", "            flags[slices] |= DATA_LOST\n            break\n    return flags"),
 ('M5 _apply_data_lost flags in place (no copy of the stored flags chunk)', VFW,
  "            if flags is orig_flags:\n                flags = orig_flags.copy()\n", ""),
 ('M6 lost map pairs source chunk keys in Fortran order with the (C order) intersections', VFW,
  "for src_key, pieces in zip(src_keys.flat, intersections):", "for src_key, pieces in zip(src_keys.ravel(order='F'), intersections):"),
 ('M7 TelstateDataSource builds preselect_index as (channels, dumps)', DS,
  "index = (preselect.get('dumps', np.s_[:]), preselect.get('channels', np.s_[:]))",
  "index = (preselect.get('channels', np.s_[:]), preselect.get('dumps', np.s_[:]))"),
 ('M8 PlaceholderChunk.__getitem__ keeps the shape of the whole chunk', CS,
  "        new_shape = dummy[index].shape\n        return PlaceholderChunk(new_shape, self.dtype, self.name)",
  "        return PlaceholderChunk(self.shape, self.dtype, self.name)"),
 ('M9 lost map extends weights_channel by the baseline CHUNKS of flags (zip then drops the later baseline chunks)', VFW,
  "chunks += tuple((x,) for x in darray['flags'].shape[array.ndim:])", "chunks += darray['flags'].chunks[array.ndim:]"),
 ('M10 _upgrade_chunk_info drops flag chunks lying entirely beyond the L0 dumps (seeded C06-5)', 'PATCH',
  os.path.join(VERIF, 'seeded/C06-5/patch.diff'), ''),
 ('M11 TelstateDataSource aligns the chunk info BEFORE the flags stream replaces the L0 flags', DS,
  "            if upgrade_flags:\n                chunk_info = _upgrade_flags(chunk_info, telstate, capture_block_id, stream_name)\n            chunk_info = _align_chunk_info(chunk_info)",
  "            chunk_info = _align_chunk_info(chunk_info)\n            if upgrade_flags:\n                chunk_info = _upgrade_flags(chunk_info, telstate, capture_block_id, stream_name)"),
 ('M12 _apply_data_lost assigns DATA_LOST instead of ORing it in', VFW,
  "flags[slices] |= DATA_LOST", "flags[slices] = DATA_LOST"),
 ('M13 _prune_chunks treats any slice without a start as the full axis', CS,
  "        if index[axis] == slice(None):\n            continue", "        if index[axis].start is None and index[axis].stop is None or index[axis].start is None and index[axis].stop >= shape[axis] - 1:\n            continue"),
 ('M14 TelstateDataSource accepts any slice step in preselect', DS,
  "if not isinstance(idx, slice) or idx.step not in {None, 1}:", "if not isinstance(idx, slice):"),
 ('M15 _align_chunk_info pads to the longest L0 array only (flags ignored)', DS,
  "max_dumps = max(info['shape'][0] for info in chunk_info.values())",
  "max_dumps = max(info['shape'][0] for key, info in chunk_info.items() if key != 'flags')"),
 ('M16 Van Vleck lookup table loses its (0, 0) anchor (seeded C06-8)', 'PATCH', '/verif/seeded/C06-8/patch.diff', ''),
 ('M17 Van Vleck interpolation marks out-of-table powers as NaN (np.interp left=nan)', VFW,
  "quantised_autocorr_table, true_autocorr_table)\n        return out", "quantised_autocorr_table, true_autocorr_table, left=np.nan)\n        return out"),
 ('M18 weight_power_scale: a zero / non-finite power gives weight 1 times the stored weight instead of bad_weight', VFW,
  "                if not np.isfinite(p):\n                    p = bad_weight", "                if not np.isfinite(p):\n                    p = np.float32(1.0)"),
 ('M19 seeded C06-7: _apply_data_lost ORs into the chunk it was handed', 'PATCH', '/verif/seeded/C06-7/patch.diff', ''),
 ('M20 fix of C06-F2 reverted: DictChunkStore slices beyond the end of its array (BadChunk for trailing dumps)', 'katdal/chunkstore_dict.py',
  "            if any(s.start >= n and s.stop > s.start for s, n in zip(slices, array.shape)):\n                raise IndexError(f'Chunk {chunk_name!r} lies outside array of shape {array.shape}')\n", ""),
 ('M21 DictChunkStore treats a chunk that merely touches the end of the array as outside (>= instead of >)', 'katdal/chunkstore_dict.py',
  "if any(s.start >= n and s.stop > s.start for s, n in zip(slices, array.shape)):", "if any(s.stop >= n and s.stop > s.start for s, n in zip(slices, array.shape)):"),
 ('M22 a sliced PlaceholderChunk forgets its dtype (float64): zeros of the wrong type; shows only when the FIRST block of the selection is lost and cut by the window', CS,
  "        return PlaceholderChunk(new_shape, self.dtype, self.name)", "        return PlaceholderChunk(new_shape, float, self.name)"),
 ('M23 _default_zero fills with float64 zeros (dtype of the placeholder ignored)', VFW,
  "        return np.zeros(array.shape, array.dtype)", "        return np.zeros(array.shape)"),
 ('M24 get_dask_array names the dask array by offset and token only (arrays with identical chunks and dtype share graph keys)', CS,
  "out_name = f'{array_name}-{offset}-{token}'", "out_name = f'{offset}-{token}'"),
 ('M25 lost map reuses the source keys made for an earlier array with the same chunking', VFW,
  "                src_keys[index] = (array.name,) + index\n",
  "                src_keys[index] = (array.name,) + index\n            src_keys = self.__dict__.setdefault('_src_key_cache', {}).setdefault(array.chunks, src_keys)\n"),
 ('M26 _upgrade_flags fills a missing prefix of the flags stream from the L0 view (legacy layout reads the L0 flags)', DS,
  "flags_info = _ensure_prefix_is_set(flags_info, telstate_cs)", "flags_info = _ensure_prefix_is_set(flags_info, telstate)"),
 ('M27 _ensure_prefix_is_set overwrites an explicit prefix by chunk_name', DS,
  "        if 'prefix' not in info:\n            info['prefix'] = telstate['chunk_name']", "        info['prefix'] = telstate.get('chunk_name', info.get('prefix'))"),
 ('M28 get_chunk_or_default builds the default chunk without the dtype (a lost flags chunk is int64)', CS,
  "return np.full(shape, default_value, dtype)", "return np.full(shape, default_value)"),
 ('M29 _upgrade_chunk_info keeps the prefix of the entry it replaces (flags stream read under the L0 prefix)', DS,
  "        chunk_info[key] = improved_info\n", "        chunk_info[key] = dict(improved_info, prefix=original_info.get('prefix', improved_info.get('prefix')))\n"),
 ('M30 get_dask_array token ignores the dtype and the name ignores the array (vis and weights with identical chunks collide)', CS,
  "        token = da.core.tokenize(self, chunks, dtype, index)\n        out_name = f'{array_name}-{offset}-{token}'", "        token = da.core.tokenize(self, chunks, index)\n        out_name = f'data-{offset}-{token}'"),
]
only = sys.argv[1:]
res = []
for (name, rel, old, new) in MUTS:
    if only and name.split()[0] not in only:
        continue
    if not os.environ.get('C06_MUT_NOCLEAN'):     # a clean run first: the fall-back model driver must be that of the clean tree
        r0 = subprocess.run(['timeout', '900', './check', 'C06', '--tier', 'quick'], cwd=VERIF,
                            env=dict(os.environ, VERIF_REPO=REPO, VERIF_SEED='1'), capture_output=True, text=True)
        assert r0.returncode == 0, r0.stdout[-2000:]
    if rel == 'PATCH':
        subprocess.run(['git', '-C', REPO, 'apply', old], check=True)
    else:
        p = os.path.join(REPO, rel); s = open(p).read()
        assert s.count(old) == 1, (name, s.count(old))
        open(p, 'w').write(s.replace(old, new))
    shutil.rmtree(os.path.join(VERIF, 'replays'), ignore_errors=True)
    try:
        env = dict(os.environ, VERIF_REPO=REPO, VERIF_SEED=os.environ.get('VERIF_SEED', '1'))
        r = subprocess.run(['timeout', '900', './check', 'C06', '--tier', 'quick'], cwd=VERIF, env=env, capture_output=True, text=True)
        out = r.stdout + r.stderr
        viol = [l for l in out.split('\n') if l.startswith('VIOLATION')]
        sigs = []
        for f in sorted(glob.glob(os.path.join(VERIF, 'replays', 'C06-*.json')))[:8]:
            d = json.load(open(f)); sigs.append(d.get('signature') or str(d.get('broken_obligation')))
        broken = [l for l in out.split('\n') if 'BROKEN OBLIGATION' in l]
        res.append((name, r.returncode, len(viol), sigs, broken[:1]))
        print(name, '| exit', r.returncode, '| violations', len(viol), '|', sigs[:4], broken[:1], flush=True)
    finally:
        subprocess.run(['git', '-C', REPO, 'checkout', '--', '.'])
json.dump(res, open(os.path.join(VERIF, 'build/c06_mutation_results%s.json' % ('_' + '_'.join(only) if only else '')), 'w'), indent=1)
