#!/bin/bash
# tools/all_quick.sh [props...] : run the quick tier of every check once in /verif against /repo (writes evidence)
props=${@:-C01 C02 C03 C04 C05 C06 C07 C08 C09 C10 C11 C12 C13 C14 C15 C16 C17 C18 C19 C20}
mkdir -p build/allq
for p in $props; do
  t0=$(date +%s)
  ./check $p --tier quick > build/allq/$p.log 2>&1; rc=$?
  echo "$p exit=$rc wall=$(( $(date +%s) - t0 ))s $(grep -c '^VIOLATION' build/allq/$p.log) violations $(grep -c '^KNOWN-FINDING' build/allq/$p.log) known"
  grep '^VIOLATION' build/allq/$p.log | head -3
done
