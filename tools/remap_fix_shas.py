#!/usr/bin/env python3
"""Rewrite the commit shas of 'fixed' entries in known_findings.d/*.json to the shas the same commits
(matched by subject line) have on /repo's main branch (agents' fix branches are cherry-picked)."""
import glob, json, os, subprocess, sys
root = os.path.dirname(os.path.dirname(os.path.abspath(__file__)))
def subjects(rev):
    out = subprocess.run(['git', '-C', '/repo', 'log', '--format=%h %s', rev], capture_output=True, text=True).stdout
    return [l.split(' ', 1) for l in out.strip().split('\n') if l]
main = {s: h for h, s in subjects('main')}
allrefs = subprocess.run(['git', '-C', '/repo', 'log', '--all', '--format=%h %s'], capture_output=True, text=True).stdout
byhash = {}
for l in allrefs.strip().split('\n'):
    h, s = l.split(' ', 1); byhash[h] = s
for f in sorted(glob.glob(os.path.join(root, 'known_findings.d', '*.json'))):
    data = json.load(open(f)); changed = False
    for e in data:
        if e.get('status') == 'fixed' and e.get('commit'):
            old = e['commit'][:7]
            subj = byhash.get(old)
            if subj and subj in main and main[subj] != old:
                new = main[subj]
                e['commit'] = new
                if 'line' in e: e['line'] = e['line'].replace(old, new)
                changed = True
                print(os.path.basename(f), e['id'], old, '->', new)
            elif not subj or subj not in main:
                print('WARNING: no main commit for', e['id'], old, file=sys.stderr)
    if changed:
        json.dump(data, open(f, 'w'), indent=1)
