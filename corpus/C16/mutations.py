"""Mutation self-test of the C16 check (design.d/C16.md, table "Mutation self-test").

usage: VERIF_REPO=<katdal worktree (NOT /repo)> python3 corpus/C16/mutations.py [M1 M2 ...]
Each mutation is applied to the worktree, `./check C16` is run (expected: exit 1 with concrete replays), the worktree
is restored with `git checkout -- .` and a clean `./check C16` is run (expected: exit 0; it also rebuilds the model
driver from the good tree so that the next mutation does not fall back to a stale one).
"""
import subprocess, sys, json, os, re
VERIF = os.path.dirname(os.path.dirname(os.path.dirname(os.path.abspath(__file__))))
REPO = os.environ['VERIF_REPO']
assert os.path.realpath(REPO) != '/repo', 'use a scratch worktree of katdal'
MUTS = {
 'M13_v4_unknown_silently_ignored': ('katdal/visdatav4.py',
   '''                logger.warning("%r is not a legitimate flag type, "
                               "supported ones are %s", name, FLAG_NAMES)''', "                pass"),
 'M14_v3_unknown_raises': ('katdal/h5datav3.py',
   '''                logger.warning("%r is not a legitimate flag type for this file, "''', '''                raise ValueError("%r is not a legitimate flag type for this file, "'''),
 'M15_postproc_only_if_not_already_flagged': ('katdal/visdatav4.py',
   "self._raw_flags = DaskLazyIndexer(self._corrected.flags, stage1)",
   "self._raw_flags = DaskLazyIndexer(self._corrected.flags if (self._flags_select == 255).all() else self.source.data.flags, stage1)"),

 'M1_flags_from_stored': ('katdal/visdatav4.py',
   "self._flags = DaskLazyIndexer(self._raw_flags, transforms=flag_transforms)",
   "self._flags = DaskLazyIndexer(DaskLazyIndexer(self.source.data.flags, stage1), transforms=flag_transforms)"),
 'M2_bare_select_resets_flags': ('katdal/dataset.py',
   "        reset = 'TFB' if not kwargs else kwargs.pop('reset', 'auto')\n",
   "        if not kwargs:\n            self._selection.pop('flags', None)\n            self._flags_keep = 'all'\n        reset = 'TFB' if not kwargs else kwargs.pop('reset', 'auto')\n"),
 'M3_no_postproc_where_lost': ('katdal/applycal.py',
   "                if np.isnan(correction[i, j, k]):\n                    out[i, j, k] |= POSTPROC",
   "                if np.isnan(correction[i, j, k]) and not (out[i, j, k] & 8):\n                    out[i, j, k] |= POSTPROC"),
 'M4_weights_depend_on_flag_selection': ('katdal/visdatav4.py',
   "self._weights = DaskLazyIndexer(self._corrected.weights, stage1)",
   "self._weights = DaskLazyIndexer(self._corrected.weights if self._flags_select & 128 else self.source.data.weights, stage1)"),
 'M5_and_skipped_for_empty_mask': ('katdal/visdatav4.py',
   "if ~self._flags_select != 0:", "if ~self._flags_select != 0 and self._flags_select != 0:"),
 'M6_applycal_wrong_constant': ('katdal/applycal.py',
   "from .flags import POSTPROC", "from .flags import CAL_RFI as POSTPROC"),
 'M7_cal_never_flags': ('katdal/visdatav4.py',
   "corrected_flags = self._make_corrected(apply_flags_correction,\n                                                       self.source.data.flags)",
   "corrected_flags = self.source.data.flags"),
 'M8_raw_drops_data_lost_unless_selected': ('katdal/visdatav4.py',
   "self._raw_flags = DaskLazyIndexer(self._corrected.flags, stage1)",
   "self._raw_flags = DaskLazyIndexer(self._corrected.flags, stage1, [] if self._flags_select & 8 else [lambda f: f & np.uint8(0xF7)])"),
 'M9_vis_uncorrected_unless_postproc_selected': ('katdal/visdatav4.py',
   "self._vis = DaskLazyIndexer(self._corrected.vis, stage1)",
   "self._vis = DaskLazyIndexer(self._corrected.vis if self._flags_select & 128 else self.source.data.vis, stage1)"),
 'M10_data_lost_overwrites': ('katdal/vis_flags_weights.py',
   "flags[slices] |= DATA_LOST", "flags[slices] = DATA_LOST"),
 'M11_flags_kw_not_sticky': ('katdal/dataset.py',
   "        self._selection.update(kwargs)\n",
   "        self._selection.update(kwargs)\n        if 'flags' not in kwargs:\n            self._selection['flags'] = 'all'\n"),
 # ---- WHERE data_lost is added: lost map / _apply_data_lost (round 3)
 'P1_seeded_C16_7_shape_fast_path': ('katdal/vis_flags_weights.py',
   "        if isinstance(chunk, PlaceholderChunk):\n            if flags is orig_flags:",
   "        if isinstance(chunk, PlaceholderChunk):\n            if chunk.shape == orig_flags.shape:\n                return orig_flags | DATA_LOST\n            if flags is orig_flags:"),
 'P2_lost_dumps_flagged_on_all_channels': ('katdal/vis_flags_weights.py',
   "flags[slices] |= DATA_LOST", "flags[slices[:1]] |= DATA_LOST"),
 'P3_only_first_lost_piece_applied': ('katdal/vis_flags_weights.py',
   "            flags[slices] |= DATA_LOST\n", "            flags[slices] |= DATA_LOST\n            break\n"),
 'P4_lost_map_skips_weights_channel': ('katdal/vis_flags_weights.py',
   "            if array_name == 'flags':\n                continue\n            # Source keys",
   "            if array_name in ('flags', 'weights_channel'):\n                continue\n            # Source keys"),
 'P5_intersect_chunks_swapped': ('katdal/vis_flags_weights.py',
   "intersections = intersect_chunks(darray['flags'].chunks, chunks)", "intersections = intersect_chunks(chunks, darray['flags'].chunks)"),
 'P6_piece_marked_from_start_of_flags_chunk': ('katdal/vis_flags_weights.py',
   "                    dst_index, slices = zip(*piece)\n",
   "                    dst_index, slices = zip(*piece)\n                    slices = (slice(0, slices[0].stop),) + slices[1:]\n"),
 'P7_lost_map_only_from_vis': ('katdal/vis_flags_weights.py',
   "            if array_name == 'flags':\n                continue\n            # Source keys",
   "            if array_name != 'correlator_data':\n                continue\n            # Source keys"),
 'P8_whole_flags_chunk_when_time_extent_covered': ('katdal/vis_flags_weights.py',
   "                    lost_map[dst_index].extend([src_key, slices])",
   "                    if slices[0].stop - slices[0].start == darray['flags'].chunks[0][dst_index[0]]:\n                        slices = (slices[0],) + tuple(slice(0, n[i]) for n, i in zip(darray['flags'].chunks[1:], dst_index[1:]))\n                    lost_map[dst_index].extend([src_key, slices])"),
 # ---- first reads of one flags indexer by several threads (round 3)
 'Q1_seeded_C16_8_double_checked_locking_publishes_early': ('katdal/lazy_indexer.py', '        with self._lock:\n            if self._dataset is None:\n                if isinstance(self._orig_dataset, DaskLazyIndexer):\n                    self._orig_dataset = self._orig_dataset.dataset\n                dataset = dask_getitem(self._orig_dataset, self.keep)\n                for transform in self.transforms:\n                    dataset = transform(dataset)\n                self._dataset = dataset\n                self._orig_dataset = None\n            return self._dataset\n', '        if self._dataset is None:\n            with self._lock:\n                if self._dataset is None:\n                    if isinstance(self._orig_dataset, DaskLazyIndexer):\n                        self._orig_dataset = self._orig_dataset.dataset\n                    self._dataset = dask_getitem(self._orig_dataset, self.keep)\n                    for transform in self.transforms:\n                        self._dataset = transform(self._dataset)\n                    self._orig_dataset = None\n        return self._dataset\n'),
 'Q3_no_lock_and_graph_published_before_the_transforms': ('katdal/lazy_indexer.py', '        with self._lock:\n            if self._dataset is None:\n                if isinstance(self._orig_dataset, DaskLazyIndexer):\n                    self._orig_dataset = self._orig_dataset.dataset\n                dataset = dask_getitem(self._orig_dataset, self.keep)\n                for transform in self.transforms:\n                    dataset = transform(dataset)\n                self._dataset = dataset\n                self._orig_dataset = None\n            return self._dataset\n', '        if self._dataset is None:\n            if isinstance(self._orig_dataset, DaskLazyIndexer):\n                self._orig_dataset = self._orig_dataset.dataset\n            self._dataset = dask_getitem(self._orig_dataset, self.keep)\n            for transform in self.transforms:\n                self._dataset = transform(self._dataset)\n            self._orig_dataset = None\n        return self._dataset\n'),
 'Q4_no_lock_local_accumulation_BENIGN_RACE': ('katdal/lazy_indexer.py', '        with self._lock:\n            if self._dataset is None:\n                if isinstance(self._orig_dataset, DaskLazyIndexer):\n                    self._orig_dataset = self._orig_dataset.dataset\n                dataset = dask_getitem(self._orig_dataset, self.keep)\n                for transform in self.transforms:\n                    dataset = transform(dataset)\n                self._dataset = dataset\n                self._orig_dataset = None\n            return self._dataset\n', '        if self._dataset is None:\n            orig = self._orig_dataset\n            if isinstance(orig, DaskLazyIndexer):\n                orig = orig.dataset\n            dataset = dask_getitem(orig, self.keep)\n            for transform in self.transforms:\n                dataset = transform(dataset)\n            self._dataset = dataset\n        return self._dataset\n'),
 # ---- selection plumbing / concatenated data sets (round 2)
 'N1_seeded_C16_3_truthy_guard': ('katdal/dataset.py',
   "        if weights_keep is not None:\n            self._weights_keep = weights_keep\n        if flags_keep is not None:\n",
   "        if weights_keep:\n            self._weights_keep = weights_keep\n        if flags_keep:\n"),
 'N2_concat_members_never_get_flags': ('katdal/concatdata.py',
   "                        weights_keep=self._weights_keep,\n                        flags_keep=self._flags_keep)",
   "                        weights_keep=self._weights_keep)"),
 'N3_concat_only_first_member_gets_flags': ('katdal/concatdata.py',
   "                        flags_keep=self._flags_keep)",
   "                        flags_keep=self._flags_keep if n == 0 else None)"),
 'N4_concat_caches_its_flags_indexer': ('katdal/concatdata.py',
   "        return ConcatenatedLazyIndexer([d.flags for d in self.datasets])",
   "        if not hasattr(self, '_cached_flags'):\n            self._cached_flags = ConcatenatedLazyIndexer([d.flags for d in self.datasets])\n        return self._cached_flags"),
 'N12_concat_members_get_the_parameter_EQUIVALENT': ('katdal/concatdata.py',
   "                        flags_keep=self._flags_keep)", "                        flags_keep=flags_keep)"),
 'N5_select_ignores_empty_flag_selection': ('katdal/dataset.py',
   "            elif k == 'flags':\n                self._flags_keep = v",
   "            elif k == 'flags' and len(v):\n                self._flags_keep = v"),
 'N6_v3_getter_without_flipud': ('katdal/h5datav3.py',
   "        selection = np.flipud(np.unpackbits(self._flags_select))\n        assert len(known_flags) == len(selection), \\\n            f'Expected {len(selection)} flag types in file, got {self._flags_description}'\n        return [name",
   "        selection = np.unpackbits(self._flags_select)\n        assert len(known_flags) == len(selection), \\\n            f'Expected {len(selection)} flag types in file, got {self._flags_description}'\n        return [name"),
 'N7_concat_members_never_get_weights': ('katdal/concatdata.py',
   "                        weights_keep=self._weights_keep,\n", ""),
 'N8_v4_set_keep_forgets_flags_keep': ('katdal/visdatav4.py',
   "        super()._set_keep(time_keep, freq_keep, corrprod_keep, weights_keep, flags_keep)\n        if not self.source.data:",
   "        super()._set_keep(time_keep, freq_keep, corrprod_keep, weights_keep)\n        if not self.source.data:"),
 'N9_concat_passes_falsy_as_none': ('katdal/concatdata.py',
   "                        flags_keep=self._flags_keep)",
   "                        flags_keep=self._flags_keep or None)"),
 'N10_empty_string_means_all': ('katdal/dataset.py',
   "        if not names:\n            return []\n        elif names in groups:",
   "        if names in groups or (not names and 'all' in groups):\n            return list(groups[names or 'all'])\n        elif not names:\n            return []\n        elif names in groups:"),
 'N11_v2_member_uses_v3_bit_order': ('katdal/h5datav2.py',
   "        flagmask = np.packbits(selection)\n", "        flagmask = np.packbits(np.flipud(selection))\n"),
 'M12_seeded_variant_hidden_in_setter': ('katdal/visdatav4.py',
   "        self._flags_select = flagmask\n",
   "        self._flags_select = flagmask\n        if getattr(self, '_corrections', None) is not None:\n            if not hasattr(self, '_cal_flags'):\n                self._cal_flags = self._corrected.flags\n            self._corrected.flags = self._cal_flags if flagmask & 128 else self.source.data.flags\n"),
 # round 4: argument parsing, marking loop, flag tables of the file
 'R1_v3_handler_around_whole_loop (seeded C16-9)': ('katdal/h5datav3.py',
   '        for name in names:\n            try:\n                selection[known_flags.index(name)] = 1\n            except ValueError:\n                logger.warning("%r is not a legitimate flag type for this file, "\n                               "supported ones are %s", name, known_flags)\n',
   '        try:\n            for name in names:\n                selection[known_flags.index(name)] = 1\n        except ValueError:\n            logger.warning("%r is not a legitimate flag type for this file, "\n                           "supported ones are %s", name, known_flags)\n'),
 'R2_v2_handler_around_whole_loop': ('katdal/h5datav2.py',
   '        for name in names:\n            try:\n                selection[known_flags.index(name)] = 1\n            except ValueError:\n                logger.warning("%r is not a legitimate flag type for this file, "\n                               "supported ones are %s", name, known_flags)\n',
   '        try:\n            for name in names:\n                selection[known_flags.index(name)] = 1\n        except ValueError:\n            logger.warning("%r is not a legitimate flag type for this file, "\n                           "supported ones are %s", name, known_flags)\n'),
 'R3_v4_break_after_unknown_name': ('katdal/visdatav4.py',
   '            except ValueError:\n                logger.warning("%r is not a legitimate flag type, "\n                               "supported ones are %s", name, FLAG_NAMES)\n',
   '            except ValueError:\n                logger.warning("%r is not a legitimate flag type, "\n                               "supported ones are %s", name, FLAG_NAMES)\n                break\n'),
 'R4_split_with_regex_ends_not_stripped (seeded C16-10)': ('katdal/dataset.py',
   "            return [name.strip() for name in names.split(',')]",
   "            return __import__('re').split(r'\\s*,\\s*', names)"),
 'R5_fields_only_lstripped': ('katdal/dataset.py',
   "            return [name.strip() for name in names.split(',')]",
   "            return [name.lstrip() for name in names.split(',')]"),
 'R6_split_on_comma_blank': ('katdal/dataset.py',
   "            return [name.strip() for name in names.split(',')]",
   "            return [name.strip() for name in names.split(', ')]"),
 'R7_v2_setter_reads_default_names_not_the_file_table': ('katdal/h5datav2.py',
   '        names = _selection_to_list(names, all=known_flags)\n        # Create boolean list for desired flags',
   '        known_flags = list(FLAG_NAMES)\n        names = _selection_to_list(names, all=known_flags)\n        # Create boolean list for desired flags'),
 'R8_v3_getter_names_from_default_table': ('katdal/h5datav3.py',
   '        return [name for name, bit in zip(known_flags, selection) if bit]',
   '        return [name for name, bit in zip(FLAG_NAMES, selection) if bit]'),
 'R9_v2_table_not_decoded (C16-F1 on v2)': ('katdal/h5datav2.py',
   "        self._flags_description = to_str(markup_group['flags_description'][:]) \\\n",
   "        self._flags_description = markup_group['flags_description'][:] \\\n"),
 'R10_strip_only_blanks': ('katdal/dataset.py',
   "            return [name.strip() for name in names.split(',')]",
   "            return [name.strip(' ') for name in names.split(',')]"),
 'R11_empty_fields_dropped_silently': ('katdal/dataset.py',
   "            return [name.strip() for name in names.split(',')]",
   "            return [name.strip() for name in names.split(',') if name.strip()]"),
 'R12_padded_group_name_accepted_but_case_folded': ('katdal/dataset.py',
   '        elif names in groups:\n            return list(groups[names])',
   '        elif names.lower() in groups:\n            return list(groups[names.lower()])'),
}
only = sys.argv[1:]
env = dict(os.environ, VERIF_REPO=REPO)
for name, (rel, old, new) in MUTS.items():
    if only and not any(name.startswith(o) for o in only):
        continue
    p = os.path.join(REPO, rel)
    src = open(p).read()
    assert src.count(old) == 1, (name, src.count(old))
    open(p, 'w').write(src.replace(old, new))
    try:
        r = subprocess.run(['./check', 'C16'], cwd=VERIF, env=env, capture_output=True, text=True)
        out = r.stdout + r.stderr
        sigs = []
        for m in re.finditer(r'VIOLATION property=C16 replay=(\S+)( no-failing-input-found)?', out):
            d = json.load(open(m.group(1)))
            sigs.append(d['signature'] + (' [NO INPUT]' if m.group(2) else ''))
        broken = [l[:150] for l in out.splitlines() if l.startswith('BROKEN')]
        print('%s: exit=%d\n   broken=%s\n   sigs(%d)=%s' % (name, r.returncode, broken, len(sigs), sigs[:4]), flush=True)
    finally:
        subprocess.run(['git', 'checkout', '--', '.'], cwd=REPO)
        if not os.environ.get('C16_MUT_NOCLEAN'):
            r = subprocess.run(['./check', 'C16'], cwd=VERIF, env=env, capture_output=True, text=True)
            print('   clean after: exit=%d' % r.returncode)
