"""Common pipeline of every check (DESIGN.md section 2).

translate -> proof step -> extraction -> known-finding corpus -> correspondence
-> verdict -> evidence.  Nothing here is specific to a property.
"""
import fcntl
import hashlib
import json
import os
import random
import re
import subprocess
import sys
import time
import traceback

VERIF = os.path.dirname(os.path.dirname(os.path.dirname(os.path.abspath(__file__))))
REPO = os.environ.get('VERIF_REPO', '/repo')
COQ = os.path.join(VERIF, 'coq')
BUILD = os.path.join(VERIF, 'build')
EXTRACT_DIR = os.path.join(BUILD, 'extract')
REPLAYS = os.path.join(VERIF, 'replays')
EVIDENCE = os.path.join(VERIF, 'evidence')
NPROC = os.cpu_count() or 4

FORBIDDEN = re.compile(r'\b(Admitted|admit|Axiom|Axioms|Parameter|Parameters|Conjecture|Conjectures|'
                       r'Hypothesis|Variable|Variables|Hypotheses|Admit Obligations|bypass_check)\b|Unset Guard|'
                       r'Unset Positivity|Unset Universe|type-in-type|impredicative-set')


def log(*a):
    print(*a, file=sys.stderr, flush=True)


def sh(cmd, timeout=None, cwd=None, env=None, input=None):
    p = subprocess.run(cmd, shell=isinstance(cmd, str), cwd=cwd, env=env, input=input,
                       stdout=subprocess.PIPE, stderr=subprocess.STDOUT, timeout=timeout, text=True)
    return p.returncode, p.stdout


class BuildLock:
    def __enter__(self):
        os.makedirs(BUILD, exist_ok=True)
        self.f = open(os.path.join(BUILD, '.lock'), 'w')
        fcntl.flock(self.f, fcntl.LOCK_EX)
        return self

    def __exit__(self, *a):
        fcntl.flock(self.f, fcntl.LOCK_UN)
        self.f.close()


# --------------------------------------------------------------------------
# s-expressions

def to_sx(x):
    if isinstance(x, bool):
        return '1' if x else '0'
    if isinstance(x, int):
        return str(x)
    if x is None:
        return '()'
    if hasattr(x, 'tolist') and not isinstance(x, (list, tuple)):
        return to_sx(x.tolist())
    return '(' + ' '.join(to_sx(y) for y in x) + ')'


def parse_sx(s):
    toks = s.replace('(', ' ( ').replace(')', ' ) ').split()
    pos = 0

    def item():
        nonlocal pos
        t = toks[pos]
        pos += 1
        if t == '(':
            out = []
            while toks[pos] != ')':
                out.append(item())
            pos += 1
            return out
        return int(t)
    return item()


SX_ERR = [-999]

# --------------------------------------------------------------------------
# Coq side


def coq_sources():
    out = []
    for d in ('Base', 'Gen', 'Model', 'Proofs', 'Props'):
        p = os.path.join(COQ, d)
        os.makedirs(p, exist_ok=True)
        for f in sorted(os.listdir(p)):
            if f.endswith('.v'):
                out.append(os.path.join(d, f))
    return out


def regenerate(prop=None):
    """Run the translator; returns (ok, message).  Generated.v is only rewritten if changed.
    A failing item only breaks the tie of the property that owns it (items/cXX.py -> CXX; the flag constants in
    translate.py -> C16); properties that merely use its definitions see a proof/compile failure instead."""
    from vh import translate
    failures = []
    text = translate.generate(REPO, failures)
    os.makedirs(os.path.join(COQ, 'Gen'), exist_ok=True)
    path = os.path.join(COQ, 'Gen', 'Generated.v')
    old = open(path).read() if os.path.exists(path) else None
    if old != text:
        with open(path, 'w') as f:
            f.write(text)
    mine = [m for (owner, m) in failures
            if prop is None or owner == prop.lower() or (owner == 'translate' and prop.upper() == 'C16')]
    if mine:
        return False, 'translator:' + '; '.join(mine)
    return True, ''


def ensure_makefile():
    srcs = coq_sources()
    proj = '-Q . KV\n' + '\n'.join(srcs) + '\n'
    pp = os.path.join(COQ, '_CoqProject')
    old = open(pp).read() if os.path.exists(pp) else None
    if old != proj or not os.path.exists(os.path.join(COQ, 'Makefile')):
        with open(pp, 'w') as f:
            f.write(proj)
        rc, out = sh('coq_makefile -f _CoqProject -o Makefile', cwd=COQ, timeout=120)
        if rc:
            raise RuntimeError('coq_makefile failed: ' + out)


def make(target=None, timeout=3000, clean=False):
    ensure_makefile()
    if clean:
        sh('make clean', cwd=COQ, timeout=300)
        ensure_makefile()
    cmd = 'timeout %d make -j%d %s' % (timeout, NPROC, target or '')
    rc, out = sh(cmd, cwd=COQ, timeout=timeout + 30)
    return rc, out


def model_hash():
    h = hashlib.sha256()
    for d in ('Base', 'Gen', 'Model', 'Extract'):
        p = os.path.join(COQ, d)
        for f in sorted(os.listdir(p)):
            if f.endswith('.v') or f.endswith('.ml'):
                h.update(f.encode())
                h.update(open(os.path.join(p, f), 'rb').read())
    return h.hexdigest()


def _dispatch_text(exclude=(), prefix='KV'):
    mods = []
    left_out = {}
    for f in sorted(os.listdir(os.path.join(COQ, 'Model'))):
        if f.endswith('.v'):
            txt = open(os.path.join(COQ, 'Model', f)).read()
            for m in re.finditer(r'^Definition wire_(\d+)\b', txt, re.M):
                if f[:-2] in exclude:
                    left_out[int(m.group(1))] = f[:-2]
                else:
                    mods.append((f[:-2], int(m.group(1))))
    lines = ['(* GENERATED by harness/vh/core.py:gen_dispatch *)',
             'From Coq Require Import ZArith List.', 'Import ListNotations.', 'Open Scope Z_scope.',
             'From KV Require Import Base.Sx.']
    for mod in sorted(set(m for m, _ in mods)):
        lines.append('From KV Require Model.%s.' % mod)
    lines.append('Definition run (x : sx) : sx :=\n  match x with')
    for mod, n in mods:
        lines.append('  | L [I %d; p] => Model.%s.wire_%d p' % (n, mod, n))
    lines.append('  | _ => sx_err\n  end.')
    return '\n'.join(lines) + '\n', left_out


def gen_dispatch():
    text, _ = _dispatch_text()
    path = os.path.join(COQ, 'Extract', 'Dispatch.v')
    if not os.path.exists(path) or open(path).read() != text:
        with open(path, 'w') as f:
            f.write(text)


# the model binary used by run_model: the full driver, or a partial one (see build_model)
DRIVER = {'path': os.path.join(EXTRACT_DIR, 'driver'), 'left_out': {}}


def _ocaml_driver(d):
    sh('cp %s/Extract/driver.ml %s/driver.ml' % (COQ, d))
    return sh('ocamlfind ocamlopt -O3 -w -a model.mli model.ml driver.ml -o driver', cwd=d, timeout=600)


def build_model(cone_models=None):
    """Compile Model/*.v (not the proofs), extract to OCaml and build the model driver.

    Returns (ok, message, failed); failed = Model modules that do not compile on the current tree (typically because a
    translator item they read is missing from Generated.v; '*' = the tool chain / shared files).
      * nothing failed: the full driver build/extract/driver is (re)built and used;
      * a module in `cone_models` (the cone of the property being checked) failed, or cone_models is None: ok=False and
        the LAST GOOD full driver is left untouched - the caller reports the broken obligation and uses that driver
        for the failing-input search;
      * only modules outside the cone failed: a partial driver without them is built under build/extract/partial and
        used, so that a broken tie of one property raises no alarm for another; calling a left-out wire raises."""
    os.makedirs(EXTRACT_DIR, exist_ok=True)
    DRIVER['path'] = os.path.join(EXTRACT_DIR, 'driver')
    DRIVER['left_out'] = {}
    failed = set()
    ensure_makefile()
    # always make sure the model .vo files exist (a thorough-tier clean removes them); no-op when up to date
    targets = ' '.join(s[:-2] + '.vo' for s in coq_sources() if s.startswith(('Base/', 'Gen/', 'Model/')))
    rc, out = sh('timeout 1500 make -k -j%d %s' % (NPROC, targets), cwd=COQ, timeout=1600)
    if rc:
        first_error = out[-3000:]
        rc2, out2 = sh('timeout 300 make -k -n %s' % targets, cwd=COQ, timeout=330)   # what is still out of date
        stale = set(re.findall(r'\b((?:Base|Gen|Model)/[\w\']+)\.v\b', out2))
        if any(not m.startswith('Model/') for m in stale) or not stale:
            return False, 'model does not compile:\n' + first_error, set(['*'])
        failed = set(m.split('/', 1)[1] for m in stale)
        msg = 'model files that do not compile: %s\n%s' % (', '.join(sorted(failed)), first_error)
        if cone_models is None or (failed & set(cone_models)):
            return False, msg, failed
        # partial driver for a property whose cone is intact
        d = os.path.join(EXTRACT_DIR, 'partial')
        os.makedirs(d, exist_ok=True)
        text, left_out = _dispatch_text(exclude=failed)
        hh = model_hash() + '|' + ','.join(sorted(failed))
        stamp = os.path.join(d, 'stamp')
        if not (os.path.exists(stamp) and open(stamp).read() == hh and os.path.exists(os.path.join(d, 'driver'))):
            with open(os.path.join(d, 'DispatchP.v'), 'w') as f:
                f.write(text)
            with open(os.path.join(d, 'ExtractP.v'), 'w') as f:
                f.write('From KVP Require Import DispatchP.\nRequire Import ExtrOcamlBasic.\nExtraction Language OCaml.\n'
                        'Extraction "model.ml" run.\n')
            rc, out = sh('timeout 600 coqc -Q %s KV -Q . KVP DispatchP.v && timeout 600 coqc -Q %s KV -Q . KVP ExtractP.v'
                         % (COQ, COQ), cwd=d, timeout=1300)
            if rc:
                return False, 'partial dispatch / extraction failed:\n' + out[-3000:], failed
            rc, out = _ocaml_driver(d)
            if rc:
                return False, 'ocaml build of the partial driver failed:\n' + out[-3000:], failed
            with open(stamp, 'w') as f:
                f.write(hh)
        DRIVER['path'] = os.path.join(d, 'driver')
        DRIVER['left_out'] = {str(k): v for k, v in left_out.items()}
        return True, msg, failed
    gen_dispatch()
    stamp = os.path.join(EXTRACT_DIR, 'stamp')
    hh = model_hash()
    drv = os.path.join(EXTRACT_DIR, 'driver')
    if os.path.exists(stamp) and open(stamp).read() == hh and os.path.exists(drv) \
            and os.path.exists(os.path.join(COQ, 'Extract', 'Dispatch.vo')):
        return True, '', failed
    rc, out = sh('timeout 600 coqc -Q . KV Extract/Dispatch.v', cwd=COQ, timeout=700)
    if rc:
        return False, 'dispatch does not compile:\n' + out[-3000:], set(['*'])
    rc, out = sh('timeout 600 coqc -Q %s KV -o %s/Extract.vo %s/Extract/Extract.v'
                 % (COQ, EXTRACT_DIR, COQ), cwd=EXTRACT_DIR, timeout=700)
    if rc:
        return False, 'extraction failed:\n' + out[-3000:], set(['*'])
    rc, out = _ocaml_driver(EXTRACT_DIR)
    if rc:
        return False, 'ocaml build failed:\n' + out[-3000:], set(['*'])
    with open(stamp, 'w') as f:
        f.write(hh)
    return True, '', failed


def run_model(cases, timeout=3000):
    """cases: list of python nested lists [fn_id, payload]; returns list of parsed outputs."""
    if not cases:
        return []
    drv = DRIVER['path']
    if DRIVER['left_out']:
        for c in cases:
            if isinstance(c, (list, tuple)) and c and str(c[0]) in DRIVER['left_out']:
                raise RuntimeError('wire %s belongs to Model/%s.v, which does not compile on this tree'
                                   % (c[0], DRIVER['left_out'][str(c[0])]))
    text = '\n'.join(to_sx(c) for c in cases) + '\n'
    env = dict(os.environ, OCAMLRUNPARAM='l=8G')
    p = subprocess.run(['bash', '-c', 'ulimit -s unlimited 2>/dev/null; exec %s' % drv], input=text,
                       stdout=subprocess.PIPE, stderr=subprocess.PIPE, text=True, timeout=timeout, env=env)
    if p.returncode:
        raise RuntimeError('model driver failed rc=%s: %s' % (p.returncode, p.stderr[-2000:]))
    lines = p.stdout.split('\n')
    if lines and lines[-1] == '':
        lines.pop()
    if len(lines) != len(cases):
        raise RuntimeError('model driver returned %d lines for %d cases' % (len(lines), len(cases)))
    return [parse_sx(l) for l in lines]


def run_model_in_coq(cases, tag, timeout=900):
    """Cross-check of extraction: evaluate the same cases with vm_compute inside Coq.
    Returns list of parsed outputs (same format)."""
    if not cases:
        return []
    d = os.path.join(BUILD, 'incoq')
    os.makedirs(d, exist_ok=True)
    path = os.path.join(d, 'cases_%s.v' % tag)

    def coq_sx(x):
        if isinstance(x, bool):
            x = int(x)
        if isinstance(x, int):
            return '(I (%d))' % x
        return '(L [' + '; '.join(coq_sx(y) for y in x) + '])'
    with open(path, 'w') as f:
        f.write('From Coq Require Import ZArith List.\nImport ListNotations.\nOpen Scope Z_scope.\n'
                'From KV Require Import Base.Sx Extract.Dispatch.\n')
        f.write('Definition cases : list sx := [\n' + ';\n'.join(coq_sx(c) for c in cases) + '].\n')
        f.write('Fixpoint pr (x : sx) : list Z := match x with I z => [0; z] | L l => [1] ++ flat_map pr l ++ [2] end.\n')
        f.write('Definition outs := map (fun c => pr (run c)) cases.\n')
        f.write('Eval vm_compute in outs.\n')
    rc, out = sh('timeout %d coqc -Q %s KV -o %s/cases_%s.vo %s' % (timeout, COQ, d, tag, path), cwd=d, timeout=timeout + 30)
    if rc:
        raise RuntimeError('in-Coq evaluation failed: ' + out[-2000:])
    m = re.search(r'=\s*(\[.*\])\s*:\s*list \(list Z\)', out, re.S)
    if not m:
        raise RuntimeError('cannot parse coqc output: ' + out[-500:])
    body = m.group(1).replace('%Z', '').replace(';', ',').replace('\n', ' ')
    flat = json.loads(body)
    res = []
    for toks in flat:
        pos = 0

        def item():
            nonlocal pos
            t = toks[pos]
            pos += 1
            if t == 0:
                v = toks[pos]
                pos += 1
                return v
            outl = []
            while toks[pos] != 2:
                outl.append(item())
            pos += 1
            return outl
        res.append(item())
    return res


def proof_step(prop, tier):
    """Builds Props/<prop>.vo and its dependencies, then re-runs coqc on the Props file to
    capture Print Assumptions.  Returns dict."""
    res = {'ok': True, 'failed': None, 'message': '', 'assumptions': [], 'obligations': 0,
           'theorems': [], 'checker_cmd': ''}
    # gate
    bad = []
    for s in coq_sources() + ['Extract/Extract.v', 'Extract/Dispatch.v']:
        p = os.path.join(COQ, s)
        if not os.path.exists(p):
            continue
        txt = re.sub(r'\(\*.*?\*\)', '', open(p).read(), flags=re.S)
        for i, line in enumerate(txt.split('\n')):
            if FORBIDDEN.search(line) and 'Context' not in line:
                # Variables/Hypotheses are allowed only inside Sections: checked by Print Assumptions too
                if re.search(r'\b(Variable|Variables|Hypothesis|Hypotheses)\b', line) and _in_section(txt, i):
                    continue
                bad.append('%s:%d:%s' % (s, i + 1, line.strip()))
    if bad:
        res.update(ok=False, failed='gate', message='forbidden constructs: ' + '; '.join(bad[:5]))
        return res
    target = 'Props/%s.vo' % prop
    t0 = time.time()
    rc, out = make(target, clean=(tier == 'thorough' and os.environ.get('VERIF_NO_CLEAN') != '1'))
    res['checker_cmd'] = 'coq_makefile -f _CoqProject -o Makefile && make -j%d %s && coqc -Q . KV Props/%s.v' % (NPROC, target, prop)
    if rc:
        m = re.search(r'File "\./([^"]+)", line (\d+)', out)
        res.update(ok=False, failed=(m.group(1) if m else 'make'), message=out[-2500:])
        return res
    os.makedirs(os.path.join(BUILD, 'recheck'), exist_ok=True)
    rc, out = sh('timeout 900 coqc -Q . KV -o %s/recheck/%s.vo Props/%s.v' % (BUILD, prop, prop), cwd=COQ, timeout=930)
    if rc:
        res.update(ok=False, failed='Props/%s.v' % prop, message=out[-2500:])
        return res
    res['print_assumptions'] = out
    axioms = set()
    closed = 0
    for blk in re.split(r'\n(?=Closed under|Axioms:)', '\n' + out):
        if blk.startswith('Closed under'):
            closed += 1
        elif blk.startswith('Axioms:'):
            for m in re.finditer(r'^([A-Za-z_][\w\.\']*)\s*:', blk, re.M):
                if m.group(1) != 'Axioms':
                    axioms.add(m.group(1))
    res['closed'] = closed
    res['assumptions'] = sorted(axioms)
    # count statements in the dependency cone of this property
    deps = dep_cone(prop)
    n = 0
    names = []
    for s in deps:
        txt = re.sub(r'\(\*.*?\*\)', '', open(os.path.join(COQ, s)).read(), flags=re.S)
        found = re.findall(r'^\s*(?:Theorem|Lemma|Example|Corollary|Fact|Remark|Proposition)\s+([\w\']+)', txt, re.M)
        n += len(found)
        if s.startswith('Props/'):
            names += found
    res['obligations'] = n
    res['theorems'] = names
    # independent pass: Print Assumptions for EVERY theorem of the Props file, from the compiled library (does not
    # rely on the Print Assumptions commands written in the file itself)
    try:
        pa = print_assumptions_each(prop, names)
        res['pa_each'] = pa
        res['assumptions'] = sorted(set(res['assumptions']) | set(pa['axioms']))
    except Exception as e:      # never fatal: the file's own Print Assumptions output above stays authoritative
        res['pa_each'] = {'error': str(e)[-300:]}
    res['proof_wall_s'] = round(time.time() - t0, 1)
    if tier == 'thorough' and os.environ.get('VERIF_NO_COQCHK') != '1':
        rc, out = sh('timeout 3000 coqchk -silent -o -Q . KV KV.Props.%s' % prop, cwd=COQ, timeout=3100)
        res['coqchk'] = out[-3000:]
        if rc:
            res.update(ok=False, failed='coqchk', message=out[-2500:])
    return res


def print_assumptions_each(prop, names, nchunks=8):
    """Print Assumptions <name> for every theorem name of Props/<prop>.v, in parallel chunks, against the compiled
    Props/<prop>.vo.  Returns {'theorems': n, 'closed': k, 'axioms': [...]}."""
    d = os.path.join(BUILD, 'recheck', 'pa_' + prop)
    os.makedirs(d, exist_ok=True)
    for f in os.listdir(d):
        os.remove(os.path.join(d, f))
    chunks = [names[i::nchunks] for i in range(nchunks) if names[i::nchunks]]
    procs = []
    for i, ch in enumerate(chunks):
        path = os.path.join(d, 'PA_%s_%d.v' % (prop, i))
        with open(path, 'w') as f:
            f.write('From KV Require Import Props.%s.\n' % prop + ''.join('Print Assumptions %s.\n' % t for t in ch))
        procs.append(subprocess.Popen('timeout 600 coqc -Q %s KV %s' % (COQ, path), shell=True, cwd=d,
                                      stdout=subprocess.PIPE, stderr=subprocess.STDOUT, text=True))
    closed, axioms = 0, set()
    for pr in procs:
        out = pr.communicate()[0]
        if pr.returncode:
            raise RuntimeError('Print Assumptions pass failed: ' + out[-400:])
        for blk in re.split(r'\n(?=Closed under|Axioms:)', '\n' + out):
            if blk.startswith('Closed under'):
                closed += 1
            elif blk.startswith('Axioms:'):
                for m in re.finditer(r'^([A-Za-z_][\w\.\']*)\s*:', blk, re.M):
                    if m.group(1) != 'Axioms':
                        axioms.add(m.group(1))
    return {'theorems': len(names), 'closed': closed, 'axioms': sorted(axioms)}


def _in_section(txt, lineno):
    depth = 0
    for i, line in enumerate(txt.split('\n')):
        if i >= lineno:
            break
        if re.match(r'\s*Section\s+\w+', line):
            depth += 1
        elif re.match(r'\s*End\s+\w+', line) and depth > 0:
            depth -= 1
    return depth > 0


def dep_cone(prop):
    """Source files (relative to coq/) that Props/<prop>.v transitively requires."""
    seen = []
    todo = ['Props/%s.v' % prop]
    while todo:
        s = todo.pop()
        if s in seen or not os.path.exists(os.path.join(COQ, s)):
            continue
        seen.append(s)
        txt = open(os.path.join(COQ, s)).read()
        for m in re.finditer(r'From KV Require (?:Import|Export)?\s*(.*?)\.\s', txt, re.S):
            for mod in m.group(1).split():
                todo.append(mod.replace('.', '/') + '.v')
    return seen


# --------------------------------------------------------------------------
# Known findings

def load_findings(prop):
    p = os.path.join(VERIF, 'known_findings.json')
    if not os.path.exists(p):
        return []
    data = json.load(open(p))
    return [f for f in data.get('findings', []) if f['property'] == prop]


# --------------------------------------------------------------------------
# Check context handed to the property module

class Ctx:
    def __init__(self, prop, tier, seed):
        self.prop = prop
        self.tier = tier
        self.seed = seed
        self.rng = random.Random(seed)
        self.t0 = time.time()
        self.evaluations = 0
        self.distinct = set()
        self.samples = []
        self.dist = {}
        self.disagreements = []     # dicts: signature, case, impl, model, spec, what
        self.traces_validated = 0
        self.extra = {}
        self.rule = ''
        self.exhaustive = False
        self.findings = load_findings(prop)
        self.known_seen = {}
        self.proof = None
        self.model_ok = True
        self.searching = False
        self.assumptions = []

    # statistics -----------------------------------------------------------
    def count(self, key, n=1):
        self.dist[key] = self.dist.get(key, 0) + n

    def note_case(self, canon, nontrivial=True, sample=None):
        self.evaluations += 1
        if nontrivial:
            self.distinct.add(hashlib.md5(repr(canon).encode()).hexdigest())
        if sample is not None and len(self.samples) < 6:
            self.samples.append(sample)

    def scale(self, quick, thorough):
        n = thorough if self.tier == 'thorough' else quick
        f = float(os.environ.get('VERIF_SCALE', '1'))
        return max(1, int(n * f))

    # model ----------------------------------------------------------------
    def model(self, cases):
        return run_model(cases)

    # verdicts -------------------------------------------------------------
    def disagree(self, signature, case, impl, model, what, spec=None, kind='property'):
        """Record an in-domain disagreement.  kind: 'property' (impl vs spec) or 'tie' (impl vs model)."""
        self.disagreements.append(dict(signature=signature, case=case, impl=impl, model=model,
                                       spec=spec, what=what, kind=kind))

    def match_finding(self, signature):
        for f in self.findings:
            if f.get('status') == 'open' and f['signature'] == signature:
                return f
        return None


def write_replay(ctx, d, n, obligation=None):
    os.makedirs(REPLAYS, exist_ok=True)
    path = os.path.join(REPLAYS, '%s-%d-%d.json' % (ctx.prop, ctx.seed, n))
    doc = dict(property=ctx.prop, seed=ctx.seed, tier=ctx.tier)
    doc.update(d)
    if obligation:
        doc['broken_obligation'] = obligation
    with open(path, 'w') as f:
        json.dump(doc, f, indent=1, default=_json_default)
    return path


def _json_default(o):
    if hasattr(o, 'tolist'):
        return o.tolist()
    if isinstance(o, (set, frozenset)):
        return sorted(o)
    if isinstance(o, bytes):
        return o.decode('latin1')
    return repr(o)


def write_evidence(ctx, violations, level='proof', extra_assumptions=()):
    os.makedirs(EVIDENCE, exist_ok=True)
    pr = ctx.proof or {}
    ob = int(pr.get('obligations', 0))
    discharged = ob if pr.get('ok') else 0
    tb = [
        'Coq 8.16.1 kernel (coqc; vm_compute used for finite sweeps, native_compute never)',
        'Print Assumptions, run in this check: %s' % (
            ('axioms ' + ', '.join(pr.get('assumptions'))) if pr.get('assumptions') else
            ('separately for each of the %d theorems / examples of Props/%s.v: %d closed under the global context'
             % (pr['pa_each']['theorems'], ctx.prop, pr['pa_each']['closed'])) if (pr.get('pa_each') or {}).get('theorems') else
            ('all %d Print Assumptions commands of the property file closed under the global context' % pr.get('closed', 0))),
        'translator harness/vh/translate.py (Python ast, fail-closed) regenerating coq/Gen/Generated.v from /repo',
        'extraction (ExtrOcamlBasic directives only, Z kept as Coq datatype) + coq/Extract/driver.ml + OCaml 4.13.1',
        'behavioural correspondence harness (generators, canonicalisers, fixtures) in /verif/harness',
    ] + list(ctx.assumptions)
    cov = dict(
        obligations=ob, discharged=discharged,
        checker_cmd=pr.get('checker_cmd', 'make'),
        trusted_base=tb,
        theorems=pr.get('theorems', []),
        evaluations=ctx.evaluations,
        distinct_nontrivial=len(ctx.distinct),
        rule=ctx.rule,
        samples=ctx.samples[:6] or ['(no correspondence cases in this run)'],
        traces_validated_against_impl=ctx.traces_validated,
        input_distribution=ctx.dist,
        exhaustive=bool(ctx.exhaustive),
        proof_wall_s=pr.get('proof_wall_s'),
        known_findings_reproduced=sorted(ctx.known_seen),
    )
    if pr.get('coqchk'):
        cov['coqchk_tail'] = pr['coqchk'][-1500:]
    cov.update(ctx.extra)
    doc = dict(property_id=ctx.prop, tier=ctx.tier, seed=ctx.seed, level=level, coverage=cov,
               assumptions=list(extra_assumptions) + list(ctx.assumptions),
               wall_s=round(time.time() - ctx.t0, 2), violations=violations)
    with open(os.path.join(EVIDENCE, '%s.json' % ctx.prop), 'w') as f:
        json.dump(doc, f, indent=1, default=_json_default)


def run_check(prop, tier, seed, replay=None):
    import importlib
    ctx = Ctx(prop, tier, seed)
    mod = importlib.import_module('props.%s' % prop.lower())
    ctx.rule = getattr(mod, 'RULE', '')
    ctx.assumptions = list(getattr(mod, 'ASSUMPTIONS', []))
    broken = []   # broken obligations (name, message)
    with BuildLock():
        ok, msg = regenerate(prop)
        if not ok:
            broken.append((msg, msg))
        pr = proof_step(prop, tier)
        ctx.proof = pr
        if ok and not pr['ok']:
            broken.append(('proof:%s' % pr['failed'], pr['message']))
        cone_models = set(s.split('/', 1)[1][:-2] for s in dep_cone(prop) if s.startswith('Model/'))
        cone_models |= set(getattr(mod, 'MODEL_FILES', ()))
        mok, mmsg, mfailed = build_model(cone_models)
        if not mok:
            # the model of THIS property (or the tool chain) is broken; model files of other properties that do not
            # compile are left out of the driver and are for their own checks to report
            broken.append(('model-build', mmsg))
            # fall back to the last driver built from a good tree for the failing-input search
            mok = os.path.exists(os.path.join(EXTRACT_DIR, 'driver'))
        elif mfailed:
            log('NOTE: model files outside the cone of %s do not compile and are left out of the driver: %s'
                % (prop, ', '.join(sorted(mfailed))))
        ctx.model_ok = mok
    if broken:
        ctx.searching = True
        log('BROKEN OBLIGATION(S): ' + '; '.join(b[0] for b in broken))
        log(broken[0][1][-1500:])
    # correspondence / search
    run_error = None
    try:
        if replay:
            mod.replay(ctx, json.load(open(replay)))
        else:
            mod.run(ctx)
    except Exception:
        run_error = traceback.format_exc()
        log(run_error)
    # verdict
    nviol = 0
    n = 0
    seen_sig = set()
    for d in ctx.disagreements:
        sig = d['signature']
        if sig in seen_sig:
            continue
        seen_sig.add(sig)
        f = ctx.match_finding(sig)
        if f is not None:
            ctx.known_seen[f['id']] = f
            continue
        n += 1
        path = write_replay(ctx, d, n, obligation=[b[0] for b in broken] or None)
        print('VIOLATION property=%s replay=%s' % (prop, path))
        nviol += 1
    for fid, f in sorted(ctx.known_seen.items()):
        print('KNOWN-FINDING: property=%s %s %s' % (prop, fid, f['what']))
    if run_error is not None:
        n += 1
        path = write_replay(ctx, dict(signature='harness-error', what='correspondence harness raised', error=run_error), n,
                            obligation=['correspondence:%s' % prop] + [b[0] for b in broken])
        print('VIOLATION property=%s replay=%s no-failing-input-found' % (prop, path))
        nviol += 1
    elif broken and nviol == 0:
        n += 1
        path = write_replay(ctx, dict(signature='broken-obligation', what='proof obligation / tie no longer checks; '
                                      'search found no failing input', messages=[b[1][-1500:] for b in broken]), n,
                            obligation=[b[0] for b in broken])
        print('VIOLATION property=%s replay=%s no-failing-input-found' % (prop, path))
        nviol += 1
    write_evidence(ctx, nviol)
    log('%s %s: obligations=%s evaluations=%d distinct=%d violations=%d known=%d wall=%.1fs' % (
        prop, tier, (ctx.proof or {}).get('obligations'), ctx.evaluations, len(ctx.distinct), nviol,
        len(ctx.known_seen), time.time() - ctx.t0))
    return 1 if nviol else 0


def main(argv=None):
    import argparse
    ap = argparse.ArgumentParser()
    ap.add_argument('prop')
    ap.add_argument('--tier', default=os.environ.get('VERIF_TIER') or 'quick')
    ap.add_argument('--replay')
    a = ap.parse_args(argv)
    seed = int(os.environ.get('VERIF_SEED') or 1)
    if a.tier not in ('quick', 'thorough'):
        a.tier = 'quick'
    sys.exit(run_check(a.prop.upper(), a.tier, seed, a.replay))
