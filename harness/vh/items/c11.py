"""Translator items for C11: the small decision constants of katdal/categorical.py the Coq model hard-wires.

The model of CategoricalData uses: _lookup = searchsorted(side='right') - 1; add = searchsorted (side left);
partition = searchsorted(side='right') - 1 clipped; add_unmatched(match_dist=1) compares with '>';
align takes argmin (first minimum) over axis 0 and keeps diff(events) > 0; remove_repeats compares
diff(indices) != 0; concatenate_categorical removes repeats unless allow_repeats (default False).
Each is re-read from the source (Python ast, fail-closed) into Gen/Generated.v; Proofs/CategoricalTieP.v
proves they have the values the model assumes, so an edit of any of them breaks a proof obligation and
triggers the failing-input search."""
import ast

from vh.translate import TranslateError, _class, _func, _parse

REL = 'katdal/categorical.py'


def _calls(node, attr):
    return [n for n in ast.walk(node) if isinstance(n, ast.Call) and isinstance(n.func, ast.Attribute)
            and n.func.attr == attr]


def _side(call, what):
    kws = {k.arg: k.value for k in call.keywords}
    if 'side' not in kws:
        return 'left'
    v = kws['side']
    if not (isinstance(v, ast.Constant) and v.value in ('left', 'right')):
        raise TranslateError('%s: searchsorted side not a literal' % what)
    return v.value


def _minus_one(fn, what):
    """the searchsorted result is decremented by exactly 1"""
    for n in ast.walk(fn):
        if isinstance(n, ast.BinOp) and isinstance(n.op, ast.Sub) and isinstance(n.right, ast.Constant) \
                and n.right.value == 1 and _calls(n.left, 'searchsorted'):
            return True
    raise TranslateError('%s: expected searchsorted(...) - 1' % what)


def item_categorical(repo, out):
    tree = _parse(repo, REL)
    cls = _class(tree, 'CategoricalData', REL)
    b = lambda x: 'true' if x else 'false'   # noqa: E731
    # _lookup
    fn = _func(cls, '_lookup', REL)
    cs = _calls(fn, 'searchsorted')
    if len(cs) != 1:
        raise TranslateError('_lookup: expected one searchsorted call')
    _minus_one(fn, '_lookup')
    out.append('Definition cat_lookup_side_right : bool := %s.' % b(_side(cs[0], '_lookup') == 'right'))
    # add
    fn = _func(cls, 'add', REL)
    cs = _calls(fn, 'searchsorted')
    if len(cs) != 1:
        raise TranslateError('add: expected one searchsorted call')
    out.append('Definition cat_add_side_left : bool := %s.' % b(_side(cs[0], 'add') == 'left'))
    # partition
    fn = _func(cls, 'partition', REL)
    cs = _calls(fn, 'searchsorted')
    if len(cs) != 1 or len(_calls(fn, 'clip')) != 1:
        raise TranslateError('partition: expected one searchsorted and one clip call')
    _minus_one(fn, 'partition')
    out.append('Definition cat_partition_side_right : bool := %s.' % b(_side(cs[0], 'partition') == 'right'))
    # add_unmatched: default match_dist and the comparison "> match_dist"
    fn = _func(cls, 'add_unmatched', REL)
    args = [a.arg for a in fn.args.args]
    if args != ['self', 'segments', 'match_dist'] or len(fn.args.defaults) != 1 \
            or not isinstance(fn.args.defaults[0], ast.Constant) or not isinstance(fn.args.defaults[0].value, int):
        raise TranslateError('add_unmatched: signature changed')
    out.append('Definition cat_match_dist_default : Z := (%d)%%Z.' % fn.args.defaults[0].value)
    cmps = [n for n in ast.walk(fn) if isinstance(n, ast.Compare) and len(n.ops) == 1
            and isinstance(n.comparators[0], ast.Name) and n.comparators[0].id == 'match_dist']
    if len(cmps) != 1 or len(_calls(cmps[0], 'min')) != 1:
        raise TranslateError('add_unmatched: expected one comparison of a .min(...) with match_dist')
    out.append('Definition cat_unmatched_is_gt : bool := %s.' % b(isinstance(cmps[0].ops[0], ast.Gt)))
    # align: argmin over axis 0, diff(events) > 0
    fn = _func(cls, 'align', REL)
    cs = _calls(fn, 'argmin')
    if len(cs) != 1 or len(_calls(fn, 'unique')) != 1:
        raise TranslateError('align: expected one argmin and one unique call')
    cmps = [n for n in ast.walk(fn) if isinstance(n, ast.Compare) and len(n.ops) == 1
            and isinstance(n.left, ast.Call) and getattr(n.left.func, 'attr', '') == 'diff']
    if len(cmps) != 1 or not isinstance(cmps[0].comparators[0], ast.Constant) or cmps[0].comparators[0].value != 0:
        raise TranslateError('align: expected one comparison diff(events) <op> 0')
    out.append('Definition cat_align_keeps_increasing : bool := %s.' % b(isinstance(cmps[0].ops[0], ast.Gt)))
    # concatenate_categorical: allow_repeats default
    found = [n for n in tree.body if isinstance(n, ast.FunctionDef) and n.name == 'concatenate_categorical']
    if len(found) != 1:
        raise TranslateError('concatenate_categorical not found')
    gets = [c for c in _calls(found[0], 'get') if c.args and isinstance(c.args[0], ast.Constant)
            and c.args[0].value == 'allow_repeats']
    if len(gets) != 1 or len(gets[0].args) != 2 or not isinstance(gets[0].args[1], ast.Constant):
        raise TranslateError("concatenate_categorical: expected kwargs.get('allow_repeats', <const>)")
    out.append('Definition cat_allow_repeats_default : bool := %s.' % b(bool(gets[0].args[1].value)))
    nots = [n for n in ast.walk(found[0]) if isinstance(n, ast.If) and isinstance(n.test, ast.UnaryOp)
            and isinstance(n.test.op, ast.Not) and n.test.operand is gets[0]]
    out.append('Definition cat_repeats_removed_unless_allowed : bool := %s.'
               % b(len(nots) == 1 and len(_calls(nots[0], 'remove_repeats')) == 1))


ITEMS = [item_categorical]
