"""Translator items for C11: the small decision constants of katdal/categorical.py the Coq model hard-wires.

The model of CategoricalData uses: _lookup = searchsorted(side='right') - 1; add = searchsorted (side left);
partition = searchsorted(side='right') - 1 clipped; add_unmatched(match_dist=1) compares with '>';
align takes argmin (first minimum) over axis 0 and keeps diff(events) > 0; remove_repeats compares
diff(indices) != 0; concatenate_categorical removes repeats unless allow_repeats (default False).
Each is re-read from the source (Python ast, fail-closed) into Gen/Generated.v; Proofs/CategoricalTieP.v
proves they have the values the model assumes, so an edit of any of them breaks a proof obligation and
triggers the failing-input search."""
import ast

from vh.translate import TranslateError, _class, _func, _parse, parse_template

REL = 'katdal/categorical.py'


def _calls(node, attr):
    return [n for n in ast.walk(node) if isinstance(n, ast.Call) and isinstance(n.func, ast.Attribute)
            and n.func.attr == attr]


def _side(call, what):
    kws = {k.arg: k.value for k in call.keywords}
    if 'side' not in kws:
        return 'left'
    v = kws['side']
    if not (isinstance(v, ast.Constant) and v.value in ('left', 'right')):
        raise TranslateError('%s: searchsorted side not a literal' % what)
    return v.value


def _minus_one(fn, what):
    """the searchsorted result is decremented by exactly 1"""
    for n in ast.walk(fn):
        if isinstance(n, ast.BinOp) and isinstance(n.op, ast.Sub) and isinstance(n.right, ast.Constant) \
                and n.right.value == 1 and _calls(n.left, 'searchsorted'):
            return True
    raise TranslateError('%s: expected searchsorted(...) - 1' % what)


def item_categorical(repo, out):
    tree = _parse(repo, REL)
    cls = _class(tree, 'CategoricalData', REL)
    b = lambda x: 'true' if x else 'false'   # noqa: E731
    # _lookup
    fn = _func(cls, '_lookup', REL)
    cs = _calls(fn, 'searchsorted')
    if len(cs) != 1:
        raise TranslateError('_lookup: expected one searchsorted call')
    _minus_one(fn, '_lookup')
    out.append('Definition cat_lookup_side_right : bool := %s.' % b(_side(cs[0], '_lookup') == 'right'))
    # add
    fn = _func(cls, 'add', REL)
    cs = _calls(fn, 'searchsorted')
    if len(cs) != 1:
        raise TranslateError('add: expected one searchsorted call')
    out.append('Definition cat_add_side_left : bool := %s.' % b(_side(cs[0], 'add') == 'left'))
    # partition
    fn = _func(cls, 'partition', REL)
    cs = _calls(fn, 'searchsorted')
    if len(cs) != 1 or len(_calls(fn, 'clip')) != 1:
        raise TranslateError('partition: expected one searchsorted and one clip call')
    _minus_one(fn, 'partition')
    out.append('Definition cat_partition_side_right : bool := %s.' % b(_side(cs[0], 'partition') == 'right'))
    # add_unmatched: default match_dist and the comparison "> match_dist"
    fn = _func(cls, 'add_unmatched', REL)
    args = [a.arg for a in fn.args.args]
    if args != ['self', 'segments', 'match_dist'] or len(fn.args.defaults) != 1 \
            or not isinstance(fn.args.defaults[0], ast.Constant) or not isinstance(fn.args.defaults[0].value, int):
        raise TranslateError('add_unmatched: signature changed')
    out.append('Definition cat_match_dist_default : Z := (%d)%%Z.' % fn.args.defaults[0].value)
    cmps = [n for n in ast.walk(fn) if isinstance(n, ast.Compare) and len(n.ops) == 1
            and isinstance(n.comparators[0], ast.Name) and n.comparators[0].id == 'match_dist']
    if len(cmps) != 1 or len(_calls(cmps[0], 'min')) != 1:
        raise TranslateError('add_unmatched: expected one comparison of a .min(...) with match_dist')
    out.append('Definition cat_unmatched_is_gt : bool := %s.' % b(isinstance(cmps[0].ops[0], ast.Gt)))
    # align: argmin over axis 0, diff(events) > 0
    fn = _func(cls, 'align', REL)
    cs = _calls(fn, 'argmin')
    if len(cs) != 1 or len(_calls(fn, 'unique')) != 1:
        raise TranslateError('align: expected one argmin and one unique call')
    cmps = [n for n in ast.walk(fn) if isinstance(n, ast.Compare) and len(n.ops) == 1
            and isinstance(n.left, ast.Call) and getattr(n.left.func, 'attr', '') == 'diff']
    if len(cmps) != 1 or not isinstance(cmps[0].comparators[0], ast.Constant) or cmps[0].comparators[0].value != 0:
        raise TranslateError('align: expected one comparison diff(events) <op> 0')
    out.append('Definition cat_align_keeps_increasing : bool := %s.' % b(isinstance(cmps[0].ops[0], ast.Gt)))
    # concatenate_categorical: allow_repeats default
    found = [n for n in tree.body if isinstance(n, ast.FunctionDef) and n.name == 'concatenate_categorical']
    if len(found) != 1:
        raise TranslateError('concatenate_categorical not found')
    gets = [c for c in _calls(found[0], 'get') if c.args and isinstance(c.args[0], ast.Constant)
            and c.args[0].value == 'allow_repeats']
    if len(gets) != 1 or len(gets[0].args) != 2 or not isinstance(gets[0].args[1], ast.Constant):
        raise TranslateError("concatenate_categorical: expected kwargs.get('allow_repeats', <const>)")
    out.append('Definition cat_allow_repeats_default : bool := %s.' % b(bool(gets[0].args[1].value)))
    nots = [n for n in ast.walk(found[0]) if isinstance(n, ast.If) and isinstance(n.test, ast.UnaryOp)
            and isinstance(n.test.op, ast.Not) and n.test.operand is gets[0]]
    out.append('Definition cat_repeats_removed_unless_allowed : bool := %s.'
               % b(len(nots) == 1 and len(_calls(nots[0], 'remove_repeats')) == 1))


ITEMS = [item_categorical]


# ---------------------------------------------------------------------------------------------------------------
# Template matching (round 2): every function of katdal/categorical.py that Model/Categorical.v mirrors is matched
# STATEMENT BY STATEMENT against a template of its source.  Holes of the template capture the decision pieces
# (comparison operators, arithmetic constants, searchsorted sides, default arguments, numpy reduction names); they
# are emitted into Gen/Generated.v as functions / constants and Proofs/CategoricalTieP.v proves, for all arguments,
# that they are the operators and constants the Gallina model uses.  Anything else that differs from the template
# (statement order, an extra or missing statement, another expression) is refused (TranslateError = broken tie).
#
# Template language (plain Python source, parsed with ast):
#   H_name            hole: any constant expression (captured, validated by the emitter)
#   HD_name           hole in a keyword argument that may be absent in the source (then the documented default)
#   ANY_              matches any expression (error-message text only)
#   CMP_name(a, b)    matches a comparison `a <op> b` with one operator; the operator is captured
#   BIN_name(a, b)    matches `a <op> b` for a binary arithmetic operator; the operator is captured
#   x.ATTR_name(...)  matches any attribute name in that position (np.zeros / np.empty, argmin / argmax); captured

TEMPLATE = r'''
class ComparableArrayWrapper:
    def __init__(self, value):
        self.unwrapped = value

    def __eq__(self, other):
        if isinstance(other, ComparableArrayWrapper):
            other = other.unwrapped
        if isinstance(self.unwrapped, np.ndarray) or isinstance(other, np.ndarray):
            return np.array_equal(self.unwrapped, other)
        else:
            return CMP_w_eq(self.unwrapped, other)

    def __ne__(self, other):
        return not CMP_w_ne(self, other)

    def __lt__(self, other):
        if isinstance(other, ComparableArrayWrapper):
            other = other.unwrapped
        return CMP_w_lt(self.unwrapped, other)

    def __gt__(self, other):
        if isinstance(other, ComparableArrayWrapper):
            other = other.unwrapped
        return CMP_w_gt(self.unwrapped, other)

    def __le__(self, other):
        if isinstance(other, ComparableArrayWrapper):
            other = other.unwrapped
        return CMP_w_le(self.unwrapped, other)

    def __ge__(self, other):
        if isinstance(other, ComparableArrayWrapper):
            other = other.unwrapped
        return CMP_w_ge(self.unwrapped, other)

    def __hash__(self):
        return hash(self.unwrapped)

    @staticmethod
    def unwrap(v):
        return v.unwrapped if isinstance(v, ComparableArrayWrapper) else v


def unique_in_order(elements, return_inverse=H_uio_inverse_default):
    elements = list(elements)
    unique_elements, inverse = [], []
    try:
        lookup = collections.OrderedDict(zip(elements, len(elements) * [0]))
    except TypeError:
        lookup = {}
        for element in elements:
            token = tokenize(ComparableArrayWrapper.unwrap(element))
            try:
                index = lookup[token]
            except KeyError:
                index = len(unique_elements)
                lookup[token] = index
                unique_elements.append(element)
            if return_inverse:
                inverse.append(index)
    else:
        for index, element in enumerate(lookup):
            lookup[element] = index
        unique_elements = list(lookup.keys())
        if return_inverse:
            inverse = [lookup[element] for element in elements]
    return (unique_elements, np.array(inverse, dtype=int)) \
        if return_inverse else unique_elements


class CategoricalData:
    def __init__(self, sensor_values, events):
        values, self.indices = unique_in_order(sensor_values, return_inverse=True)
        self.unique_values = [ComparableArrayWrapper.unwrap(v) for v in values]
        self.events = np.asarray(events)

    @property
    def _comparable_values(self):
        return [ComparableArrayWrapper(value) for value in self.unique_values]

    def _lookup(self, dumps):
        preceding_events = BIN_lookup_dec(self.events.searchsorted(dumps, side=HD_lookup_side), H_lookup_dec)
        if np.any(CMP_lookup_lo(preceding_events, H_lookup_lo)) or \
                np.any(CMP_lookup_hi(preceding_events, len(self.indices))):
            raise IndexError(ANY_)
        return self.indices[preceding_events]

    def __getitem__(self, key):
        if isinstance(key, slice):
            key = list(range(*key.indices(self.events[-1])))
        elif np.asarray(key).dtype == bool and CMP_mask_len(len(np.asarray(key)), self.events[-1]):
            key = np.nonzero(key)[0]
        indices = self._lookup(key)
        try:
            values = [self.unique_values[index] for index in indices]
        except TypeError:
            return self.unique_values[indices]
        try:
            if not values:
                all_possible_values = np.array(self.unique_values)
                dtype = all_possible_values.dtype
                shape = all_possible_values.shape
                return np.empty((0,) + shape[1:], dtype)
            return np.array(values)
        except ValueError:
            ragged = np.empty(len(values), dtype=object)
            for n, value in enumerate(values):
                ragged[n] = value
            return ragged

    def __len__(self):
        return len(self.indices)

    def _bool_per_dump(self, bool_per_value):
        bool_per_event = np.atleast_1d(np.array(bool_per_value)[self.indices])
        bool_per_dump = np.ATTR_bpd_init(self.events[-1], dtype=bool)
        for n, (start, end) in enumerate(zip(self.events[:-1], self.events[1:])):
            bool_per_dump[start:end] = bool_per_event[n]
        return bool_per_dump

    def __eq__(self, other):
        return self._bool_per_dump([CMP_c_eq(value, other) for value in self._comparable_values])

    def __ne__(self, other):
        return self._bool_per_dump([CMP_c_ne(value, other) for value in self._comparable_values])

    def __lt__(self, other):
        return self._bool_per_dump([CMP_c_lt(value, other) for value in self._comparable_values])

    def __gt__(self, other):
        return self._bool_per_dump([CMP_c_gt(value, other) for value in self._comparable_values])

    def __le__(self, other):
        return self._bool_per_dump([CMP_c_le(value, other) for value in self._comparable_values])

    def __ge__(self, other):
        return self._bool_per_dump([CMP_c_ge(value, other) for value in self._comparable_values])

    def segments(self):
        for start, end, ind in zip(self.events[:-1], self.events[1:], self.indices):
            yield slice(start, end), self.unique_values[ind]

    def add(self, event, value=H_add_value_default):
        if CMP_add_lo(event, H_add_lo) or CMP_add_hi(event, self.events[-1]):
            raise IndexError(ANY_)
        if value is not None:
            try:
                value_index = self._comparable_values.index(value)
            except ValueError:
                value_index = len(self.unique_values)
                self.unique_values += [value]
        else:
            value_index = self._lookup(event)
        event_index = self.events.searchsorted(event, side=HD_add_side)
        before, after = event_index, (BIN_add_after(event_index, H_add_inc)
                                      if CMP_add_coincide(self.events[event_index], event) else event_index)
        self.indices = np.r_[self.indices[:before], [value_index], self.indices[after:]]
        self.events = np.r_[self.events[:before], [event], self.events[after:]]

    def remove(self, value):
        try:
            index = self._comparable_values.index(value)
        except ValueError:
            pass
        else:
            keep = (CMP_rm_keep(self.indices, index))
            remap = np.arange(len(self.unique_values))
            remap[index:] -= H_rm_dec
            self.indices = remap[self.indices[keep]]
            self.events = np.r_[self.events[:-1][keep], self.events[-1]]
            del self.unique_values[index]

    def add_unmatched(self, segments, match_dist=H_match_dist):
        segments = np.asarray(segments)
        unmatched = segments[CMP_unmatched(
            np.abs(self.events[np.newaxis, :] - segments[:, np.newaxis]).ATTR_um_reduce(axis=H_um_axis), match_dist)]
        for segm in unmatched:
            try:
                self.add(segm)
            except IndexError:
                pass

    def align(self, segments):
        segments_with_event = np.abs(self.events[np.newaxis, :] - segments[:, np.newaxis]).ATTR_align_reduce(
            axis=H_align_axis)
        events = segments[segments_with_event]
        final = np.nonzero(CMP_align_keep(np.diff(events), H_align_zero))[0]
        subset, self.indices = np.unique(self.indices[final], return_inverse=True)
        self.unique_values = [self.unique_values[index] for index in subset]
        self.events = np.r_[events[final], events[-1]]

    def partition(self, segments):
        events = self.events[:-1]
        initial_indices = self.indices[BIN_part_dec(events.searchsorted(segments[:-1], side=HD_part_side),
                                                    H_part_dec).clip(H_clip_lo, BIN_clip_hi(len(events), H_clip_hi))]
        split_data = []
        for start, end, initial_index in zip(segments[:-1], segments[1:], initial_indices):
            segment_events = (CMP_part_lo(events, start)) & (CMP_part_hi(events, end))
            cat_data = CategoricalData([], [])
            cat_data.unique_values = list(self.unique_values)
            cat_data.indices = self.indices[segment_events]
            cat_data.events = events[segment_events] - start
            if CMP_part_empty(len(cat_data.events), H_part_empty) or CMP_part_first(cat_data.events[0], H_part_first):
                cat_data.indices = np.r_[initial_index, cat_data.indices]
                cat_data.events = np.r_[0, cat_data.events, end - start]
            else:
                cat_data.events = np.r_[cat_data.events, end - start]
            split_data.append(cat_data)
        return split_data

    def remove_repeats(self):
        changes = np.nonzero([H_rr_first] + np.diff(self.indices).tolist())[0]
        self.indices = self.indices[changes]
        self.events = np.r_[self.events[changes], self.events[-1]]


def concatenate_categorical(split_data, **kwargs):
    if CMP_cc_single(len(split_data), H_cc_single):
        return split_data[0]
    segments = np.cumsum([0] + [cat_data.events[-1] for cat_data in split_data])
    data = CategoricalData([], [])
    split_values = [cat_data._comparable_values for cat_data in split_data]
    inverse_splits = np.cumsum([0] + [len(vals) for vals in split_values])
    values, inverse = unique_in_order(sum(split_values, []), return_inverse=True)
    data.unique_values = [ComparableArrayWrapper.unwrap(v) for v in values]
    indices, events = [], []
    for n, cat_data in enumerate(split_data):
        lookup = np.array(inverse[inverse_splits[n]:inverse_splits[BIN_cc_next(n, H_cc_next)]])
        indices.append(lookup[cat_data.indices])
        events.append(cat_data.events[:-1] + segments[n])
    events.append([segments[-1]])
    data.indices = np.concatenate(indices)
    data.events = np.concatenate(events)
    if not kwargs.get('allow_repeats', H_allow_repeats):
        data.remove_repeats()
    return data
'''

# methods of the two classes that are NOT mirrored by the model and therefore not matched (presentation / dtype only)
UNMATCHED_METHODS = {'ComparableArrayWrapper': {'__repr__', '__str__'},
                     'CategoricalData': {'__repr__', '__str__', 'dtype'}}
KW_DEFAULTS = {'HD_lookup_side': 'left', 'HD_add_side': 'left', 'HD_part_side': 'left'}   # numpy's documented default

CMPOPS = {ast.Eq: 'Eq', ast.NotEq: 'NotEq', ast.Lt: 'Lt', ast.LtE: 'LtE', ast.Gt: 'Gt', ast.GtE: 'GtE'}
BINOPS = {ast.Add: 'Add', ast.Sub: 'Sub', ast.Mult: 'Mult'}


def _strip_doc(fn):
    body = list(fn.body)
    if body and isinstance(body[0], ast.Expr) and isinstance(body[0].value, ast.Constant) \
            and isinstance(body[0].value.value, str):
        body = body[1:]
    return body


class _Unifier:
    def __init__(self, where):
        self.where = where
        self.holes = {}

    def fail(self, t, s, why):
        line = getattr(s, 'lineno', None)
        src = ''
        try:
            src = ast.unparse(s)[:90] if isinstance(s, ast.AST) else repr(s)[:90]
        except Exception:
            pass
        raise TranslateError('%s%s: source differs from the mirrored template (%s): `%s`'
                             % (self.where, ' line %s' % line if line else '', why, src))

    def capture(self, name, value, s):
        if name in self.holes and self.holes[name] != value:
            self.fail(None, s, 'hole %s captured twice with different values' % name)
        self.holes[name] = value

    def const(self, s):
        """constant expression allowed in a hole: literal int / bool / str / None, possibly negated"""
        if isinstance(s, ast.Constant) and (s.value is None or isinstance(s.value, (bool, int, str))):
            return s.value
        if isinstance(s, ast.UnaryOp) and isinstance(s.op, ast.USub) and isinstance(s.operand, ast.Constant) \
                and isinstance(s.operand.value, int) and not isinstance(s.operand.value, bool):
            return -s.operand.value
        self.fail(None, s, 'expected a literal constant')

    def node(self, t, s):
        if isinstance(t, ast.Name):
            if t.id == 'ANY_':
                if not isinstance(s, ast.expr):
                    self.fail(t, s, 'expected an expression')
                return
            if t.id.startswith(('H_', 'HD_')):
                self.capture(t.id, self.const(s), s)
                return
        if isinstance(t, ast.Call) and isinstance(t.func, ast.Name) and t.func.id.startswith('CMP_'):
            if not (isinstance(s, ast.Compare) and len(s.ops) == 1 and type(s.ops[0]) in CMPOPS):
                self.fail(t, s, 'expected a single comparison')
            self.capture(t.func.id, CMPOPS[type(s.ops[0])], s)
            self.node(t.args[0], s.left)
            self.node(t.args[1], s.comparators[0])
            return
        if isinstance(t, ast.Call) and isinstance(t.func, ast.Name) and t.func.id.startswith('BIN_'):
            if not (isinstance(s, ast.BinOp) and type(s.op) in BINOPS):
                self.fail(t, s, 'expected a binary + - *')
            self.capture(t.func.id, BINOPS[type(s.op)], s)
            self.node(t.args[0], s.left)
            self.node(t.args[1], s.right)
            return
        if type(t) is not type(s):
            self.fail(t, s, 'expected %s' % type(t).__name__)
        if isinstance(t, ast.Attribute) and t.attr.startswith('ATTR_'):
            self.capture(t.attr, s.attr, s)
            self.node(t.value, s.value)
            return
        if isinstance(t, ast.Call):
            # keyword arguments with an optional-hole value may be absent in the source
            tk = list(t.keywords)
            sk = {k.arg: k for k in s.keywords}
            if len(sk) != len(s.keywords):
                self.fail(t, s, 'repeated keyword')
            for k in tk:
                if isinstance(k.value, ast.Name) and k.value.id.startswith('HD_') and k.arg not in sk:
                    self.capture(k.value.id, KW_DEFAULTS[k.value.id], s)
                elif k.arg not in sk:
                    self.fail(t, s, 'keyword %s missing' % k.arg)
                else:
                    self.node(k.value, sk.pop(k.arg).value)
            if sk:
                self.fail(t, s, 'unexpected keyword(s) %s' % sorted(map(str, sk)))
            self.node(t.func, s.func)
            self.seq(t.args, s.args, s)
            return
        for f in t._fields:
            if f in ('ctx', 'type_comment', 'kind'):
                continue
            a, b = getattr(t, f, None), getattr(s, f, None)
            if isinstance(t, (ast.FunctionDef, ast.ClassDef)) and f == 'body':
                continue            # bodies are matched by the caller (docstrings, unmatched methods)
            self.value(a, b, s)

    def value(self, a, b, s):
        if isinstance(a, list):
            if not isinstance(b, list):
                self.fail(None, s, 'shape')
            self.seq(a, b, s)
        elif isinstance(a, ast.AST):
            if not isinstance(b, ast.AST):
                self.fail(a, s, 'missing part')
            self.node(a, b)
        elif a != b or type(a) is not type(b):
            self.fail(None, s, 'expected %r, found %r' % (a, b))

    def seq(self, ts, ss, s):
        if len(ts) != len(ss):
            self.fail(None, ss[len(ts)] if len(ss) > len(ts) else s,
                      'expected %d item(s)/statement(s), found %d' % (len(ts), len(ss)))
        for a, b in zip(ts, ss):
            self.value(a, b, s)

    def function(self, t, s):
        self.node(t, s)              # name, args, defaults, decorators, returns
        self.seq(_strip_doc(t), _strip_doc(s), s)


def _match_templates(tree):
    tt = parse_template(TEMPLATE)        # the same normal form as the katdal file (_parse)
    src_top = {n.name: n for n in tree.body if isinstance(n, (ast.FunctionDef, ast.ClassDef))}
    names = [n.name for n in tree.body if isinstance(n, (ast.FunctionDef, ast.ClassDef))]
    if len(names) != len(set(names)):
        raise TranslateError('%s: a top-level name is defined twice' % REL)
    u = _Unifier(REL)
    for t in tt.body:
        s = src_top.get(t.name)
        if s is None or type(s) is not type(t):
            raise TranslateError('%s: %s not found' % (REL, t.name))
        if isinstance(t, ast.FunctionDef):
            u.where = '%s:%s' % (REL, t.name)
            u.function(t, s)
            continue
        u.where = '%s:%s' % (REL, t.name)
        u.node(t, s)                 # class name, bases, decorators
        skip = UNMATCHED_METHODS[t.name]
        sbody = [n for n in _strip_doc(s) if not (isinstance(n, ast.FunctionDef) and n.name in skip)]
        tnames = [n.name for n in t.body]
        snames = [getattr(n, 'name', '<%s>' % type(n).__name__) for n in sbody]
        if tnames != snames:
            raise TranslateError('%s:%s: members (in order) expected %s, found %s' % (REL, t.name, tnames, snames))
        for tm, sm in zip(t.body, sbody):
            u.where = '%s:%s.%s' % (REL, t.name, tm.name)
            u.function(tm, sm)
    # the module must not rebind the mirrored names after their definition (monkey patching at import time)
    mirrored = {t.name for t in tt.body}
    for n in tree.body:
        for x in ast.walk(n) if not isinstance(n, (ast.FunctionDef, ast.ClassDef)) else []:
            if isinstance(x, (ast.Name, ast.Attribute)) and isinstance(getattr(x, 'ctx', None), (ast.Store, ast.Del)):
                base = x
                while isinstance(base, ast.Attribute):
                    base = base.value
                if isinstance(base, ast.Name) and base.id in mirrored:
                    raise TranslateError('%s: module-level statement rebinds %s' % (REL, base.id))
    return u.holes


ZCMP = {'Eq': 'Z.eqb a b', 'NotEq': 'negb (Z.eqb a b)', 'Lt': 'Z.ltb a b', 'LtE': 'Z.leb a b',
        'Gt': 'Z.ltb b a', 'GtE': 'Z.leb b a'}
ZBIN = {'Add': 'Z.add a b', 'Sub': 'Z.sub a b', 'Mult': 'Z.mul a b'}
CMPID = {'Eq': 0, 'NotEq': 1, 'Lt': 2, 'Gt': 3, 'LtE': 4, 'GtE': 5}     # numbering of Model/Categorical.v:cmp_fun


def item_categorical_templates(repo, out):
    try:
        holes = _match_templates(_parse(repo, REL))
    except TranslateError:
        raise
    except Exception as e:          # fail closed on anything unexpected
        raise TranslateError('%s: template matcher raised %r' % (REL, e))
    h = dict(holes)

    def take(name):
        if name not in h:
            raise TranslateError('%s: hole %s not captured' % (REL, name))
        return h.pop(name)

    def zint(name):
        v = take(name)
        if isinstance(v, bool) or not isinstance(v, int):
            raise TranslateError('%s: %s is not an integer literal (%r)' % (REL, name, v))
        return '(%d)%%Z' % v

    def boolean(name, allow_none=False):
        v = take(name)
        if not isinstance(v, bool):
            raise TranslateError('%s: %s is not a bool literal (%r)' % (REL, name, v))
        return 'true' if v else 'false'

    def side(name):
        v = take(name)
        if v not in ('left', 'right'):
            raise TranslateError('%s: %s is not a searchsorted side (%r)' % (REL, name, v))
        return 'true' if v == 'right' else 'false'

    def attr(name, table):
        v = take(name)
        if v not in table:
            raise TranslateError('%s: %s = %r is not one of %s' % (REL, name, v, sorted(table)))
        return table[v]

    o = out.append
    o('(* katdal/categorical.py, statement-by-statement template match: decision pieces of the mirrored functions *)')
    for nm in ('lookup_lo', 'lookup_hi', 'mask_len', 'add_lo', 'add_hi', 'add_coincide', 'rm_keep', 'unmatched', 'align_keep',
               'part_lo', 'part_hi', 'part_empty', 'part_first', 'cc_single'):
        o('Definition catg_%s_cmp : Z -> Z -> bool := fun a b => %s.' % (nm, ZCMP[take('CMP_' + nm)]))
    for nm in ('lookup_dec', 'add_after', 'part_dec', 'clip_hi', 'cc_next'):
        o('Definition catg_%s_op : Z -> Z -> Z := fun a b => %s.' % (nm, ZBIN[take('BIN_' + nm)]))
    for nm in ('lookup_dec', 'lookup_lo', 'add_lo', 'add_inc', 'rm_dec', 'match_dist', 'um_axis', 'align_axis', 'align_zero',
               'part_dec', 'clip_lo', 'clip_hi', 'part_empty', 'part_first', 'rr_first', 'cc_single', 'cc_next'):
        o('Definition catg_%s : Z := %s.' % (nm, zint('H_' + nm)))
    for nm in ('lookup_side', 'add_side', 'part_side'):
        o('Definition catg_%s_right : bool := %s.' % (nm, side('HD_' + nm)))
    o('Definition catg_uio_inverse_default : bool := %s.' % boolean('H_uio_inverse_default'))
    o('Definition catg_allow_repeats_default : bool := %s.' % boolean('H_allow_repeats'))
    v = take('H_add_value_default')
    if v is not None:
        raise TranslateError('%s: add(event, value=%r): the default must be None' % (REL, v))
    o('Definition catg_add_value_default_is_none : bool := true.')
    # np.zeros / np.ones initialise the comparison result; np.empty would be uninitialised memory (finding F38)
    o('Definition catg_bpd_init : bool := %s.' % attr('ATTR_bpd_init', {'zeros': 'false', 'ones': 'true'}))
    o('Definition catg_um_reduce_is_min : bool := %s.' % attr('ATTR_um_reduce', {'min': 'true', 'max': 'false'}))
    o('Definition catg_align_reduce_is_argmin : bool := %s.'
      % attr('ATTR_align_reduce', {'argmin': 'true', 'argmax': 'false'}))
    # the six comparison methods of CategoricalData and of ComparableArrayWrapper, in the order == != < > <= >=
    for pre, nm in (('CMP_c_', 'catg_cmp_methods'), ('CMP_w_', 'catg_wrapper_cmp_methods')):
        ids = []
        for m in ('eq', 'ne', 'lt', 'gt', 'le', 'ge'):
            ids.append(CMPID[take(pre + m)])
        if nm == 'catg_wrapper_cmp_methods':
            ids[1] = {0: 1, 1: 0}.get(ids[1], ids[1])       # __ne__ is written `not self == other`
        o('Definition %s : list Z := [%s].' % (nm, '; '.join('%d' % i for i in ids)))
    if h:
        raise TranslateError('%s: holes captured but not emitted: %s' % (REL, sorted(h)))


ITEMS = [item_categorical, item_categorical_templates]
