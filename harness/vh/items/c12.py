"""C12 translator items: the readable sensor statuses and the status width used by
sensordata.remove_duplicates_and_invalid_values (fail-closed on any other shape)."""
import ast
import os
import re

from vh.translate import TranslateError, _parse, coq_strings, coq_Z


def _find_func(tree, name, rel):
    found = [n for n in tree.body if isinstance(n, ast.FunctionDef) and n.name == name]
    if len(found) != 1:
        raise TranslateError('%s: expected exactly one function %s' % (rel, name))
    return found[0]


def _flatten_or(node, what):
    if isinstance(node, ast.BinOp) and isinstance(node.op, ast.BitOr):
        return _flatten_or(node.left, what) + _flatten_or(node.right, what)
    if (isinstance(node, ast.Compare) and len(node.ops) == 1 and isinstance(node.ops[0], ast.Eq)
            and isinstance(node.left, ast.Name) and node.left.id == 'status'
            and isinstance(node.comparators[0], ast.Constant) and isinstance(node.comparators[0].value, bytes)):
        return [node.comparators[0].value.decode('ascii')]
    raise TranslateError('%s: status filter is not an OR of `status == b"..."`: %s' % (what, ast.dump(node)[:100]))


def item_sensor_statuses(repo, out):
    rel = 'katdal/sensordata.py'
    tree = _parse(repo, rel)
    fn = _find_func(tree, 'remove_duplicates_and_invalid_values', rel)
    width = None
    valid = None
    for n in ast.walk(fn):
        if isinstance(n, ast.Assign) and len(n.targets) == 1 and isinstance(n.targets[0], ast.Name):
            tgt = n.targets[0].id
            v = n.value
            if (tgt == 'status' and isinstance(v, ast.Call) and isinstance(v.func, ast.Attribute)
                    and v.func.attr == 'astype' and len(v.args) == 1 and isinstance(v.args[0], ast.Constant)):
                m = re.fullmatch(r'\|?S(\d+)', str(v.args[0].value))
                if not m or width is not None:
                    raise TranslateError('%s: unexpected status cast %r' % (rel, v.args[0].value))
                # the cast must be applied to z[unique_ind] (keep-last happens BEFORE the status filter)
                base = v.func.value
                if not (isinstance(base, ast.Subscript) and isinstance(base.value, ast.Name) and base.value.id == 'z'
                        and isinstance(base.slice, ast.Name) and base.slice.id == 'unique_ind'):
                    raise TranslateError('%s: status is not z[unique_ind].astype(...)' % rel)
                width = int(m.group(1))
            if (tgt == 'unique_ind' and isinstance(v, ast.Subscript) and isinstance(v.value, ast.Name)
                    and v.value.id == 'unique_ind'):
                if valid is not None:
                    raise TranslateError('%s: more than one status filter' % rel)
                valid = _flatten_or(v.slice, rel)
    if width is None or valid is None:
        raise TranslateError('%s: status cast / status filter not found in remove_duplicates_and_invalid_values' % rel)
    out.append('Definition sensor_status_width : nat := %d%%nat.' % width)
    out.append('Definition sensor_valid_statuses : list string := %s.' % coq_strings(tuple(valid)))


ITEMS = [item_sensor_statuses]


# ---------------------------------------------------------------------------------------------------------------
# SensorCache._get_props: the wildcard property merge.  The whole body must have the shape
#     props = prop_map.setdefault(name, {})
#     for key, val in prop_map.items():
#         if W in key:
#             regex = J.join(re.escape(part) for part in key.split(W))
#             if re.<fn>([P +] regex [+ S], name):
#                 props.update(val)
#     props.update(kwargs)
#     return props
# and the facts the hand-written `glob` / `get_props` of Model/SensorCache.v rely on are emitted: the wildcard
# character W, the regex J standing for it, whether literal parts are escaped, whether the match is anchored at the
# start and at the END of the sensor name, and the merge order.
def _expect(cond, msg):
    if not cond:
        raise TranslateError('katdal/sensordata.py:_get_props: ' + msg)


def _flatten_add(node):
    if isinstance(node, ast.BinOp) and isinstance(node.op, ast.Add):
        return _flatten_add(node.left) + _flatten_add(node.right)
    return [node]


def _is_call(node, obj, attr, nargs):
    return (isinstance(node, ast.Call) and isinstance(node.func, ast.Attribute) and node.func.attr == attr
            and isinstance(node.func.value, ast.Name) and node.func.value.id == obj
            and len(node.args) == nargs and not node.keywords)


def item_sensor_wildcards(repo, out):
    rel = 'katdal/sensordata.py'
    tree = _parse(repo, rel)
    cls = [n for n in tree.body if isinstance(n, ast.ClassDef) and n.name == 'SensorCache']
    _expect(len(cls) == 1, 'class SensorCache not found')
    fns = [n for n in cls[0].body if isinstance(n, ast.FunctionDef) and n.name == '_get_props']
    _expect(len(fns) == 1, 'expected exactly one method _get_props')
    fn = fns[0]
    a = fn.args
    _expect([x.arg for x in a.args] == ['name', 'prop_map'] and a.kwarg is not None and a.kwarg.arg == 'kwargs'
            and a.vararg is None and not a.kwonlyargs and not a.defaults, 'signature is not (name, prop_map, **kwargs)')
    body = list(fn.body)
    if body and isinstance(body[0], ast.Expr) and isinstance(body[0].value, ast.Constant) \
            and isinstance(body[0].value.value, str):
        body = body[1:]
    _expect(len(body) == 4, 'body is not: setdefault / for / update(kwargs) / return (%d statements)' % len(body))
    s0, loop, s2, s3 = body
    _expect(isinstance(s0, ast.Assign) and len(s0.targets) == 1 and isinstance(s0.targets[0], ast.Name)
            and s0.targets[0].id == 'props' and _is_call(s0.value, 'prop_map', 'setdefault', 2)
            and isinstance(s0.value.args[0], ast.Name) and s0.value.args[0].id == 'name'
            and isinstance(s0.value.args[1], ast.Dict) and not s0.value.args[1].keys,
            'first statement is not `props = prop_map.setdefault(name, {})`')
    _expect(isinstance(s2, ast.Expr) and _is_call(s2.value, 'props', 'update', 1)
            and isinstance(s2.value.args[0], ast.Name) and s2.value.args[0].id == 'kwargs',
            'kwargs are not merged last by `props.update(kwargs)`')
    _expect(isinstance(s3, ast.Return) and isinstance(s3.value, ast.Name) and s3.value.id == 'props',
            'does not `return props`')
    _expect(isinstance(loop, ast.For) and not loop.orelse and isinstance(loop.target, ast.Tuple)
            and [getattr(e, 'id', None) for e in loop.target.elts] == ['key', 'val']
            and _is_call(loop.iter, 'prop_map', 'items', 0) and len(loop.body) == 1,
            'loop is not `for key, val in prop_map.items():` with a single statement')
    guard = loop.body[0]
    _expect(isinstance(guard, ast.If) and not guard.orelse and isinstance(guard.test, ast.Compare)
            and len(guard.test.ops) == 1 and isinstance(guard.test.ops[0], ast.In)
            and isinstance(guard.test.left, ast.Constant) and isinstance(guard.test.left.value, str)
            and isinstance(guard.test.comparators[0], ast.Name) and guard.test.comparators[0].id == 'key'
            and len(guard.body) == 2, 'wildcard guard is not `if <const> in key:` with two statements')
    wild = guard.test.left.value
    mk, test = guard.body
    _expect(isinstance(mk, ast.Assign) and len(mk.targets) == 1 and isinstance(mk.targets[0], ast.Name)
            and mk.targets[0].id == 'regex', 'regex is not assigned first')
    j = mk.value
    _expect(isinstance(j, ast.Call) and isinstance(j.func, ast.Attribute) and j.func.attr == 'join'
            and isinstance(j.func.value, ast.Constant) and isinstance(j.func.value.value, str)
            and len(j.args) == 1 and not j.keywords and isinstance(j.args[0], (ast.GeneratorExp, ast.ListComp))
            and len(j.args[0].generators) == 1, 'regex is not `<const>.join(<comprehension>)`')
    join = j.func.value.value
    gen = j.args[0].generators[0]
    _expect(isinstance(gen.target, ast.Name) and gen.target.id == 'part' and not gen.ifs
            and _is_call(gen.iter, 'key', 'split', 1) and isinstance(gen.iter.args[0], ast.Constant)
            and gen.iter.args[0].value == wild, 'parts are not `for part in key.split(%r)`' % wild)
    elt = j.args[0].elt
    if _is_call(elt, 're', 'escape', 1) and isinstance(elt.args[0], ast.Name) and elt.args[0].id == 'part':
        escaped = True
    elif isinstance(elt, ast.Name) and elt.id == 'part':
        escaped = False
    else:
        _expect(False, 'literal part is neither `re.escape(part)` nor `part`')
    _expect(isinstance(test, ast.If) and not test.orelse and len(test.body) == 1
            and isinstance(test.body[0], ast.Expr) and _is_call(test.body[0].value, 'props', 'update', 1)
            and isinstance(test.body[0].value.args[0], ast.Name) and test.body[0].value.args[0].id == 'val',
            'a matching entry is not merged by `props.update(val)`')
    m = test.test
    _expect(isinstance(m, ast.Call) and isinstance(m.func, ast.Attribute) and isinstance(m.func.value, ast.Name)
            and m.func.value.id == 're' and m.func.attr in ('match', 'fullmatch', 'search') and len(m.args) == 2
            and not m.keywords and isinstance(m.args[1], ast.Name) and m.args[1].id == 'name',
            'match test is not re.match/fullmatch/search(<pattern>, name) without flags')
    pieces = _flatten_add(m.args[0])
    idx = [i for i, p in enumerate(pieces) if isinstance(p, ast.Name) and p.id == 'regex']
    _expect(len(idx) == 1 and all(isinstance(p, ast.Constant) and isinstance(p.value, str)
                                  for i, p in enumerate(pieces) if i != idx[0]),
            'pattern is not [const +] regex [+ const]')
    prefix = ''.join(p.value for p in pieces[:idx[0]])
    suffix = ''.join(p.value for p in pieces[idx[0] + 1:])
    _expect(prefix in ('', '^') and suffix in ('', '$'), 'unexpected pattern decoration %r ... %r' % (prefix, suffix))
    start = prefix == '^' or m.func.attr in ('match', 'fullmatch')
    end = suffix == '$' or m.func.attr == 'fullmatch'
    out.append('Definition sensor_wild_char : string := %s.' % coq_strings((wild,))[1:-1])
    out.append('Definition sensor_wild_join : string := %s.' % coq_strings((join,))[1:-1])
    out.append('Definition sensor_wild_escape : bool := %s.' % ('true' if escaped else 'false'))
    out.append('Definition sensor_wild_anchor_start : bool := %s.' % ('true' if start else 'false'))
    out.append('Definition sensor_wild_anchor_end : bool := %s.' % ('true' if end else 'false'))
    out.append('Definition sensor_props_merge_order : list string := %s.' % coq_strings(('name', 'wildcards', 'kwargs')))


ITEMS.append(item_sensor_wildcards)


# ---------------------------------------------------------------------------------------------------------------
# Built-in virtual sensors: the registries (dataset.DEFAULT_VIRTUAL_SENSORS and the VIRTUAL_SENSORS of every format
# module) and WHAT the registered functions read from the cache.  The model (Model/SensorVirt.v) gives a virtual
# sensor function the values of its source sensors and the dump timestamps, nothing else; the item checks that the
# first parameter `cache` of every registered function is only ever used as `cache.<attr>` / `cache[...]` and emits
# the set of attributes, so that a function that starts reading e.g. `cache.dump_period` (values depending on the
# nominal dump spacing instead of the timestamps) breaks a stated theorem.
VIRT_REGISTRIES = [('katdal/dataset.py', 'DEFAULT_VIRTUAL_SENSORS'), ('katdal/h5datav1.py', 'VIRTUAL_SENSORS'),
                   ('katdal/h5datav2.py', 'VIRTUAL_SENSORS'), ('katdal/h5datav3.py', 'VIRTUAL_SENSORS'),
                   ('katdal/visdatav4.py', 'VIRTUAL_SENSORS')]


def _dict_entries(node, what):
    if not (isinstance(node, ast.Dict) and all(isinstance(k, ast.Constant) and isinstance(k.value, str) for k in node.keys)
            and all(isinstance(v, ast.Name) for v in node.values)):
        raise TranslateError('%s: not a dict literal {"template": function_name, ...}' % what)
    return [(k.value, v.id) for k, v in zip(node.keys, node.values)]


def _registry(tree, var, rel):
    """[(template, function name)] added by this module to its registry `var`"""
    entries, seen = [], False
    for n in tree.body:
        if isinstance(n, ast.Assign) and len(n.targets) == 1 and isinstance(n.targets[0], ast.Name) and n.targets[0].id == var:
            if seen:
                raise TranslateError('%s: %s assigned more than once' % (rel, var))
            seen = True
            v = n.value
            if isinstance(v, ast.Dict):
                entries += _dict_entries(v, '%s:%s' % (rel, var))
            elif not (isinstance(v, ast.Call) and isinstance(v.func, ast.Name) and v.func.id == 'dict' and len(v.args) == 1
                      and not v.keywords and isinstance(v.args[0], ast.Name) and v.args[0].id == 'DEFAULT_VIRTUAL_SENSORS'):
                raise TranslateError('%s: %s is neither a dict literal nor dict(DEFAULT_VIRTUAL_SENSORS)' % (rel, var))
        elif isinstance(n, ast.Expr) and isinstance(n.value, ast.Call) and isinstance(n.value.func, ast.Attribute) \
                and isinstance(n.value.func.value, ast.Name) and n.value.func.value.id == var:
            c = n.value
            if not (seen and c.func.attr == 'update' and len(c.args) == 1 and not c.keywords):
                raise TranslateError('%s: unexpected call %s.%s(...)' % (rel, var, c.func.attr))
            entries += _dict_entries(c.args[0], '%s:%s.update' % (rel, var))
        else:
            for m in ast.walk(n):
                if isinstance(m, ast.Name) and m.id == var and isinstance(m.ctx, (ast.Store, ast.Del)):
                    raise TranslateError('%s: %s is modified in an unexpected place (line %d)' % (rel, var, m.lineno))
    if not seen:
        raise TranslateError('%s: %s not found' % (rel, var))
    return entries


def _cache_uses(fn, rel):
    """the ways the first parameter of a virtual sensor function is used: attribute names, getitem/setitem/delitem"""
    if not fn.args.args or fn.args.args[0].arg != 'cache':
        raise TranslateError('%s:%s: first parameter is not `cache`' % (rel, fn.name))
    parent = {}
    for p in ast.walk(fn):
        for ch in ast.iter_child_nodes(p):
            parent[ch] = p
    uses = set()
    for n in ast.walk(fn):
        if isinstance(n, ast.arg) and n.arg == 'cache' and n is not fn.args.args[0]:
            raise TranslateError('%s:%s: `cache` is rebound by an inner function' % (rel, fn.name))
        if not (isinstance(n, ast.Name) and n.id == 'cache'):
            continue
        p = parent.get(n)
        if not isinstance(n.ctx, ast.Load):
            raise TranslateError('%s:%s: `cache` is reassigned (line %d)' % (rel, fn.name, n.lineno))
        if isinstance(p, ast.Attribute) and p.value is n:
            if not isinstance(p.ctx, ast.Load):
                raise TranslateError('%s:%s: cache.%s is assigned to (line %d)' % (rel, fn.name, p.attr, n.lineno))
            uses.add(p.attr)
        elif isinstance(p, ast.Subscript) and p.value is n:
            uses.add({ast.Load: 'getitem', ast.Store: 'setitem', ast.Del: 'delitem'}[type(p.ctx)])
        else:
            raise TranslateError('%s:%s: `cache` is used as a whole (line %d), cannot tell what is read from it'
                                 % (rel, fn.name, n.lineno))
    return uses


def item_virtual_sensors(repo, out):
    templates, funcs, attrs = set(), set(), set()
    for rel, var in VIRT_REGISTRIES:
        tree = _parse(repo, rel)
        for template, fname in _registry(tree, var, rel):
            templates.add(template)
            funcs.add(fname)
            attrs |= _cache_uses(_find_func(tree, fname, rel), rel)
    out.append('Definition virtual_sensor_templates : list string := %s.' % coq_strings(tuple(sorted(templates))))
    out.append('Definition virtual_sensor_funcs : list string := %s.' % coq_strings(tuple(sorted(funcs))))
    out.append('Definition virtual_cache_attrs : list string := %s.' % coq_strings(tuple(sorted(attrs))))


ITEMS.append(item_virtual_sensors)


# ---------------------------------------------------------------------------------------------------------------
# Session 5: whole-function shape matching.  The katdal functions the hand-written model mirrors are compared,
# statement by statement, with a PATTERN written here as Python source; the constants the model uses are bound by
# placeholders and emitted into Generated.v.  Conventions of a pattern:
#   K_xxx  (a Name)       any constant (str / int / float / bool / None, a negated number, np.nan): bound, emitted
#   A_xxx  (an attribute) any attribute name: bound
#   MSG_x  (a Name)       any expression (only used for exception / log message arguments): not bound
#   X_xxx  (a Name)       any expression (translated by another item or irrelevant to the result): not bound
# Docstrings are dropped; DIAGNOSTIC statements (logger calls, assignments to `*_differs` names, and if / for
# statements consisting only of such statements) are dropped on both sides.  Everything else (statement order,
# operators, argument order, keyword names, default arguments, decorators) must be identical -> TranslateError.
class _NoMatch(Exception):
    pass


def _is_diag(st):
    if isinstance(st, ast.Expr) and isinstance(st.value, ast.Call):
        f = st.value.func
        return isinstance(f, ast.Attribute) and isinstance(f.value, ast.Name) and f.value.id == 'logger'
    if isinstance(st, ast.Assign):
        return all(isinstance(t, ast.Name) and t.id.endswith('_differs') for t in st.targets)
    if isinstance(st, (ast.If, ast.For)):
        return all(_is_diag(s) for s in st.body) and all(_is_diag(s) for s in st.orelse) and bool(st.body)
    return False


def _stmts(body):
    body = list(body)
    if body and isinstance(body[0], ast.Expr) and isinstance(body[0].value, ast.Constant) \
            and isinstance(body[0].value.value, str):
        body = body[1:]
    return [s for s in body if not _is_diag(s)]


def _const_of(node):
    if isinstance(node, ast.Constant):
        return True, node.value
    if isinstance(node, ast.UnaryOp) and isinstance(node.op, ast.USub) and isinstance(node.operand, ast.Constant) \
            and isinstance(node.operand.value, (int, float)) and not isinstance(node.operand.value, bool):
        return True, -node.operand.value
    if isinstance(node, ast.Attribute) and isinstance(node.value, ast.Name) and node.value.id == 'np' and node.attr == 'nan':
        return True, 'np.nan'
    return False, None


def _unify(p, a, env, where):
    if isinstance(p, ast.Name) and p.id.startswith('K_'):
        ok, v = _const_of(a)
        if not ok:
            raise _NoMatch('%s: expected a constant for %s, found %s' % (where, p.id, ast.dump(a)[:80]))
        if p.id in env and (env[p.id] != v or type(env[p.id]) is not type(v)):
            raise _NoMatch('%s: %s bound to both %r and %r' % (where, p.id, env[p.id], v))
        env[p.id] = v
        return
    if isinstance(p, ast.Name) and (p.id.startswith('MSG_') or p.id.startswith('X_')):
        if not isinstance(a, ast.expr):
            raise _NoMatch('%s: expected an expression for %s' % (where, p.id))
        return
    if type(p) is not type(a):
        raise _NoMatch('%s: expected %s, found %s (line %s)' % (where, type(p).__name__, type(a).__name__,
                                                               getattr(a, 'lineno', '?')))
    for field in p._fields:
        if field in ('type_comment', 'kind', 'ctx', 'type_params'):
            continue
        pv, av = getattr(p, field, None), getattr(a, field, None)
        w = '%s.%s' % (where, field)
        if field == 'attr' and isinstance(pv, str) and pv.startswith('A_'):
            if pv in env and env[pv] != av:
                raise _NoMatch('%s: %s bound to both %r and %r' % (w, pv, env[pv], av))
            env[pv] = av
            continue
        if field in ('body', 'orelse', 'finalbody') and isinstance(pv, list):
            pv, av = _stmts(pv), _stmts(av)
        if isinstance(pv, list):
            if not isinstance(av, list) or len(pv) != len(av):
                raise _NoMatch('%s: expected %d element(s), found %d (line %s)'
                               % (w, len(pv), len(av) if isinstance(av, list) else -1, getattr(a, 'lineno', '?')))
            for i, (x, y) in enumerate(zip(pv, av)):
                if isinstance(x, ast.AST):
                    _unify(x, y, env, '%s[%d]' % (w, i))
                elif x != y:
                    raise _NoMatch('%s[%d]: %r != %r' % (w, i, x, y))
        elif isinstance(pv, ast.AST):
            if not isinstance(av, ast.AST):
                raise _NoMatch('%s: missing' % w)
            _unify(pv, av, env, w)
        elif pv != av:
            raise _NoMatch('%s: expected %r, found %r (line %s)' % (w, pv, av, getattr(a, 'lineno', '?')))
    if isinstance(p, (ast.Name, ast.Attribute, ast.Subscript)) and type(p.ctx) is not type(a.ctx):
        raise _NoMatch('%s: load/store context differs' % where)


def _match_function(repo, rel, qualname, pattern_src):
    """unify the function `qualname` (`f` or `Class.f`) of `rel` with the pattern; returns the bindings"""
    tree = _parse(repo, rel)
    scope = tree
    parts = qualname.split('.')
    if len(parts) == 2:
        cls = [n for n in tree.body if isinstance(n, ast.ClassDef) and n.name == parts[0]]
        if len(cls) != 1:
            raise TranslateError('%s: class %s not found' % (rel, parts[0]))
        scope = cls[0]
    fns = [n for n in scope.body if isinstance(n, ast.FunctionDef) and n.name == parts[-1]]
    if len(fns) != 1:
        raise TranslateError('%s: expected exactly one function %s' % (rel, qualname))
    import textwrap
    pat = ast.parse(textwrap.dedent(pattern_src)).body[0]
    env = {}
    try:
        _unify(pat, fns[0], env, qualname)
    except _NoMatch as e:
        raise TranslateError('%s: %s no longer has the shape the model mirrors: %s' % (rel, qualname, e))
    return env


def _coq_bool(b):
    if not isinstance(b, bool):
        raise TranslateError('expected True/False, found %r' % (b,))
    return 'true' if b else 'false'


def _coq_int(v, what):
    if isinstance(v, bool) or not isinstance(v, (int, float)) or v != int(v):
        raise TranslateError('%s: expected an integral number, found %r' % (what, v))
    return coq_Z(int(v))


def _coq_str(v, what):
    if not isinstance(v, str):
        raise TranslateError('%s: expected a string, found %r' % (what, v))
    return coq_strings((v,))[1:-1]


P_CLEANUP = '''
def remove_duplicates_and_invalid_values(sensor):
    x = sensor.timestamp
    y = sensor.value
    z = sensor.status
    sort_ind = np.argsort(x, kind=K_sort)
    x = x[sort_ind]
    y = y[sort_ind]
    if z is not None:
        z = z[sort_ind]
    last_of_run = np.asarray(list(np.diff(x) != K_zero) + [K_last])
    unique_ind = last_of_run.nonzero()[0]
    replacement = unique_ind[len(unique_ind) - np.cumsum(last_of_run[::-1])[::-1]]
    if z is not None:
        status = z[unique_ind].astype(K_cast)
        unique_ind = unique_ind[X_filter]
    return SensorData(sensor.name, x[unique_ind], y[unique_ind])
'''

P_DUMMY = '''
def dummy_sensor_getter(name, value=None, dtype=np.float64, timestamp=K_ts):
    if value is None:
        if np.issubdtype(dtype, np.floating):
            value = np.dtype(dtype).type(K_float)
        elif np.issubdtype(dtype, np.integer):
            value = np.array(K_int).astype(dtype)[()]
        elif np.issubdtype(dtype, np.bytes_) or np.issubdtype(dtype, np.str_):
            value = K_str
        elif np.issubdtype(dtype, np.bool_):
            value = K_bool
    else:
        dtype = infer_dtype([value])
    if dtype == object:
        value = ComparableArrayWrapper(value)
    return SimpleSensorGetter(name, np.array([timestamp]), np.array([value]))
'''

P_EXTRACT = '''
@staticmethod
def _extract(sensor_getter, timestamps, dump_period, **props):
    sensor_data = sensor_getter.get()
    if sensor_data:
        time_offset = props.get('time_offset', K_off)
        sensor_data = SensorData(sensor_data.name, sensor_data.timestamp + time_offset,
                                 sensor_data.value, sensor_data.status)
        sensor_data = remove_duplicates_and_invalid_values(sensor_data)
    if not sensor_data:
        sensor_data = dummy_sensor_getter(sensor_data.name, value=props.get('initial_value'),
                                          dtype=sensor_data.value.dtype).get()
    categ = props.get('categorical', not np.issubdtype(sensor_data.value.dtype, np.floating))
    props['categorical'] = categ
    if categ:
        sensor_data = sensor_to_categorical(sensor_data.timestamp, sensor_data.value,
                                            timestamps, dump_period, **props)
    else:
        sensor_timestamps = sensor_data.timestamp
        sensor_data = np.interp(timestamps, sensor_timestamps, sensor_data.value)
    return sensor_data
'''

P_GET = '''
def get(self, name, select=K_select, extract=K_extract, **kwargs):
    if select and not extract:
        raise ValueError(MSG_1)
    with self._lock:
        try:
            sensor_data = self._raw[name]
        except KeyError:
            for pattern, create_sensor in self.virtual.items():
                pattern = re.sub(K_varpat, lambda m: K_varfmt.format(m.group(0)[1:-1]), pattern)
                match = re.A_matchfn(pattern, name)
                if match:
                    sensor_data = create_sensor(self, name, **match.groupdict())
                    break
            else:
                if self.store:
                    start_time = self.timestamps[0] - self.dump_period - K_before
                    end_time = self.timestamps[-1] + self.dump_period + K_after
                    sensor_data = get_sensor_from_katstore(self.store, name, start_time, end_time)
                else:
                    raise KeyError(MSG_2)
        if isinstance(sensor_data, SensorGetter) and extract:
            props = self._get_props(name, self.props, **kwargs)
            self.timestamps = self.timestamps[:] if not isinstance(self.timestamps, np.ndarray) else self.timestamps
            sensor_data = self._extract(sensor_data, self.timestamps, self.dump_period, **props)
            self._raw[name] = sensor_data
    return sensor_data[self.keep] if select else sensor_data
'''

P_GETITEM = '''
def __getitem__(self, name):
    return self.get(name, select=K_sel)
'''

P_SETKEEP = '''
def _set_keep(self, keep=None):
    if keep is not None:
        self.keep = keep
'''

P_INIT = '''
def __init__(self, cache, timestamps, dump_period, keep=slice(None), props=None, virtual={}, aliases={}, store=None):
    super().__init__()
    self._lock = threading.RLock()
    self._raw = dict(cache)
    self.timestamps = timestamps
    self.dump_period = dump_period
    self.keep = keep
    self.props = props if props is not None else {}
    self.virtual = virtual
    for alias, original in aliases.items():
        self.add_aliases(alias, original)
    self.store = store
'''

P_ALIASES = '''
def add_aliases(self, alias, original):
    for name, data in list(self._raw.items()):
        if name.endswith(original):
            self._raw[name.replace(original, alias)] = data
'''

P_SETITEM = '''
def __setitem__(self, key, item):
    with self._lock:
        self._raw[key] = item
'''

P_DELITEM = '''
def __delitem__(self, key):
    with self._lock:
        del self._raw[key]
'''

P_KATSTORE = '''
def get_sensor_from_katstore(store, name, start_time, end_time):
    if not str.isidentifier(name):
        raise KeyError(MSG_1)
    with requests.Session() as session:
        url = MSG_2
        params = {'sensor': name, 'start_time': start_time, 'end_time': end_time,
                  'limit': K_limit, 'include_value_time': K_ivt}
        try:
            response = session.get(url, params=params)
        except requests.exceptions.ConnectionError as exc:
            err = ConnectionError(MSG_3)
            raise err from exc
        with response:
            try:
                response.raise_for_status()
                sensor_data = response.json()['data']
                samples = [(rec['value_time'], rec['value'], rec['status'])
                           for rec in sensor_data if rec['sensor'] == name]
            except (ValueError, IndexError, TypeError, KeyError,
                    requests.exceptions.RequestException) as exc:
                err = RuntimeError(MSG_4)
                raise err from exc
        if not samples:
            raise KeyError(MSG_5)
        samples = np.rec.fromrecords(samples, names='timestamp,value,status')
        return RecordSensorGetter(samples, name)
'''

P_COMMON_DTYPE = '''
def common_dtype(sensor_data_sequence):
    dtypes = [sd.dtype for sd in sensor_data_sequence]
    return np.result_type(*dtypes) if dtypes else None
'''

P_CGET_PARTS = '''
def _get(self, name, **kwargs):
    split_data = []
    for cache in self.caches:
        try:
            sensor_data = cache.get(name, **kwargs)
        except KeyError:
            split_data.append(None)
        else:
            split_data.append(sensor_data)
    return split_data
'''

P_CGET = '''
def get(self, name, select=K_select, extract=K_extract, **kwargs):
    split_data = self._get(name, select=select, extract=extract, **kwargs)
    if all(sd is None for sd in split_data):
        raise KeyError(MSG_1)
    if not extract and not all(sd is None or isinstance(sd, SensorGetter) for sd in split_data):
        extract = True
        split_data = self._get(name, select=select, extract=extract, **kwargs)
    if not extract:
        split_data = [sd for sd in split_data if sd is not None]
        return ConcatenatedSensorGetter(split_data)
    with self._lock:
        props = self._get_props(name, self.props, **kwargs)
    if any(sd is None for sd in split_data):
        if select:
            split_data2 = self._get(name, select=False, extract=True, **kwargs)
        else:
            split_data2 = split_data
        split_data2 = [sd for sd in split_data2 if sd is not None]
        dtype = common_dtype(split_data2)
        dummy = dummy_sensor_getter(name, value=props.get('initial_value'), dtype=dtype)
        as_array = not np.issubdtype(dtype, np.floating) and \\
            not any(isinstance(sd, CategoricalData) for sd in split_data2)
        for i, cache in enumerate(self.caches):
            if split_data[i] is None:
                filler = self._extract(dummy, cache.timestamps, cache.dump_period, **props)
                if as_array and isinstance(filler, CategoricalData):
                    filler = np.array(filler[:])
                cache[name] = filler
                split_data[i] = cache.get(name, select=select, extract=True, **kwargs)
    if any(isinstance(sd, CategoricalData) for sd in split_data):
        return concatenate_categorical(split_data, **props)
    else:
        if any(isinstance(sd, np.ndarray) for sd in split_data):
            return np.concatenate(split_data)
        else:
            return sum(split_data, [])
'''

P_CSETKEEP = '''
def _set_keep(self, keep=None):
    if keep is not None:
        self.keep = keep
        for n, cache in enumerate(self.caches):
            cache._set_keep(keep[self._segments[n]:self._segments[n + 1]])
'''

P_CSETITEM = '''
def __setitem__(self, name, data):
    if isinstance(data, CategoricalData):
        split_data = data.partition(self._segments)
        for n, cache in enumerate(self.caches):
            cache[name] = split_data[n]
    else:
        for n, cache in enumerate(self.caches):
            cache[name] = data[self._segments[n]:self._segments[n + 1]]
'''


P_CALC_DELAY = '''
def _calc_delay(cache, name, inp):
    stream = cache.get('Correlator/antenna_channelised_voltage_stream')[0]
    sync_time = cache.get('Correlator/sync_time')[0]
    scale_factor_timestamp = cache.get('Correlator/scale_factor_timestamp')[0]
    getter = cache.get(f'{stream}_{inp}_delay', extract=False)
    sensor_data = getter.get()
    values = [ComparableArrayWrapper.unwrap(v) for v in sensor_data.value]
    adc_sample_counts, delays, delay_rates, phases, phase_rates = zip(*values)
    times = sync_time + np.array(adc_sample_counts) / scale_factor_timestamp
    final_time = max(times[-1], cache.timestamps[-1]) + K_pad
    next_times = np.r_[times[1:] - K_eps, final_time]
    next_delays = delays + delay_rates * (next_times - times)
    next_phases = phases + phase_rates * (next_times - times)
    times = np.c_[times, next_times].ravel()
    delays = np.c_[delays, next_delays].ravel()
    phases = np.c_[phases, next_phases].ravel()
    delay_data = SimpleSensorGetter(name, times, delays)
    phase_data = SimpleSensorGetter(name, times, phases)
    cache[name.replace('applied_phase', 'applied_delay')] = delay_data
    cache[name.replace('applied_delay', 'applied_phase')] = phase_data
    return delay_data if name.endswith('delay') else phase_data
'''


def item_v4_delay_shape(repo, out):
    e = _match_function(repo, 'katdal/visdatav4.py', '_calc_delay', P_CALC_DELAY)
    eps = e['K_eps']
    if isinstance(eps, bool) or not isinstance(eps, (int, float)) or eps <= 0 or abs(round(1 / eps) * eps - 1) > 1e-9:
        raise TranslateError('katdal/visdatav4.py:_calc_delay: interpolation end point offset %r is not 1/N' % (eps,))
    out.append('Definition v4_delay_eps_inv : Z := %s.' % coq_Z(int(round(1 / eps))))
    out.append('Definition v4_delay_final_pad : Z := %s.' % _coq_int(e['K_pad'], 'final_time padding'))
    out.append('Definition v4_delay_steps : list string := %s.'
               % coq_strings(('times=sync+count/scale', 'final=max(last update,last dump)+pad', 'next_times=times[1:]-eps,final',
                              'next=value+rate*(next_times-times)', 'interleave', 'store delay and phase getters')))


ITEMS.append(item_v4_delay_shape)


def item_sensor_api_shape(repo, out):
    sd, cd = 'katdal/sensordata.py', 'katdal/concatdata.py'
    e = _match_function(repo, sd, 'remove_duplicates_and_invalid_values', P_CLEANUP)
    if e['K_zero'] != 0 or isinstance(e['K_zero'], bool) or e['K_last'] is not True:
        raise TranslateError('%s: last_of_run is not `list(np.diff(x) != 0) + [True]`' % sd)
    m = re.fullmatch(r'\|?S(\d+)', str(e['K_cast']))
    if not m:
        raise TranslateError('%s: unexpected status cast %r' % (sd, e['K_cast']))
    out.append('Definition sensor_sort_kind : string := %s.' % _coq_str(e['K_sort'], 'argsort kind'))
    out.append('Definition sensor_dup_rule : string := "last"%string.')
    e = _match_function(repo, sd, 'dummy_sensor_getter', P_DUMMY)
    out.append('Definition sensor_dummy_float_is_nan : bool := %s.' % ('true' if e['K_float'] == 'np.nan' else 'false'))
    if e['K_float'] != 'np.nan':
        raise TranslateError('%s: the float dummy value is %r, the model only knows NaN' % (sd, e['K_float']))
    out.append('Definition sensor_dummy_int : Z := %s.' % _coq_int(e['K_int'], 'integer dummy'))
    out.append('Definition sensor_dummy_str : string := %s.' % _coq_str(e['K_str'], 'string dummy'))
    out.append('Definition sensor_dummy_bool : bool := %s.' % _coq_bool(e['K_bool']))
    out.append('Definition sensor_dummy_timestamp : Z := %s.' % _coq_int(e['K_ts'], 'dummy timestamp'))
    out.append('Definition sensor_dummy_order : list string := %s.' % coq_strings(('floating', 'integer', 'string', 'bool')))
    e = _match_function(repo, sd, 'SensorCache._extract', P_EXTRACT)
    out.append('Definition sensor_offset_default : Z := %s.' % _coq_int(e['K_off'], 'time_offset default'))
    out.append('Definition sensor_extract_steps : list string := %s.'
               % coq_strings(('get', 'shift-copy', 'clean', 'dummy-if-empty', 'decide-categorical', 'interp')))
    e = _match_function(repo, sd, 'SensorCache.get', P_GET)
    out.append('Definition sensor_get_select_default : bool := %s.' % _coq_bool(e['K_select']))
    out.append('Definition sensor_get_extract_default : bool := %s.' % _coq_bool(e['K_extract']))
    out.append('Definition virtual_var_pattern : string := %s.' % _coq_str(e['K_varpat'], 'variable pattern'))
    out.append('Definition virtual_var_format : string := %s.' % _coq_str(e['K_varfmt'], 'variable format'))
    if e['A_matchfn'] not in ('match', 'fullmatch'):
        raise TranslateError('%s: template test is re.%s, expected match / fullmatch' % (sd, e['A_matchfn']))
    out.append('Definition virtual_match_fn : string := %s.' % _coq_str(e['A_matchfn'], 'match function'))
    out.append('Definition katstore_before : Z := %s.' % _coq_int(e['K_before'], 'katstore window'))
    out.append('Definition katstore_after : Z := %s.' % _coq_int(e['K_after'], 'katstore window'))
    out.append('Definition sensor_get_steps : list string := %s.'
               % coq_strings(('select-needs-extract', 'raw', 'virtual-templates-in-order', 'store-if-truthy', 'KeyError',
                              'extract-getter-and-cache', 'select-by-keep')))
    e = _match_function(repo, sd, 'SensorCache.__getitem__', P_GETITEM)
    out.append('Definition sensor_getitem_select : bool := %s.' % _coq_bool(e['K_sel']))
    _match_function(repo, sd, 'SensorCache._set_keep', P_SETKEEP)
    _match_function(repo, sd, 'SensorCache.__init__', P_INIT)
    out.append('Definition sensor_keep_default : string := "slice(None)"%string.')
    _match_function(repo, sd, 'SensorCache.add_aliases', P_ALIASES)
    _match_function(repo, sd, 'SensorCache.__setitem__', P_SETITEM)
    _match_function(repo, sd, 'SensorCache.__delitem__', P_DELITEM)
    out.append('Definition sensor_alias_rule : list string := %s.' % coq_strings(('endswith', 'replace')))
    _match_function(repo, sd, 'get_sensor_from_katstore', P_KATSTORE)
    out.append('Definition katstore_checks : list string := %s.'
               % coq_strings(('isidentifier', 'sensor==name', 'nonempty')))
    _match_function(repo, cd, 'common_dtype', P_COMMON_DTYPE)
    _match_function(repo, cd, 'ConcatenatedSensorCache._get', P_CGET_PARTS)
    e = _match_function(repo, cd, 'ConcatenatedSensorCache.get', P_CGET)
    out.append('Definition concat_get_select_default : bool := %s.' % _coq_bool(e['K_select']))
    out.append('Definition concat_get_extract_default : bool := %s.' % _coq_bool(e['K_extract']))
    _match_function(repo, cd, 'ConcatenatedSensorCache._set_keep', P_CSETKEEP)
    _match_function(repo, cd, 'ConcatenatedSensorCache.__setitem__', P_CSETITEM)
    out.append('Definition concat_fill_steps : list string := %s.'
               % coq_strings(('parts', 'KeyError-if-all-missing', 're-extract-if-partly-extracted', 'props',
                              'common-dtype-of-unselected-parts', 'dummy(initial_value,dtype)', 'extract-dummy-per-part',
                              'array-if-non-float-and-no-categorical', 'write-back', 'concatenate')))


ITEMS.append(item_sensor_api_shape)


# ---------------------------------------------------------------------------------------------------------------
# The virtual-sensor registries IN DICT ORDER (first matching template wins) and the regex subset their templates
# use: literal characters [A-Za-z0-9_/], classes [abc] of such characters, variables {ident}.  Anything else in a
# registered template (another metacharacter, a range, a negated class, a repeated variable name) fails closed -
# the model's matcher (Model/SensorTmpl.v) only knows this subset.
_T_LIT = set('abcdefghijklmnopqrstuvwxyzABCDEFGHIJKLMNOPQRSTUVWXYZ0123456789_/')


def _check_template(t, where):
    i, seen = 0, set()
    while i < len(t):
        c = t[i]
        if c == '{':
            j = t.find('}', i)
            ident = t[i + 1:j] if j > 0 else ''
            if not re.fullmatch(r'[a-zA-Z_][a-zA-Z0-9_]*', ident) or ident in seen:
                raise TranslateError('%s: template %r: bad or repeated variable at %d' % (where, t, i))
            seen.add(ident)
            i = j + 1
        elif c == '[':
            j = t.find(']', i)
            body = t[i + 1:j] if j > 0 else ''
            if not body or not set(body) <= (_T_LIT - {'/'}):
                raise TranslateError('%s: template %r: unsupported character class at %d' % (where, t, i))
            i = j + 1
        elif c in _T_LIT:
            i += 1
        else:
            raise TranslateError('%s: template %r: character %r is outside the modelled regex subset' % (where, t, c))


def item_virtual_registry_order(repo, out):
    trees = {rel: _parse(repo, rel) for rel, _ in VIRT_REGISTRIES}
    default = _registry(trees['katdal/dataset.py'], 'DEFAULT_VIRTUAL_SENSORS', 'katdal/dataset.py')
    regs = []
    for rel, var in VIRT_REGISTRIES:
        own = _registry(trees[rel], var, rel)
        entries = list(own) if rel == 'katdal/dataset.py' else list(default)
        if rel != 'katdal/dataset.py':
            for t, f in own:                      # dict.update: an existing key keeps its position
                if t in [x for x, _ in entries]:
                    entries = [(x, f if x == t else g) for x, g in entries]
                else:
                    entries.append((t, f))
        for t, _ in entries:
            _check_template(t, rel)
        if len({t for t, _ in entries}) != len(entries):
            raise TranslateError('%s: duplicate template key in a dict literal' % rel)
        regs.append((os.path.basename(rel)[:-3], entries))
    out.append('Definition virtual_registries : list (string * list (string * string)) :=')
    rows = []
    for mod, entries in regs:
        rows.append('  (%s, [%s])' % (coq_strings((mod,))[1:-1],
                                      '; '.join('(%s, %s)' % (coq_strings((t,))[1:-1], coq_strings((f,))[1:-1])
                                                for t, f in entries)))
    out.append('  [' + ';\n  '.join(r.strip() for r in rows) + '].')


ITEMS.append(item_virtual_registry_order)


# ---------------------------------------------------------------------------------------------------------------
# Extension round 2 (Model/SensorNum.v): the virtual sensors that are plain arithmetic, and in-place writes on the
# cached arrays of source sensors.
#   item_virtual_arith      `_calc_mjd` (dataset.py) and `_calc_azel` of the four format modules are unified with
#                           whole-function patterns (templates parsed by vh.translate.parse_template, i.e. in the same
#                           normal form as the katdal files); emits the conversion function, the name test that picks
#                           azimuth / elevation and the two real source sensor names per module; the numeric branch of
#                           `_extract` returns np.interp's result as it is (no cast): `sensor_numeric_cast`.
#   item_virtual_no_inplace every function registered as a virtual sensor: a name bound to (a view of) what
#                           `cache.get(...)` / `cache[...]` / `cache.timestamps` returned is an alias of a CACHED array;
#                           augmented assignment to it, item assignment into it, passing it as `out=`, calling an
#                           in-place ndarray method on it or handing it to np.copyto / np.put / np.place / np.putmask
#                           as the destination is an in-place write on a source sensor.  The count is emitted
#                           (`virtual_inplace_writes`); Model/SensorNum.virtual_ipv is true iff it is not 0.
from vh.translate import parse_template

P_CALC_MJD = '''
def _calc_mjd(cache, name):
    cache[name] = mjd = np.array([katpoint.Timestamp(t).to_mjd() for t in cache.timestamps[:]])
    return mjd
'''

P_CALC_AZEL_H5 = '''
def _calc_azel(cache, name, ant):
    base_name = K_az if name.endswith(K_suffix) else K_el
    real_sensor = f'Antennas/{ant}/{base_name}'
    cache[name] = sensor_data = katpoint.A_conv(cache.get(real_sensor))
    return sensor_data
'''

P_CALC_AZEL_V4 = '''
def _calc_azel(cache, name, ant):
    suffix = K_az if name.endswith(K_suffix) else K_el
    real_sensor = f'{ant}_pos_actual_scan_{suffix}'
    cache[name] = sensor_data = katpoint.A_conv(cache.get(real_sensor))
    return sensor_data
'''

P_EXTRACT_TAIL = '''
def f():
    sensor_data = np.interp(timestamps, sensor_timestamps, sensor_data.value)
'''


def _match_template(repo, rel, fname, pattern_src):
    """like _match_function for a module-level function, with the template in the translator's normal form"""
    import textwrap
    tree = _parse(repo, rel)
    fn = _find_func(tree, fname, rel)
    pat = parse_template(textwrap.dedent(pattern_src)).body[0]
    env = {}
    try:
        _unify(pat, fn, env, fname)
    except _NoMatch as e:
        raise TranslateError('%s: %s no longer has the shape the model mirrors: %s' % (rel, fname, e))
    return env


def item_virtual_arith(repo, out):
    _match_template(repo, 'katdal/dataset.py', '_calc_mjd', P_CALC_MJD)
    out.append('Definition mjd_steps : list string := %s.'
               % coq_strings(('per dump: katpoint.Timestamp(t).to_mjd()', 'over cache.timestamps[:]', 'stored under name')))
    rows, convs, suffixes = [], set(), set()
    for rel, pat, fmt in (('katdal/h5datav1.py', P_CALC_AZEL_H5, 'Antennas/{ant}/%s'),
                          ('katdal/h5datav2.py', P_CALC_AZEL_H5, 'Antennas/{ant}/%s'),
                          ('katdal/h5datav3.py', P_CALC_AZEL_H5, 'Antennas/{ant}/%s'),
                          ('katdal/visdatav4.py', P_CALC_AZEL_V4, '{ant}_pos_actual_scan_%s')):
        e = _match_template(repo, rel, '_calc_azel', pat)
        for k in ('K_az', 'K_el', 'K_suffix'):
            if not isinstance(e[k], str):
                raise TranslateError('%s:_calc_azel: %s is %r, expected a string' % (rel, k, e[k]))
        convs.add(e['A_conv'])
        suffixes.add(e['K_suffix'])
        rows.append((os.path.basename(rel)[:-3], fmt % e['K_az'], fmt % e['K_el']))
    if len(convs) != 1 or len(suffixes) != 1:
        raise TranslateError('_calc_azel: the format modules disagree on the conversion %r / the name test %r'
                             % (sorted(convs), sorted(suffixes)))
    conv = convs.pop()
    if conv not in ('deg2rad', 'rad2deg'):
        raise TranslateError('_calc_azel: conversion katpoint.%s is not modelled' % conv)
    out.append('Definition azel_convert : string := %s.' % _coq_str(conv, 'conversion'))
    out.append('Definition azel_az_suffix : string := %s.' % _coq_str(suffixes.pop(), 'name test'))
    out.append('Definition azel_sources : list (string * (string * string)) := [%s].'
               % '; '.join('(%s, (%s, %s))' % tuple(_coq_str(x, 'source name') for x in r) for r in rows))
    # the numeric branch of _extract: the result of np.interp is returned as it is (P_EXTRACT pins the whole function;
    # here the last assignment of the else-branch is looked at on its own so that the fact has a name in Generated.v)
    tree = _parse(repo, 'katdal/sensordata.py')
    cls = [n for n in tree.body if isinstance(n, ast.ClassDef) and n.name == 'SensorCache']
    fn = [n for n in (cls[0].body if cls else []) if isinstance(n, ast.FunctionDef) and n.name == '_extract']
    if len(fn) != 1:
        raise TranslateError('katdal/sensordata.py: SensorCache._extract not found')
    ifs = [s for s in _stmts(fn[0].body) if isinstance(s, ast.If) and isinstance(s.test, ast.Name) and s.test.id == 'categ']
    if len(ifs) != 1 or not ifs[0].orelse:
        raise TranslateError('katdal/sensordata.py:_extract: no `if categ: ... else: ...`')
    last = _stmts(ifs[0].orelse)[-1]
    pat = parse_template(P_EXTRACT_TAIL.strip()).body[0].body[0]
    try:
        _unify(pat, last, {}, '_extract.else[-1]')
    except _NoMatch as e:
        raise TranslateError('katdal/sensordata.py:_extract: the numeric branch does not end in '
                             '`sensor_data = np.interp(timestamps, sensor_timestamps, sensor_data.value)`: %s' % e)
    after = _stmts(fn[0].body)
    if not (isinstance(after[-1], ast.Return) and isinstance(after[-1].value, ast.Name) and after[-1].value.id == 'sensor_data'
            and after[-2] is ifs[0]):
        raise TranslateError('katdal/sensordata.py:_extract: something happens between the numeric branch and the return')
    out.append('Definition sensor_numeric_cast : string := ""%string.')
    out.append('Definition sensor_interp_args : list string := %s.'
               % coq_strings(('timestamps', 'sensor_timestamps', 'sensor_data.value')))


ITEMS.append(item_virtual_arith)


_INPLACE_METHODS = {'sort', 'fill', 'put', 'itemset', 'resize', 'partition', 'setfield', 'byteswap', 'clip_inplace'}
_INPLACE_NP = {'copyto', 'put', 'place', 'putmask', 'put_along_axis', 'fill_diagonal'}


def _cache_rooted(node):
    """expression that IS (a view of) something the cache handed out: cache.get(...)/cache[...]/cache.timestamps,
    possibly indexed / transposed"""
    while True:
        if isinstance(node, ast.Subscript):
            if isinstance(node.value, ast.Name) and node.value.id == 'cache':
                return True
            node = node.value
        elif isinstance(node, ast.Attribute) and node.attr in ('T', 'real', 'imag', 'flat'):
            node = node.value
        elif isinstance(node, ast.Call) and isinstance(node.func, ast.Attribute) and \
                node.func.attr in ('view', 'reshape', 'ravel', 'squeeze', 'transpose', 'swapaxes'):
            node = node.func.value
        else:
            break
    if isinstance(node, ast.Call) and isinstance(node.func, ast.Attribute) and isinstance(node.func.value, ast.Name) \
            and node.func.value.id == 'cache' and node.func.attr in ('get', 'get_with_fallback'):
        return True
    if isinstance(node, ast.Attribute) and isinstance(node.value, ast.Name) and node.value.id == 'cache' \
            and node.attr == 'timestamps':
        return True
    return False


def _root_name(node):
    while isinstance(node, (ast.Subscript, ast.Attribute)):
        node = node.value
    return node.id if isinstance(node, ast.Name) else None


def _inplace_writes(fn, rel):
    """[(line, what)] of in-place writes on arrays obtained from the cache, statements taken in source order"""
    tainted, found = set(), []

    def is_alias(expr):
        if _cache_rooted(expr):
            return True
        r = expr
        while isinstance(r, (ast.Subscript, ast.Attribute)):
            if isinstance(r, ast.Attribute) and r.attr not in ('T', 'real', 'imag', 'flat'):
                return False
            r = r.value
        return isinstance(r, ast.Name) and r.id in tainted

    def bind(target, value):
        if isinstance(target, ast.Name):
            (tainted.add if is_alias(value) else tainted.discard)(target.id)
        elif isinstance(target, (ast.Tuple, ast.List)):
            vals = value.elts if isinstance(value, (ast.Tuple, ast.List)) and len(value.elts) == len(target.elts) else None
            for i, t in enumerate(target.elts):
                if vals is not None:
                    bind(t, vals[i])
                elif isinstance(t, ast.Name):
                    (tainted.add if is_alias(value) else tainted.discard)(t.id)

    def calls(node):
        for c in ast.walk(node):
            if not isinstance(c, ast.Call):
                continue
            for kw in c.keywords:
                if kw.arg == 'out':
                    outs = kw.value.elts if isinstance(kw.value, (ast.Tuple, ast.List)) else [kw.value]
                    for o in outs:
                        if is_alias(o):
                            found.append((c.lineno, 'out=%s' % ast.unparse(o)))
            f = c.func
            if isinstance(f, ast.Attribute) and f.attr in _INPLACE_METHODS and is_alias(f.value):
                found.append((c.lineno, '%s.%s()' % (ast.unparse(f.value), f.attr)))
            if isinstance(f, ast.Attribute) and isinstance(f.value, ast.Name) and f.value.id in ('np', 'numpy'):
                if f.attr in _INPLACE_NP and c.args and is_alias(c.args[0]):
                    found.append((c.lineno, 'np.%s(%s, ...)' % (f.attr, ast.unparse(c.args[0]))))
                elif len(c.args) >= 2 and is_alias(c.args[-1]) and f.attr not in _INPLACE_NP and \
                        any(ast.dump(a) == ast.dump(c.args[-1]) for a in c.args[:-1]):
                    found.append((c.lineno, 'np.%s(..., %s) with the input as positional out' % (f.attr, ast.unparse(c.args[-1]))))

    def walk(stmts):
        for st in stmts:
            if isinstance(st, ast.Assign):
                calls(st.value)
                for t in st.targets:
                    if isinstance(t, (ast.Subscript, ast.Attribute)) and _root_name(t) in tainted:
                        found.append((st.lineno, '%s = ...' % ast.unparse(t)))
                for t in st.targets:
                    bind(t, st.value)
            elif isinstance(st, ast.AugAssign):
                calls(st.value)
                if _root_name(st.target) in tainted or _cache_rooted(st.target):
                    found.append((st.lineno, '%s %s= ...' % (ast.unparse(st.target), type(st.op).__name__)))
            elif isinstance(st, ast.AnnAssign):
                if st.value is not None:
                    calls(st.value)
                    bind(st.target, st.value)
            elif isinstance(st, (ast.If, ast.While)):
                calls(st.test)
                walk(st.body)
                walk(st.orelse)
            elif isinstance(st, ast.For):
                calls(st.iter)
                bind(st.target, ast.Constant(None))
                walk(st.body)
                walk(st.orelse)
            elif isinstance(st, ast.With):
                walk(st.body)
            elif isinstance(st, ast.Try):
                walk(st.body)
                for h in st.handlers:
                    walk(h.body)
                walk(st.orelse)
                walk(st.finalbody)
            elif isinstance(st, (ast.Return, ast.Expr)):
                if st.value is not None:
                    calls(st.value)
            elif isinstance(st, (ast.Pass, ast.Raise, ast.Assert, ast.Import, ast.ImportFrom, ast.Break, ast.Continue)):
                pass
            else:
                raise TranslateError('%s:%s: statement %s (line %d) is not understood by the in-place analysis'
                                     % (rel, fn.name, type(st).__name__, st.lineno))
    walk(fn.body)
    return found


def item_virtual_no_inplace(repo, out):
    total, where, seen = 0, [], set()
    for rel, var in VIRT_REGISTRIES:
        tree = _parse(repo, rel)
        for _template, fname in _registry(tree, var, rel):
            if (rel, fname) in seen:
                continue
            seen.add((rel, fname))
            for line, what in _inplace_writes(_find_func(tree, fname, rel), rel):
                total += 1
                where.append('%s:%s:%d %s' % (rel, fname, line, what))
    out.append('(* in-place writes on cached source arrays found in the registered virtual sensor functions: %s *)'
               % ('; '.join(where).replace('*)', '* )') if where else 'none'))
    out.append('Definition virtual_inplace_writes : Z := %s.' % coq_Z(total))
    out.append('Definition virtual_functions_checked : Z := %s.' % coq_Z(len(seen)))


ITEMS.append(item_virtual_no_inplace)
