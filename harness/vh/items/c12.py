"""C12 translator items: the readable sensor statuses and the status width used by
sensordata.remove_duplicates_and_invalid_values (fail-closed on any other shape)."""
import ast
import re

from vh.translate import TranslateError, _parse, coq_strings


def _find_func(tree, name, rel):
    found = [n for n in tree.body if isinstance(n, ast.FunctionDef) and n.name == name]
    if len(found) != 1:
        raise TranslateError('%s: expected exactly one function %s' % (rel, name))
    return found[0]


def _flatten_or(node, what):
    if isinstance(node, ast.BinOp) and isinstance(node.op, ast.BitOr):
        return _flatten_or(node.left, what) + _flatten_or(node.right, what)
    if (isinstance(node, ast.Compare) and len(node.ops) == 1 and isinstance(node.ops[0], ast.Eq)
            and isinstance(node.left, ast.Name) and node.left.id == 'status'
            and isinstance(node.comparators[0], ast.Constant) and isinstance(node.comparators[0].value, bytes)):
        return [node.comparators[0].value.decode('ascii')]
    raise TranslateError('%s: status filter is not an OR of `status == b"..."`: %s' % (what, ast.dump(node)[:100]))


def item_sensor_statuses(repo, out):
    rel = 'katdal/sensordata.py'
    tree = _parse(repo, rel)
    fn = _find_func(tree, 'remove_duplicates_and_invalid_values', rel)
    width = None
    valid = None
    for n in ast.walk(fn):
        if isinstance(n, ast.Assign) and len(n.targets) == 1 and isinstance(n.targets[0], ast.Name):
            tgt = n.targets[0].id
            v = n.value
            if (tgt == 'status' and isinstance(v, ast.Call) and isinstance(v.func, ast.Attribute)
                    and v.func.attr == 'astype' and len(v.args) == 1 and isinstance(v.args[0], ast.Constant)):
                m = re.fullmatch(r'\|?S(\d+)', str(v.args[0].value))
                if not m or width is not None:
                    raise TranslateError('%s: unexpected status cast %r' % (rel, v.args[0].value))
                # the cast must be applied to z[unique_ind] (keep-last happens BEFORE the status filter)
                base = v.func.value
                if not (isinstance(base, ast.Subscript) and isinstance(base.value, ast.Name) and base.value.id == 'z'
                        and isinstance(base.slice, ast.Name) and base.slice.id == 'unique_ind'):
                    raise TranslateError('%s: status is not z[unique_ind].astype(...)' % rel)
                width = int(m.group(1))
            if (tgt == 'unique_ind' and isinstance(v, ast.Subscript) and isinstance(v.value, ast.Name)
                    and v.value.id == 'unique_ind'):
                if valid is not None:
                    raise TranslateError('%s: more than one status filter' % rel)
                valid = _flatten_or(v.slice, rel)
    if width is None or valid is None:
        raise TranslateError('%s: status cast / status filter not found in remove_duplicates_and_invalid_values' % rel)
    out.append('Definition sensor_status_width : nat := %d%%nat.' % width)
    out.append('Definition sensor_valid_statuses : list string := %s.' % coq_strings(tuple(valid)))


ITEMS = [item_sensor_statuses]
