"""C12 translator items: the readable sensor statuses and the status width used by
sensordata.remove_duplicates_and_invalid_values (fail-closed on any other shape)."""
import ast
import re

from vh.translate import TranslateError, _parse, coq_strings


def _find_func(tree, name, rel):
    found = [n for n in tree.body if isinstance(n, ast.FunctionDef) and n.name == name]
    if len(found) != 1:
        raise TranslateError('%s: expected exactly one function %s' % (rel, name))
    return found[0]


def _flatten_or(node, what):
    if isinstance(node, ast.BinOp) and isinstance(node.op, ast.BitOr):
        return _flatten_or(node.left, what) + _flatten_or(node.right, what)
    if (isinstance(node, ast.Compare) and len(node.ops) == 1 and isinstance(node.ops[0], ast.Eq)
            and isinstance(node.left, ast.Name) and node.left.id == 'status'
            and isinstance(node.comparators[0], ast.Constant) and isinstance(node.comparators[0].value, bytes)):
        return [node.comparators[0].value.decode('ascii')]
    raise TranslateError('%s: status filter is not an OR of `status == b"..."`: %s' % (what, ast.dump(node)[:100]))


def item_sensor_statuses(repo, out):
    rel = 'katdal/sensordata.py'
    tree = _parse(repo, rel)
    fn = _find_func(tree, 'remove_duplicates_and_invalid_values', rel)
    width = None
    valid = None
    for n in ast.walk(fn):
        if isinstance(n, ast.Assign) and len(n.targets) == 1 and isinstance(n.targets[0], ast.Name):
            tgt = n.targets[0].id
            v = n.value
            if (tgt == 'status' and isinstance(v, ast.Call) and isinstance(v.func, ast.Attribute)
                    and v.func.attr == 'astype' and len(v.args) == 1 and isinstance(v.args[0], ast.Constant)):
                m = re.fullmatch(r'\|?S(\d+)', str(v.args[0].value))
                if not m or width is not None:
                    raise TranslateError('%s: unexpected status cast %r' % (rel, v.args[0].value))
                # the cast must be applied to z[unique_ind] (keep-last happens BEFORE the status filter)
                base = v.func.value
                if not (isinstance(base, ast.Subscript) and isinstance(base.value, ast.Name) and base.value.id == 'z'
                        and isinstance(base.slice, ast.Name) and base.slice.id == 'unique_ind'):
                    raise TranslateError('%s: status is not z[unique_ind].astype(...)' % rel)
                width = int(m.group(1))
            if (tgt == 'unique_ind' and isinstance(v, ast.Subscript) and isinstance(v.value, ast.Name)
                    and v.value.id == 'unique_ind'):
                if valid is not None:
                    raise TranslateError('%s: more than one status filter' % rel)
                valid = _flatten_or(v.slice, rel)
    if width is None or valid is None:
        raise TranslateError('%s: status cast / status filter not found in remove_duplicates_and_invalid_values' % rel)
    out.append('Definition sensor_status_width : nat := %d%%nat.' % width)
    out.append('Definition sensor_valid_statuses : list string := %s.' % coq_strings(tuple(valid)))


ITEMS = [item_sensor_statuses]


# ---------------------------------------------------------------------------------------------------------------
# SensorCache._get_props: the wildcard property merge.  The whole body must have the shape
#     props = prop_map.setdefault(name, {})
#     for key, val in prop_map.items():
#         if W in key:
#             regex = J.join(re.escape(part) for part in key.split(W))
#             if re.<fn>([P +] regex [+ S], name):
#                 props.update(val)
#     props.update(kwargs)
#     return props
# and the facts the hand-written `glob` / `get_props` of Model/SensorCache.v rely on are emitted: the wildcard
# character W, the regex J standing for it, whether literal parts are escaped, whether the match is anchored at the
# start and at the END of the sensor name, and the merge order.
def _expect(cond, msg):
    if not cond:
        raise TranslateError('katdal/sensordata.py:_get_props: ' + msg)


def _flatten_add(node):
    if isinstance(node, ast.BinOp) and isinstance(node.op, ast.Add):
        return _flatten_add(node.left) + _flatten_add(node.right)
    return [node]


def _is_call(node, obj, attr, nargs):
    return (isinstance(node, ast.Call) and isinstance(node.func, ast.Attribute) and node.func.attr == attr
            and isinstance(node.func.value, ast.Name) and node.func.value.id == obj
            and len(node.args) == nargs and not node.keywords)


def item_sensor_wildcards(repo, out):
    rel = 'katdal/sensordata.py'
    tree = _parse(repo, rel)
    cls = [n for n in tree.body if isinstance(n, ast.ClassDef) and n.name == 'SensorCache']
    _expect(len(cls) == 1, 'class SensorCache not found')
    fns = [n for n in cls[0].body if isinstance(n, ast.FunctionDef) and n.name == '_get_props']
    _expect(len(fns) == 1, 'expected exactly one method _get_props')
    fn = fns[0]
    a = fn.args
    _expect([x.arg for x in a.args] == ['name', 'prop_map'] and a.kwarg is not None and a.kwarg.arg == 'kwargs'
            and a.vararg is None and not a.kwonlyargs and not a.defaults, 'signature is not (name, prop_map, **kwargs)')
    body = list(fn.body)
    if body and isinstance(body[0], ast.Expr) and isinstance(body[0].value, ast.Constant) \
            and isinstance(body[0].value.value, str):
        body = body[1:]
    _expect(len(body) == 4, 'body is not: setdefault / for / update(kwargs) / return (%d statements)' % len(body))
    s0, loop, s2, s3 = body
    _expect(isinstance(s0, ast.Assign) and len(s0.targets) == 1 and isinstance(s0.targets[0], ast.Name)
            and s0.targets[0].id == 'props' and _is_call(s0.value, 'prop_map', 'setdefault', 2)
            and isinstance(s0.value.args[0], ast.Name) and s0.value.args[0].id == 'name'
            and isinstance(s0.value.args[1], ast.Dict) and not s0.value.args[1].keys,
            'first statement is not `props = prop_map.setdefault(name, {})`')
    _expect(isinstance(s2, ast.Expr) and _is_call(s2.value, 'props', 'update', 1)
            and isinstance(s2.value.args[0], ast.Name) and s2.value.args[0].id == 'kwargs',
            'kwargs are not merged last by `props.update(kwargs)`')
    _expect(isinstance(s3, ast.Return) and isinstance(s3.value, ast.Name) and s3.value.id == 'props',
            'does not `return props`')
    _expect(isinstance(loop, ast.For) and not loop.orelse and isinstance(loop.target, ast.Tuple)
            and [getattr(e, 'id', None) for e in loop.target.elts] == ['key', 'val']
            and _is_call(loop.iter, 'prop_map', 'items', 0) and len(loop.body) == 1,
            'loop is not `for key, val in prop_map.items():` with a single statement')
    guard = loop.body[0]
    _expect(isinstance(guard, ast.If) and not guard.orelse and isinstance(guard.test, ast.Compare)
            and len(guard.test.ops) == 1 and isinstance(guard.test.ops[0], ast.In)
            and isinstance(guard.test.left, ast.Constant) and isinstance(guard.test.left.value, str)
            and isinstance(guard.test.comparators[0], ast.Name) and guard.test.comparators[0].id == 'key'
            and len(guard.body) == 2, 'wildcard guard is not `if <const> in key:` with two statements')
    wild = guard.test.left.value
    mk, test = guard.body
    _expect(isinstance(mk, ast.Assign) and len(mk.targets) == 1 and isinstance(mk.targets[0], ast.Name)
            and mk.targets[0].id == 'regex', 'regex is not assigned first')
    j = mk.value
    _expect(isinstance(j, ast.Call) and isinstance(j.func, ast.Attribute) and j.func.attr == 'join'
            and isinstance(j.func.value, ast.Constant) and isinstance(j.func.value.value, str)
            and len(j.args) == 1 and not j.keywords and isinstance(j.args[0], (ast.GeneratorExp, ast.ListComp))
            and len(j.args[0].generators) == 1, 'regex is not `<const>.join(<comprehension>)`')
    join = j.func.value.value
    gen = j.args[0].generators[0]
    _expect(isinstance(gen.target, ast.Name) and gen.target.id == 'part' and not gen.ifs
            and _is_call(gen.iter, 'key', 'split', 1) and isinstance(gen.iter.args[0], ast.Constant)
            and gen.iter.args[0].value == wild, 'parts are not `for part in key.split(%r)`' % wild)
    elt = j.args[0].elt
    if _is_call(elt, 're', 'escape', 1) and isinstance(elt.args[0], ast.Name) and elt.args[0].id == 'part':
        escaped = True
    elif isinstance(elt, ast.Name) and elt.id == 'part':
        escaped = False
    else:
        _expect(False, 'literal part is neither `re.escape(part)` nor `part`')
    _expect(isinstance(test, ast.If) and not test.orelse and len(test.body) == 1
            and isinstance(test.body[0], ast.Expr) and _is_call(test.body[0].value, 'props', 'update', 1)
            and isinstance(test.body[0].value.args[0], ast.Name) and test.body[0].value.args[0].id == 'val',
            'a matching entry is not merged by `props.update(val)`')
    m = test.test
    _expect(isinstance(m, ast.Call) and isinstance(m.func, ast.Attribute) and isinstance(m.func.value, ast.Name)
            and m.func.value.id == 're' and m.func.attr in ('match', 'fullmatch', 'search') and len(m.args) == 2
            and not m.keywords and isinstance(m.args[1], ast.Name) and m.args[1].id == 'name',
            'match test is not re.match/fullmatch/search(<pattern>, name) without flags')
    pieces = _flatten_add(m.args[0])
    idx = [i for i, p in enumerate(pieces) if isinstance(p, ast.Name) and p.id == 'regex']
    _expect(len(idx) == 1 and all(isinstance(p, ast.Constant) and isinstance(p.value, str)
                                  for i, p in enumerate(pieces) if i != idx[0]),
            'pattern is not [const +] regex [+ const]')
    prefix = ''.join(p.value for p in pieces[:idx[0]])
    suffix = ''.join(p.value for p in pieces[idx[0] + 1:])
    _expect(prefix in ('', '^') and suffix in ('', '$'), 'unexpected pattern decoration %r ... %r' % (prefix, suffix))
    start = prefix == '^' or m.func.attr in ('match', 'fullmatch')
    end = suffix == '$' or m.func.attr == 'fullmatch'
    out.append('Definition sensor_wild_char : string := %s.' % coq_strings((wild,))[1:-1])
    out.append('Definition sensor_wild_join : string := %s.' % coq_strings((join,))[1:-1])
    out.append('Definition sensor_wild_escape : bool := %s.' % ('true' if escaped else 'false'))
    out.append('Definition sensor_wild_anchor_start : bool := %s.' % ('true' if start else 'false'))
    out.append('Definition sensor_wild_anchor_end : bool := %s.' % ('true' if end else 'false'))
    out.append('Definition sensor_props_merge_order : list string := %s.' % coq_strings(('name', 'wildcards', 'kwargs')))


ITEMS.append(item_sensor_wildcards)


# ---------------------------------------------------------------------------------------------------------------
# Built-in virtual sensors: the registries (dataset.DEFAULT_VIRTUAL_SENSORS and the VIRTUAL_SENSORS of every format
# module) and WHAT the registered functions read from the cache.  The model (Model/SensorVirt.v) gives a virtual
# sensor function the values of its source sensors and the dump timestamps, nothing else; the item checks that the
# first parameter `cache` of every registered function is only ever used as `cache.<attr>` / `cache[...]` and emits
# the set of attributes, so that a function that starts reading e.g. `cache.dump_period` (values depending on the
# nominal dump spacing instead of the timestamps) breaks a stated theorem.
VIRT_REGISTRIES = [('katdal/dataset.py', 'DEFAULT_VIRTUAL_SENSORS'), ('katdal/h5datav1.py', 'VIRTUAL_SENSORS'),
                   ('katdal/h5datav2.py', 'VIRTUAL_SENSORS'), ('katdal/h5datav3.py', 'VIRTUAL_SENSORS'),
                   ('katdal/visdatav4.py', 'VIRTUAL_SENSORS')]


def _dict_entries(node, what):
    if not (isinstance(node, ast.Dict) and all(isinstance(k, ast.Constant) and isinstance(k.value, str) for k in node.keys)
            and all(isinstance(v, ast.Name) for v in node.values)):
        raise TranslateError('%s: not a dict literal {"template": function_name, ...}' % what)
    return [(k.value, v.id) for k, v in zip(node.keys, node.values)]


def _registry(tree, var, rel):
    """[(template, function name)] added by this module to its registry `var`"""
    entries, seen = [], False
    for n in tree.body:
        if isinstance(n, ast.Assign) and len(n.targets) == 1 and isinstance(n.targets[0], ast.Name) and n.targets[0].id == var:
            if seen:
                raise TranslateError('%s: %s assigned more than once' % (rel, var))
            seen = True
            v = n.value
            if isinstance(v, ast.Dict):
                entries += _dict_entries(v, '%s:%s' % (rel, var))
            elif not (isinstance(v, ast.Call) and isinstance(v.func, ast.Name) and v.func.id == 'dict' and len(v.args) == 1
                      and not v.keywords and isinstance(v.args[0], ast.Name) and v.args[0].id == 'DEFAULT_VIRTUAL_SENSORS'):
                raise TranslateError('%s: %s is neither a dict literal nor dict(DEFAULT_VIRTUAL_SENSORS)' % (rel, var))
        elif isinstance(n, ast.Expr) and isinstance(n.value, ast.Call) and isinstance(n.value.func, ast.Attribute) \
                and isinstance(n.value.func.value, ast.Name) and n.value.func.value.id == var:
            c = n.value
            if not (seen and c.func.attr == 'update' and len(c.args) == 1 and not c.keywords):
                raise TranslateError('%s: unexpected call %s.%s(...)' % (rel, var, c.func.attr))
            entries += _dict_entries(c.args[0], '%s:%s.update' % (rel, var))
        else:
            for m in ast.walk(n):
                if isinstance(m, ast.Name) and m.id == var and isinstance(m.ctx, (ast.Store, ast.Del)):
                    raise TranslateError('%s: %s is modified in an unexpected place (line %d)' % (rel, var, m.lineno))
    if not seen:
        raise TranslateError('%s: %s not found' % (rel, var))
    return entries


def _cache_uses(fn, rel):
    """the ways the first parameter of a virtual sensor function is used: attribute names, getitem/setitem/delitem"""
    if not fn.args.args or fn.args.args[0].arg != 'cache':
        raise TranslateError('%s:%s: first parameter is not `cache`' % (rel, fn.name))
    parent = {}
    for p in ast.walk(fn):
        for ch in ast.iter_child_nodes(p):
            parent[ch] = p
    uses = set()
    for n in ast.walk(fn):
        if isinstance(n, ast.arg) and n.arg == 'cache' and n is not fn.args.args[0]:
            raise TranslateError('%s:%s: `cache` is rebound by an inner function' % (rel, fn.name))
        if not (isinstance(n, ast.Name) and n.id == 'cache'):
            continue
        p = parent.get(n)
        if not isinstance(n.ctx, ast.Load):
            raise TranslateError('%s:%s: `cache` is reassigned (line %d)' % (rel, fn.name, n.lineno))
        if isinstance(p, ast.Attribute) and p.value is n:
            if not isinstance(p.ctx, ast.Load):
                raise TranslateError('%s:%s: cache.%s is assigned to (line %d)' % (rel, fn.name, p.attr, n.lineno))
            uses.add(p.attr)
        elif isinstance(p, ast.Subscript) and p.value is n:
            uses.add({ast.Load: 'getitem', ast.Store: 'setitem', ast.Del: 'delitem'}[type(p.ctx)])
        else:
            raise TranslateError('%s:%s: `cache` is used as a whole (line %d), cannot tell what is read from it'
                                 % (rel, fn.name, n.lineno))
    return uses


def item_virtual_sensors(repo, out):
    templates, funcs, attrs = set(), set(), set()
    for rel, var in VIRT_REGISTRIES:
        tree = _parse(repo, rel)
        for template, fname in _registry(tree, var, rel):
            templates.add(template)
            funcs.add(fname)
            attrs |= _cache_uses(_find_func(tree, fname, rel), rel)
    out.append('Definition virtual_sensor_templates : list string := %s.' % coq_strings(tuple(sorted(templates))))
    out.append('Definition virtual_sensor_funcs : list string := %s.' % coq_strings(tuple(sorted(funcs))))
    out.append('Definition virtual_cache_attrs : list string := %s.' % coq_strings(tuple(sorted(attrs))))


ITEMS.append(item_virtual_sensors)
