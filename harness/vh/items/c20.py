"""Translator items for C20: the four lazily-initialising / pooled sites are parsed into the small instruction
set of coq/Model/LazyInit.v (as (code, arg) pairs) together with 'every shared access is inside the lock' flags."""
import ast

from vh.translate import TranslateError, _parse, _class, _func, coq_strings

IFSET, LOAD, COMPUTE, STORE, CLEAR, RETURN = 0, 1, 2, 3, 4, 5


def _mentions(node, attrs):
    """Does the AST node mention self.<attr> for attr in attrs?"""
    for n in ast.walk(node):
        if isinstance(n, ast.Attribute) and isinstance(n.value, ast.Name) and n.value.id == 'self' and n.attr in attrs:
            return True
    return False


def _is_self_attr(node, attrs):
    if isinstance(node, ast.Subscript):
        node = node.value
    return (isinstance(node, ast.Attribute) and isinstance(node.value, ast.Name) and node.value.id == 'self'
            and node.attr in attrs)


def _lock_with(stmt, lock):
    return (isinstance(stmt, ast.With) and len(stmt.items) == 1
            and _is_self_attr(stmt.items[0].context_expr, [lock]))


def _linearise(stmts, cell, srcs, is_unset_test, what):
    out = []
    for s in stmts:
        if isinstance(s, ast.Expr) and isinstance(s.value, ast.Constant):
            continue
        if isinstance(s, ast.If) and is_unset_test(s.test):
            if s.orelse:
                raise TranslateError('%s: lazy-init test has an else branch' % what)
            inner = _linearise(s.body, cell, srcs, is_unset_test, what)
            out.append((IFSET, len(inner)))
            out += inner
        elif isinstance(s, ast.Try):
            out += _linearise(s.body, cell, srcs, is_unset_test, what)
            for h in s.handlers:
                out += [(COMPUTE, 0)] if not _mentions(h, [cell] + srcs) else [(LOAD, 0), (COMPUTE, 0)]
        elif isinstance(s, ast.Assign) and len(s.targets) == 1 and _is_self_attr(s.targets[0], [cell]):
            if not isinstance(s.value, ast.Name):
                out += [(LOAD, 0), (COMPUTE, 0)]
            out.append((STORE, 0))
        elif (isinstance(s, ast.Assign) and len(s.targets) == 1 and _is_self_attr(s.targets[0], srcs)
              and isinstance(s.value, ast.Constant) and s.value.value is None):
            out.append((CLEAR, 0))
        elif isinstance(s, ast.Return):
            out.append((RETURN, 0))
        elif isinstance(s, (ast.Assign, ast.AugAssign, ast.If, ast.For, ast.Expr)):
            if _mentions(s, srcs + [cell]):
                out.append((LOAD, 0))
                if isinstance(s, (ast.Assign, ast.AugAssign)):
                    out.append((COMPUTE, 0))
            else:
                out.append((COMPUTE, 0))
        else:
            raise TranslateError('%s: unsupported statement %s' % (what, type(s).__name__))
    return out


def lazy_site(repo, rel, cls, method, lock, cell, srcs, is_unset_test, returns_local=False):
    what = '%s.%s' % (cls, method)
    f = _func(_class(_parse(repo, rel), cls, rel), method, rel)
    body = [s for s in f.body if not (isinstance(s, ast.Expr) and isinstance(s.value, ast.Constant))]
    withs = [s for s in body if _lock_with(s, lock)]
    locked = True
    # every statement outside the lock that touches the shared fields breaks the guard
    for s in body:
        if s in withs:
            continue
        if _mentions(s, [cell] + srcs):
            locked = False
    if len(withs) != 1:
        locked = False
        inner = [s for s in body]
    else:
        inner = list(withs[0].body)
    tail_return = [s for s in body if isinstance(s, ast.Return) and s not in withs]
    instrs = _linearise(inner, cell, srcs, is_unset_test, what)
    if returns_local and tail_return and not any(c == RETURN for c, _ in instrs):
        instrs.append((RETURN, 0))    # `return sensor_data` after the block returns the local copy
    if not any(c == RETURN for c, _ in instrs):
        raise TranslateError('%s: no return found' % what)
    return instrs, locked


def _emit(out, name, instrs, locked):
    out.append('Definition %s_code : list (Z * Z) := [%s].' % (
        name, '; '.join('((%d)%%Z, (%d)%%Z)' % p for p in instrs)))
    out.append('Definition %s_locked : bool := %s.' % (name, 'true' if locked else 'false'))


def _is_none_test(cell):
    def test(t):
        return (isinstance(t, ast.Compare) and len(t.ops) == 1 and isinstance(t.ops[0], ast.Is)
                and _is_self_attr(t.left, [cell]) and isinstance(t.comparators[0], ast.Constant)
                and t.comparators[0].value is None)
    return test


def item_sites(repo, out):
    i, l = lazy_site(repo, 'katdal/lazy_indexer.py', 'DaskLazyIndexer', 'dataset', '_lock', '_dataset',
                     ['_orig_dataset'], _is_none_test('_dataset'))
    _emit(out, 'site_dask', i, l)
    i, l = lazy_site(repo, 'katdal/spectral_window.py', 'SpectralWindow', 'channel_freqs', '_channel_freqs_lock',
                     '_channel_freqs', [], _is_none_test('_channel_freqs'))
    _emit(out, 'site_spw', i, l)

    def getter_test(t):   # exactly `isinstance(sensor_data, SensorGetter) and extract`: the entry is still raw
        return ast.unparse(t) == 'isinstance(sensor_data, SensorGetter) and extract'
    i, l = lazy_site(repo, 'katdal/sensordata.py', 'SensorCache', 'get', '_lock', '_raw',
                     ['virtual', 'store', 'props', 'timestamps'], getter_test, returns_local=True)
    _emit(out, 'site_sensor_get', i, l)
    # plain guarded accessors: every statement touching the shared field must be inside `with self._lock:`
    for rel, cls, meth, lock, field, nm in [
            ('katdal/sensordata.py', 'SensorCache', '__setitem__', '_lock', '_raw', 'sensor_setitem'),
            ('katdal/sensordata.py', 'SensorCache', '__delitem__', '_lock', '_raw', 'sensor_delitem'),
            ('katdal/sensordata.py', 'SensorCache', '__contains__', '_lock', '_raw', 'sensor_contains'),
            ('katdal/chunkstore_s3.py', '_Pool', 'get', '_lock', '_pool', 'pool_get'),
            ('katdal/chunkstore_s3.py', '_Pool', 'put', '_lock', '_pool', 'pool_put')]:
        f = _func(_class(_parse(repo, rel), cls, rel), meth, rel)
        body = [s for s in f.body if not (isinstance(s, ast.Expr) and isinstance(s.value, ast.Constant))]
        ok = all(_lock_with(s, lock) or not _mentions(s, [field]) for s in body) and any(_lock_with(s, lock) for s in body)
        out.append('Definition %s_locked : bool := %s.' % (nm, 'true' if ok else 'false'))
    # lock kinds: SensorCache needs a re-entrant lock (virtual sensors look up other sensors under the lock)
    init = _func(_class(_parse(repo, 'katdal/sensordata.py'), 'SensorCache', 'katdal/sensordata.py'), '__init__', 'katdal/sensordata.py')
    kinds = [ast.unparse(s.value) for s in ast.walk(init)
             if isinstance(s, ast.Assign) and _is_self_attr(s.targets[0], ['_lock'])]
    out.append('Definition sensor_lock_reentrant : bool := %s.' % ('true' if kinds == ['threading.RLock()'] else 'false'))


# ------------------------------------------------------------------------------------------- lock discipline

def _unlocked_mention(node, lock, fields):
    """Does `node` mention self.<field> anywhere that is NOT inside the body of a `with self.<lock>:`?"""
    if isinstance(node, ast.With) and any(_is_self_attr(i.context_expr, [lock]) for i in node.items):
        return any(_unlocked_mention(i.context_expr, lock, fields) for i in node.items)
    if isinstance(node, ast.Attribute) and node.attr in fields:
        # the guarded fields are private: reaching them through any object (self, another instance in a classmethod,
        # getattr-free aliasing) outside the lock is an unlocked access
        return True
    if isinstance(node, ast.Constant) and node.value in fields:
        return True     # getattr(self, '_dataset') and the like
    return any(_unlocked_mention(c, lock, fields) for c in ast.iter_child_nodes(node))


def _lock_discipline(repo, rel, cls, lock, fields):
    """(kind of lock, 'assigned exactly once, in __init__', names of the methods that touch a shared field
    outside the lock - in source order)."""
    c = _class(_parse(repo, rel), cls, rel)
    assigns = []
    for f in c.body:
        if not isinstance(f, (ast.FunctionDef, ast.AsyncFunctionDef)):
            continue
        for n in ast.walk(f):
            targets = []
            if isinstance(n, ast.Assign):
                targets = n.targets
            elif isinstance(n, (ast.AugAssign, ast.AnnAssign)):
                targets = [n.target]
            elif isinstance(n, ast.Delete):
                targets = n.targets
            elif isinstance(n, (ast.With, ast.AsyncWith)):
                targets = [i.optional_vars for i in n.items if i.optional_vars is not None]
            elif isinstance(n, ast.NamedExpr):
                targets = [n.target]
            elif (isinstance(n, ast.Call) and isinstance(n.func, ast.Name) and n.func.id in ('setattr', 'delattr')
                  and len(n.args) >= 2 and isinstance(n.args[1], ast.Constant) and n.args[1].value == lock):
                assigns.append((f.name, None))
            for t in targets:
                for tt in ast.walk(t):
                    if _is_self_attr(tt, [lock]) and not isinstance(tt, ast.Subscript):
                        assigns.append((f.name, getattr(n, 'value', None)))
    # class-level attribute of the same name would be shared by all instances: still a lock, but not what was modelled
    for n in c.body:
        if isinstance(n, ast.Assign) and any(isinstance(t, ast.Name) and t.id == lock for t in n.targets):
            assigns.append(('<class>', n.value))
    kind = 0
    once = len(assigns) == 1 and assigns[0][0] == '__init__' and assigns[0][1] is not None
    if once:
        txt = ast.unparse(assigns[0][1])
        kind = {'threading.Lock()': 1, 'threading.RLock()': 2}.get(txt, 0)
    outside = [f.name for f in c.body if isinstance(f, (ast.FunctionDef, ast.AsyncFunctionDef))
               and _unlocked_mention(f, lock, fields)]
    return kind, once and kind != 0, outside


def item_discipline(repo, out):
    for nm, rel, cls, lock, fields in [
            ('site_dask', 'katdal/lazy_indexer.py', 'DaskLazyIndexer', '_lock', ['_dataset', '_orig_dataset']),
            ('site_spw', 'katdal/spectral_window.py', 'SpectralWindow', '_channel_freqs_lock', ['_channel_freqs']),
            ('sensor', 'katdal/sensordata.py', 'SensorCache', '_lock', ['_raw']),
            ('pool', 'katdal/chunkstore_s3.py', '_Pool', '_lock', ['_pool'])]:
        kind, once, outside = _lock_discipline(repo, rel, cls, lock, fields)
        out.append('Definition %s_lock_kind : Z := (%d)%%Z.   (* 1 = threading.Lock(), 2 = threading.RLock(), 0 = anything else *)' % (nm, kind))
        out.append('Definition %s_lock_once : bool := %s.' % (nm, 'true' if once else 'false'))
        out.append('Definition %s_unlocked_methods : list string := %s.' % (nm, coq_strings(outside)))


# ------------------------------------------------------------------------------------------- the session pool

FACTORY, POP_LAST, POP_FIRST, PEEK_LAST, PEEK_FIRST = 0, 1, 2, 3, 4
APPEND, INSERT_FRONT = 0, 1


def _is_pool(node):
    return _is_self_attr(node, ['_pool']) and not isinstance(node, ast.Subscript)


def _int_const(node):
    if isinstance(node, ast.Constant) and isinstance(node.value, int) and not isinstance(node.value, bool):
        return node.value
    if isinstance(node, ast.UnaryOp) and isinstance(node.op, ast.USub) and isinstance(node.operand, ast.Constant):
        return -node.operand.value
    return None


def _pool_action(expr, what):
    if (isinstance(expr, ast.Call) and not expr.args and not expr.keywords and _is_self_attr(expr.func, ['_factory'])
            and not isinstance(expr.func, ast.Subscript)):
        return FACTORY
    if (isinstance(expr, ast.Call) and isinstance(expr.func, ast.Attribute) and expr.func.attr == 'pop'
            and _is_pool(expr.func.value) and not expr.keywords):
        if not expr.args:
            return POP_LAST
        k = _int_const(expr.args[0]) if len(expr.args) == 1 else None
        if k == -1:
            return POP_LAST
        if k == 0:
            return POP_FIRST
    if isinstance(expr, ast.Subscript) and _is_pool(expr.value):
        k = _int_const(expr.slice)
        if k == -1:
            return PEEK_LAST
        if k == 0:
            return PEEK_FIRST
    raise TranslateError('%s: unsupported way of obtaining an item: %s' % (what, ast.unparse(expr)))


def _pool_test(t, what):
    """'empty' when the test is true exactly for an empty pool, 'nonempty' when true exactly for a non-empty one."""
    if isinstance(t, ast.UnaryOp) and isinstance(t.op, ast.Not):
        return {'empty': 'nonempty', 'nonempty': 'empty'}[_pool_test(t.operand, what)]
    if _is_pool(t):
        return 'nonempty'
    if (isinstance(t, ast.Call) and isinstance(t.func, ast.Name) and t.func.id == 'len' and len(t.args) == 1
            and _is_pool(t.args[0])):
        return 'nonempty'
    if isinstance(t, ast.Compare) and len(t.ops) == 1:
        left, op, right = t.left, t.ops[0], t.comparators[0]
        is_len = (isinstance(left, ast.Call) and isinstance(left.func, ast.Name) and left.func.id == 'len'
                  and len(left.args) == 1 and _is_pool(left.args[0]))
        k = _int_const(right)
        if is_len and k is not None:
            table = {(ast.Eq, 0): 'empty', (ast.NotEq, 0): 'nonempty', (ast.Gt, 0): 'nonempty', (ast.GtE, 1): 'nonempty',
                     (ast.Lt, 1): 'empty', (ast.LtE, 0): 'empty'}
            if (type(op), k) in table:
                return table[(type(op), k)]
        if _is_pool(left) and isinstance(right, ast.List) and not right.elts and isinstance(op, (ast.Eq, ast.NotEq)):
            return 'empty' if isinstance(op, ast.Eq) else 'nonempty'
    raise TranslateError('%s: unsupported emptiness test: %s' % (what, ast.unparse(t)))


def _strip_doc(body):
    return [s for s in body if not (isinstance(s, ast.Expr) and isinstance(s.value, ast.Constant))]


def item_pool(repo, out):
    rel = 'katdal/chunkstore_s3.py'
    c = _class(_parse(repo, rel), '_Pool', rel)
    # __init__: the pool starts empty
    init = _strip_doc(_func(c, '__init__', rel).body)
    starts = [ast.unparse(s.value) for s in init if isinstance(s, ast.Assign) and _is_pool(s.targets[0])]
    out.append('Definition pool_init_empty : bool := %s.' % ('true' if starts == ['[]'] else 'false'))
    # get: (with lock:) if <test>: return A else: return B   |   if <test>: return A ; return B
    g = _strip_doc(_func(c, 'get', rel).body)
    if len(g) == 1 and _lock_with(g[0], '_lock'):
        g = _strip_doc(g[0].body)
    if not g or not isinstance(g[0], ast.If):
        raise TranslateError('_Pool.get: expected an emptiness test')
    test = _pool_test(g[0].test, '_Pool.get')
    then = _strip_doc(g[0].body)
    other = _strip_doc(g[0].orelse) if g[0].orelse else g[1:]
    if g[0].orelse and len(g) != 1:
        raise TranslateError('_Pool.get: statements after the if/else')
    if len(then) != 1 or len(other) != 1 or not isinstance(then[0], ast.Return) or not isinstance(other[0], ast.Return) \
            or then[0].value is None or other[0].value is None:
        raise TranslateError('_Pool.get: each branch must be a single return')
    a_then = _pool_action(then[0].value, '_Pool.get')
    a_other = _pool_action(other[0].value, '_Pool.get')
    empty, nonempty = (a_then, a_other) if test == 'empty' else (a_other, a_then)
    out.append('Definition pool_get_empty_code : Z := (%d)%%Z.   (* 0 factory() 1 pop() 2 pop(0) 3 [-1] 4 [0] *)' % empty)
    out.append('Definition pool_get_nonempty_code : Z := (%d)%%Z.' % nonempty)
    # put: (with lock:) self._pool.append(item) | self._pool.insert(0, item)
    pf = _func(c, 'put', rel)
    argn = [a.arg for a in pf.args.args]
    pb = _strip_doc(pf.body)
    if len(pb) == 1 and _lock_with(pb[0], '_lock'):
        pb = _strip_doc(pb[0].body)
    code = None
    if len(pb) == 1 and isinstance(pb[0], ast.Expr) and isinstance(pb[0].value, ast.Call):
        call = pb[0].value
        if isinstance(call.func, ast.Attribute) and _is_pool(call.func.value) and not call.keywords and len(argn) == 2:
            names = [a.id if isinstance(a, ast.Name) else None for a in call.args]
            if call.func.attr == 'append' and names == [argn[1]]:
                code = APPEND
            elif call.func.attr == 'insert' and len(call.args) == 2 and _int_const(call.args[0]) == 0 and names[1] == argn[1]:
                code = INSERT_FRONT
    if code is None:
        raise TranslateError('_Pool.put: unsupported body')
    out.append('Definition pool_put_code : Z := (%d)%%Z.   (* 0 append 1 insert(0, .) *)' % code)
    # __call__: item = self.get(); yield item; self.put(item)
    cb = _strip_doc(_func(c, '__call__', rel).body)
    seq = []
    var = None
    in_finally = False
    for s in cb:
        txt = ast.unparse(s)
        if isinstance(s, ast.Assign) and txt.endswith('= self.get()') and isinstance(s.targets[0], ast.Name):
            var = s.targets[0].id
            seq.append(0)
        elif isinstance(s, ast.Expr) and isinstance(s.value, ast.Yield) and var and txt == 'yield %s' % var:
            seq.append(1)
        elif var and txt == 'self.put(%s)' % var:
            seq.append(2)
        elif (isinstance(s, ast.Try) and var and not s.handlers and not s.orelse
              and [ast.unparse(x) for x in _strip_doc(s.body)] == ['yield %s' % var]
              and [ast.unparse(x) for x in _strip_doc(s.finalbody)] == ['self.put(%s)' % var]):
            # try: yield item / finally: self.put(item) -- the item also comes back when the borrower's block raises
            seq += [1, 2]
            in_finally = True
        else:
            raise TranslateError('_Pool.__call__: unsupported statement %s' % txt)
    out.append('Definition c20_pool_call_finally : bool := %s.   (* self.put(item) sits in a finally clause *)'
               % ('true' if in_finally else 'false'))
    out.append('Definition pool_call_code : list Z := [%s].   (* 0 item = self.get() 1 yield item 2 self.put(item) *)'
               % '; '.join('(%d)%%Z' % k for k in seq))
    # S3ChunkStore: one pool per store, built in __init__ from the session factory; request() sends through the session it
    # borrowed from the pool in a `with` that spans the whole retry loop
    st = _class(_parse(repo, rel), 'S3ChunkStore', rel)
    init = _func(st, '__init__', rel)
    pools = [ast.unparse(n.value) for n in ast.walk(init) if isinstance(n, ast.Assign)
             and _is_self_attr(n.targets[0], ['_session_pool'])]
    req = _func(st, 'request', rel)
    ok = pools == ['_Pool(session_factory)']
    borrowed = None
    users = 0
    for n in ast.walk(req):
        if isinstance(n, ast.With):
            for i in n.items:
                if ast.unparse(i.context_expr) == 'self._session_pool()' and isinstance(i.optional_vars, ast.Name):
                    if borrowed is not None:
                        ok = False
                    borrowed = (i.optional_vars.id, n)
    if borrowed is None:
        raise TranslateError('S3ChunkStore.request: does not borrow a session from the pool')
    else:
        name, w = borrowed
        inside = {id(x) for x in ast.walk(w)}
        for n in ast.walk(req):
            if isinstance(n, ast.Call) and isinstance(n.func, ast.Name) and n.func.id == '_request':
                users += 1
                if not (n.args and isinstance(n.args[0], ast.Name) and n.args[0].id == name and id(n) in inside):
                    ok = False
            # the borrowed name must not be re-bound, and no other session may be conjured up
            if isinstance(n, ast.Assign) and any(isinstance(t, ast.Name) and t.id == name for t in n.targets):
                ok = False
        if users < 1:
            ok = False
        # the back-off between two attempts: retries.sleep() -- inside or outside the block that holds the session?
        sleeps = [n for n in ast.walk(req) if isinstance(n, ast.Call) and isinstance(n.func, ast.Attribute)
                  and n.func.attr == 'sleep']
        if not sleeps:
            raise TranslateError('S3ChunkStore.request: no back-off sleep found')
        where = {id(n) in inside for n in sleeps}
        if len(where) != 1:
            raise TranslateError('S3ChunkStore.request: back-off sleeps both inside and outside the session block')
        out.append('Definition c20_request_sleep_in_borrow : bool := %s.' % ('true' if where.pop() else 'false'))
    if any(isinstance(n, ast.Attribute) and n.attr in ('_session', 'session') and isinstance(n.value, ast.Name)
           and n.value.id == 'self' for n in ast.walk(st)):
        ok = False
    out.append('Definition s3_request_session_from_pool : bool := %s.' % ('true' if ok else 'false'))


# ------------------------------------------------------------------------------------------- sensor cache flow

VIRT_FILES = ['katdal/dataset.py', 'katdal/h5datav1.py', 'katdal/h5datav2.py', 'katdal/h5datav3.py', 'katdal/visdatav4.py']
V_GET, V_STORE, V_RET, V_LOCAL, V_RET_OTHER, V_MUTATES = 1, 2, 3, 4, 5, 6
CACHE_ATTRS = ('get', 'update', 'timestamps', 'dump_period')
INPLACE = ('sort', 'fill', 'resize', 'put', 'itemset', 'partition', 'setfield', 'byteswap', 'append', 'extend', 'insert',
           'pop', 'remove', 'clear', 'reverse', 'setdefault', 'popitem', 'add', 'discard')


def _virtual_function_names(tree, rel):
    """names of the functions registered as virtual-sensor creators in this module (values of the dict literals that are
    assigned to / merged into a *VIRTUAL_SENSORS variable)"""
    names = []
    for n in tree.body:
        d = None
        if isinstance(n, ast.Assign) and len(n.targets) == 1 and isinstance(n.targets[0], ast.Name) \
                and n.targets[0].id.endswith('VIRTUAL_SENSORS') and isinstance(n.value, ast.Dict):
            d = n.value
        elif isinstance(n, ast.Expr) and isinstance(n.value, ast.Call) and isinstance(n.value.func, ast.Attribute) \
                and n.value.func.attr == 'update' and isinstance(n.value.func.value, ast.Name) \
                and n.value.func.value.id.endswith('VIRTUAL_SENSORS') and n.value.args and isinstance(n.value.args[0], ast.Dict):
            d = n.value.args[0]
        if d is not None:
            for v in d.values:
                if not isinstance(v, ast.Name):
                    raise TranslateError('%s: virtual sensor registered with something that is not a function name' % rel)
                if v.id not in names:
                    names.append(v.id)
    return names


def _is_cache(node):
    return isinstance(node, ast.Name) and node.id == 'cache'


def _cache_gets(node):
    return sum(1 for n in ast.walk(node) if isinstance(n, ast.Call) and isinstance(n.func, ast.Attribute)
               and n.func.attr == 'get' and _is_cache(n.func.value))


def _names(node):
    return {n.id for n in ast.walk(node) if isinstance(n, ast.Name)}


def _virtual_skeleton(fn, rel):
    what = '%s:%s' % (rel, fn.name)
    if not fn.args.args or fn.args.args[0].arg != 'cache':
        raise TranslateError('%s: first parameter is not `cache`' % what)
    params = {a.arg for a in fn.args.args + fn.args.kwonlyargs}
    for n in ast.walk(fn):
        if isinstance(n, ast.Attribute) and _is_cache(n.value) and n.attr not in CACHE_ATTRS:
            raise TranslateError('%s: cache.%s is not a use of the cache the model knows' % (what, n.attr))
        if isinstance(n, (ast.Delete,)) and any(isinstance(t, ast.Subscript) and _is_cache(t.value) for t in n.targets):
            raise TranslateError('%s: deletes from the cache' % what)
        if isinstance(n, (ast.FunctionDef, ast.AsyncFunctionDef, ast.Try, ast.While)) and n is not fn:
            raise TranslateError('%s: %s inside a virtual sensor function' % (what, type(n).__name__))
    code, stored, inputs = [], set(), set()

    def simple(s):
        gets = _cache_gets(s)
        code.extend([V_GET] * gets)
        did = False
        if isinstance(s, ast.Assign):
            tgts = []
            for t in s.targets:
                tgts += t.elts if isinstance(t, (ast.Tuple, ast.List)) else [t]
            ncache = [t for t in tgts if isinstance(t, ast.Subscript) and _is_cache(t.value)]
            if ncache:
                if gets and not isinstance(s.value, (ast.Call, ast.Name)):
                    raise TranslateError('%s: line %d mixes a fetch and a store' % (what, s.lineno))
                code.extend([V_STORE] * len(ncache))
                stored.update(t.id for t in tgts if isinstance(t, ast.Name))
                stored.update(_names(s.value) - params - {'cache'})
                did = True
            elif gets and isinstance(s.value, ast.Call) and all(isinstance(t, ast.Name) for t in tgts) \
                    and isinstance(s.value.func, ast.Attribute) and _is_cache(s.value.func.value):
                inputs.update(t.id for t in tgts)      # x = cache.get(...): x IS the cached object
            for t in tgts:
                base = t
                while isinstance(base, (ast.Subscript, ast.Attribute)):
                    base = base.value
                if isinstance(t, (ast.Subscript, ast.Attribute)) and isinstance(base, ast.Name) and base.id in inputs:
                    code.append(V_MUTATES)
        elif isinstance(s, ast.AugAssign):
            base = s.target
            while isinstance(base, (ast.Subscript, ast.Attribute)):
                base = base.value
            if isinstance(base, ast.Name) and base.id in inputs:
                code.append(V_MUTATES)
            if isinstance(s.target, ast.Subscript) and _is_cache(s.target.value):
                raise TranslateError('%s: augmented assignment to a cache entry' % what)
        elif isinstance(s, ast.Expr) and isinstance(s.value, ast.Call) and isinstance(s.value.func, ast.Attribute):
            f = s.value.func
            if _is_cache(f.value) and f.attr == 'update':
                if len(s.value.args) != 1 or s.value.keywords or not isinstance(s.value.args[0], ast.Name):
                    raise TranslateError('%s: cache.update(...) with something that is not a local dict' % what)
                code.append(V_STORE)
                stored.add(s.value.args[0].id)
                did = True
            elif isinstance(f.value, ast.Name) and f.value.id in inputs and f.attr in INPLACE:
                code.append(V_MUTATES)
        elif isinstance(s, ast.Return):
            v = s.value
            vals = [v.body, v.orelse] if isinstance(v, ast.IfExp) else [v]      # (the test of `a if c else b` is not returned)
            used = (set().union(*[_names(x) for x in vals]) if v is not None else set()) - params
            code.append(V_RET if s.value is not None and used and used <= stored else V_RET_OTHER)
            did = True
        if not did and not gets:
            if not code or code[-1] != V_LOCAL:
                code.append(V_LOCAL)

    def block(stmts):
        for s in stmts:
            if isinstance(s, ast.Expr) and isinstance(s.value, ast.Constant):
                continue
            if isinstance(s, (ast.If, ast.For, ast.With)):
                head = s.test if isinstance(s, ast.If) else s.iter if isinstance(s, ast.For) else s.items[0].context_expr
                code.extend([V_GET] * _cache_gets(head))
                block(s.body)
                block(getattr(s, 'orelse', []))
            elif isinstance(s, (ast.Assign, ast.AugAssign, ast.AnnAssign, ast.Expr, ast.Return, ast.Pass, ast.Assert)):
                simple(s)
            else:
                raise TranslateError('%s: unsupported statement %s' % (what, type(s).__name__))
    block(fn.body)
    return code


def item_sensor_flow(repo, out):
    rel = 'katdal/sensordata.py'
    get = _func(_class(_parse(repo, rel), 'SensorCache', rel), 'get', rel)
    withs = [s for s in get.body if _lock_with(s, '_lock')]
    if len(withs) != 1:
        raise TranslateError('SensorCache.get: expected one `with self._lock:` block')
    body = _strip_doc(withs[0].body)
    first = body[0] if body else None

    def is_virtual_loop(n):
        return isinstance(n, ast.For) and ast.unparse(n.iter) == 'self.virtual.items()'
    if isinstance(first, ast.Try) and [ast.unparse(x) for x in first.body] == ['sensor_data = self._raw[name]'] \
            and len(first.handlers) == 1 and ast.unparse(first.handlers[0].type) == 'KeyError' \
            and any(is_virtual_loop(n) for n in first.handlers[0].body) and not first.finalbody and not first.orelse:
        lookup_first = True
    elif any(is_virtual_loop(n) for n in ast.walk(withs[0])):
        lookup_first = False      # the templates are consulted without / before looking at what is cached
    else:
        raise TranslateError('SensorCache.get: no loop over self.virtual.items() found')
    # the creating function is called with the cache itself (so that its lookups and stores go through THIS lock)
    calls = [n for n in ast.walk(withs[0]) if isinstance(n, ast.Call) and isinstance(n.func, ast.Name)
             and n.func.id == 'create_sensor']
    if len(calls) != 1 or [ast.unparse(a) for a in calls[0].args] != ['self', 'name']:
        raise TranslateError('SensorCache.get: create_sensor is not called as create_sensor(self, name, ...)')
    out.append('Definition c20_sensor_get_lookup_first : bool := %s.' % ('true' if lookup_first else 'false'))
    skels = []
    for vrel in VIRT_FILES:
        tree = _parse(repo, vrel)
        for fname in _virtual_function_names(tree, vrel):
            fns = [n for n in tree.body if isinstance(n, ast.FunctionDef) and n.name == fname]
            if len(fns) != 1:
                if vrel != 'katdal/dataset.py' and not fns:
                    continue        # registered here but defined in (and translated from) dataset.py
                raise TranslateError('%s: expected exactly one function %s' % (vrel, fname))
            mod = vrel.split('/')[-1][:-3]
            skels.append(('%s.%s' % (mod, fname), _virtual_skeleton(fns[0], vrel)))
    if not skels:
        raise TranslateError('no virtual sensor functions found')
    out.append('Definition c20_virtual_fn_skeletons : list (string * list Z) := [%s].   (* 1 cache.get 2 store 3 return '
               'of a stored value 4 local 5 return of something else 6 in-place change of a fetched input *)'
               % '; '.join('("%s"%%string, [%s])' % (nm, '; '.join('(%d)%%Z' % c for c in code)) for nm, code in skels))


def item_props(repo, out):
    rel = 'katdal/sensordata.py'
    f = _func(_class(_parse(repo, rel), 'SensorCache', rel), '_get_props', rel)
    argn = [a.arg for a in f.args.args]
    if argn[:2] != ['name', 'prop_map']:
        raise TranslateError('SensorCache._get_props: unexpected parameters %s' % argn)
    code = []
    for s in _strip_doc(f.body):
        txt = ast.unparse(s)
        if txt == 'props = prop_map.setdefault(name, {})':
            code.append(0)
        elif isinstance(s, ast.For) and ast.unparse(s.iter) == 'prop_map.items()' and not s.orelse:
            for n in ast.walk(s):
                if n is s.iter:
                    continue
                if isinstance(n, ast.Name) and n.id == 'prop_map' and n is not s.iter.func.value:
                    raise TranslateError('SensorCache._get_props: the loop body touches prop_map itself')
            code.append(1)
        elif txt == 'props.update(kwargs)':
            code.append(2)
        elif txt == 'return props':
            code.append(3)
        else:
            raise TranslateError('SensorCache._get_props: unsupported statement %s' % txt.split('\n')[0])
    out.append('Definition c20_props_code : list Z := [%s].   (* 0 own entry (setdefault) 1 loop over prop_map.items() '
               '2 update(kwargs) 3 return *)' % '; '.join('(%d)%%Z' % k for k in code))
    # ConcatenatedSensorCache: its merged property map is guarded by a lock of its own
    crel = 'katdal/concatdata.py'
    kind, once, outside = _lock_discipline(repo, crel, 'ConcatenatedSensorCache', '_lock', ['props'])
    out.append('Definition c20_concat_lock_kind : Z := (%d)%%Z.' % kind)
    out.append('Definition c20_concat_lock_once : bool := %s.' % ('true' if once else 'false'))
    out.append('Definition c20_concat_props_unlocked_methods : list string := %s.' % coq_strings(outside))
    cg = _func(_class(_parse(repo, crel), 'ConcatenatedSensorCache', crel), 'get', crel)
    calls = [n for n in ast.walk(cg) if isinstance(n, ast.Call) and isinstance(n.func, ast.Attribute)
             and n.func.attr == '_get_props']
    if len(calls) != 1 or [ast.unparse(a) for a in calls[0].args] != ['name', 'self.props']:
        raise TranslateError('ConcatenatedSensorCache.get: expected one call self._get_props(name, self.props, ...)')


def item_verify_bucket(repo, out):
    rel = 'katdal/chunkstore_s3.py'
    st = _class(_parse(repo, rel), 'S3ChunkStore', rel)
    f = _func(st, '_verify_bucket', rel)
    body = _strip_doc(f.body)
    if not body or ast.unparse(body[0]) != 'bucket = _bucket_url(url)':
        raise TranslateError('S3ChunkStore._verify_bucket: does not start with bucket = _bucket_url(url)')
    code = []
    for s in body[1:]:
        txt = ast.unparse(s)
        if isinstance(s, ast.If) and ast.unparse(s.test) == 'bucket in self._verified_buckets' and not s.orelse \
                and [ast.unparse(x) for x in s.body] == ['return']:
            code.append(0)
        elif isinstance(s, ast.Try) and len(s.body) == 1 and ast.unparse(s.body[0]).startswith("response = self.request('GET', bucket") \
                and len(s.handlers) == 1 and ast.unparse(s.handlers[0].type) == 'S3ObjectNotFound' \
                and len(s.handlers[0].body) == 1 and isinstance(s.handlers[0].body[0], ast.Raise) \
                and ast.unparse(s.handlers[0].body[0].exc).startswith('StoreUnavailable(') and not s.orelse and not s.finalbody:
            code.append(1)
        elif isinstance(s, ast.Assert) and ast.unparse(s.test) == 'response.ok':
            code.append(2)
        elif isinstance(s, ast.If) and ast.unparse(s.test) == "b'<Contents>' not in response.content" and not s.orelse \
                and isinstance(s.body[-1], ast.Raise) and ast.unparse(s.body[-1].exc).startswith('StoreUnavailable(') \
                and all(isinstance(x, (ast.Assign, ast.Raise)) for x in s.body):
            code.append(3)
        elif txt == 'self._verified_buckets.add(bucket)':
            code.append(4)
        else:
            raise TranslateError('S3ChunkStore._verify_bucket: unsupported statement %s' % txt.split('\n')[0])
    out.append('Definition c20_verify_bucket_code : list Z := [%s].   (* 0 already verified: return  1 list the bucket '
               '(missing -> StoreUnavailable)  2 assert ok  3 empty -> StoreUnavailable  4 remember the bucket *)'
               % '; '.join('(%d)%%Z' % k for k in code))
    # the set is created empty in __init__ and touched nowhere else
    users = sorted({fn.name for fn in st.body if isinstance(fn, ast.FunctionDef)
                    for n in ast.walk(fn) if isinstance(n, ast.Attribute) and n.attr == '_verified_buckets'})
    init = _func(st, '__init__', rel)
    starts = [ast.unparse(n.value) for n in ast.walk(init) if isinstance(n, ast.Assign)
              and _is_self_attr(n.targets[0], ['_verified_buckets'])]
    out.append('Definition c20_verified_buckets_users : list string := %s.' % coq_strings(users))
    out.append('Definition c20_verified_buckets_init_empty : bool := %s.' % ('true' if starts == ['set()'] else 'false'))
    # get_chunk: a missing object triggers the bucket check and is then re-raised
    gc = _func(st, 'get_chunk', rel)
    ok = False
    for n in ast.walk(gc):
        if isinstance(n, ast.Try) and len(n.handlers) == 1 and ast.unparse(n.handlers[0].type) == 'S3ObjectNotFound':
            hb = [x for x in n.handlers[0].body]
            nm = n.handlers[0].name
            ok = (len(hb) == 2 and ast.unparse(hb[0]) == 'self._verify_bucket(url, %s)' % nm
                  and isinstance(hb[1], ast.Raise) and hb[1].exc is None)
    out.append('Definition c20_get_chunk_verifies_on_404 : bool := %s.' % ('true' if ok else 'false'))


# ------------------------------------------------------------------------------------------- state that outlives a call
# (strengthening round) The functions that dask worker threads execute, and the functions behind the accesses the property
# names, are inventoried for every write to an object they did not create themselves (fixtures/sharedwrites.py).  Each
# site must be on the list below, next to the model / theorem that covers it; anything else is a broken obligation
# (C20_shared_writes_modelled) and the harness searches for a failing schedule around the new site.

INVENTORY_FILES = ['katdal/applycal.py', 'katdal/vis_flags_weights.py', 'katdal/chunkstore.py', 'katdal/chunkstore_s3.py',
                   'katdal/chunkstore_npy.py', 'katdal/lazy_indexer.py', 'katdal/sensordata.py', 'katdal/spectral_window.py']

SETUP = 'setup: runs while the data set / store is being constructed or re-selected by its owner, not a first-time access'
ALLOWED = {
    # --- applycal.py
    'applycal.py:add_applycal_sensors:set:cache.virtual[template]': SETUP,
    'applycal.py:add_applycal_sensors:default:gaincal_flux': 'a default that is only read',
    'applycal.py:add_applycal_sensors.<locals>.calc_correction_per_input:set:cache[name]':
        'virtual sensor function: store under the sensor cache lock (C20_sensor_created_once, C20_virtual_functions_fit)',
    'applycal.py:_correction_inputs_to_corrprods:set:g_per_cp[i, j]':
        'output parameter; every caller passes an array it has just made (c20_outparam_callers_fresh)',
    'applycal.py:calc_correction:set:data[j]': SETUP + ' (fills the list made two lines earlier)',
    # --- vis_flags_weights.py
    'vis_flags_weights.py:_apply_data_lost:aug:flags[slices]':
        'copy on first write: `flags` is re-bound to orig_flags.copy() before (c20_copy_on_write_ok)',
    'vis_flags_weights.py:weight_power_scale:set:out[i, j, k]':
        'output parameter, None in the graphs katdal builds (c20_outparam_callers_fresh)',
    # --- chunkstore_s3.py
    "chunkstore_s3.py:_BearerAuth.__call__:set:r.headers['Authorization']": 'the prepared request of this very call',
    "chunkstore_s3.py:_AWSAuth.__call__:set:r.headers['Authorization']": 'the prepared request of this very call',
    'chunkstore_s3.py:_CacheSettingsSession.merge_environment_settings:set:self._cached_settings':
        'state of a session: one request at a time (C20_request_sessions_exclusive); the cached value is a constant',
    'chunkstore_s3.py:_Pool.get:call:self._pool.pop()': 'pool under its lock (C20_pool_exclusive, C20_lock_discipline)',
    'chunkstore_s3.py:_Pool.put:call:self._pool.append()': 'pool under its lock (C20_pool_exclusive, C20_lock_discipline)',
    'chunkstore_s3.py:_Pool.__call__:call:self.put()': 'pool under its lock (pool_call_code)',
    'chunkstore_s3.py:S3ChunkStore.__init__.<locals>.session_factory:call:session.mount()':
        'the session the factory is making (parts attached to it: c20_session_shared_parts, c20_adapter_per_session)',
    'chunkstore_s3.py:S3ChunkStore.__init__.<locals>.session_factory:set:session.auth':
        'the session the factory is making (parts attached to it: c20_session_shared_parts)',
    'chunkstore_s3.py:S3ChunkStore.request:set:adapter.max_retries':
        'the retry budget slot of the adapter of the borrowed session (C20_retry_budget_private)',
    'chunkstore_s3.py:S3ChunkStore._verify_bucket:call:self._verified_buckets.add()': 'C20_verified_buckets_safe',
    # --- lazy_indexer.py
    'lazy_indexer.py:dask_getitem:set:out.dask': 'the dask collection made by x[indices] three lines earlier',
    'lazy_indexer.py:LazyIndexer.__getitem__:set:out_data[out_select]': 'h5 LazyIndexer (v1-v3 files): no first-time state',
    'lazy_indexer.py:DaskLazyIndexer.dataset:set:self._orig_dataset': 'lazy initialisation under the lock (C20_site_dask)',
    'lazy_indexer.py:DaskLazyIndexer.dataset:set:self._dataset': 'lazy initialisation under the lock (C20_site_dask)',
    'lazy_indexer.py:DaskLazyIndexer.get:set:target[...]':
        'output stage: distinct cells (C20_store_order_independent), arrays made by the call or passed as out=',
    # --- sensordata.py
    'sensordata.py:SensorCache.__init__:default:virtual': 'mutable default; every data set class passes its own dict',
    'sensordata.py:SensorCache.__init__:default:aliases': 'a default that is only read',
    'sensordata.py:SensorCache._set_keep:set:self.keep': SETUP + ' (select)',
    'sensordata.py:SensorCache._get_props:call:props.update()': 'property map under the cache lock (C20_props_locked_safe)',
    'sensordata.py:SensorCache._get_props:call:prop_map.setdefault()': 'property map under the cache lock (C20_props_locked_safe)',
    'sensordata.py:SensorCache.add_aliases:set:self._raw[name.replace(original, alias)]': SETUP + ' (NV list)',
    'sensordata.py:SensorCache.get:set:self._raw[name]': 'sensor cache under its lock (C20_site_sensor_get, C20_sensor_created_once)',
    'sensordata.py:SensorCache.get:set:self.timestamps': 'sensor cache under its lock (C20_site_sensor_get: source `timestamps`)',
    'sensordata.py:SensorCache.__setitem__:set:self._raw[key]': 'sensor cache under its lock (sensor_setitem_locked)',
    'sensordata.py:SensorCache.__delitem__:del:self._raw[key]': 'sensor cache under its lock (sensor_delitem_locked)',
    # --- spectral_window.py
    'spectral_window.py:SpectralWindow.channel_freqs:set:self._channel_freqs': 'lazy initialisation under the lock (C20_site_spw)',
}
# functions that dask puts into the graph of a load (block functions): their statements are classified for
# C20_worker_functions_per_call_state
WORKER_FUNCTIONS = [('katdal/applycal.py', '_correction_block'), ('katdal/applycal.py', 'calc_correction_per_corrprod'),
                    ('katdal/applycal.py', '_correction_inputs_to_corrprods'), ('katdal/applycal.py', 'apply_vis_correction'),
                    ('katdal/applycal.py', 'apply_weights_correction'), ('katdal/applycal.py', 'apply_flags_correction'),
                    ('katdal/vis_flags_weights.py', '_default_zero'), ('katdal/vis_flags_weights.py', '_apply_data_lost'),
                    ('katdal/vis_flags_weights.py', '_narrow'), ('katdal/vis_flags_weights.py', 'weight_power_scale')]
K_READ, K_RET_FRESH, K_LOCAL, K_RET_SHARED, K_WRITE, K_WRITE_MODELLED, K_RET_ARG = 1, 3, 4, 5, 6, 7, 8


def inventory(repo):
    from fixtures import sharedwrites as sw
    sites = []
    for rel in INVENTORY_FILES:
        sites += sw.file_sites(repo, rel)
    return sites


def unmodelled_sites(repo):
    return [s for s in inventory(repo) if not s.construction and s.ident not in ALLOWED]


def _is_noise(s):
    """a docstring / bare string, or a call that only reports: logger.debug(...), logging.info(...), warnings.warn(...)"""
    if isinstance(s, ast.Expr) and isinstance(s.value, ast.Constant):
        return True
    if isinstance(s, ast.Expr) and isinstance(s.value, ast.Call):
        from fixtures.sharedwrites import dotted
        d = dotted(s.value.func) or ''
        return d.split('.')[0] in ('logger', 'logging', 'log', '_logger', 'warnings') and \
            d.split('.')[-1] in ('debug', 'info', 'warning', 'warn', 'error', 'exception', 'critical', 'log')
    return False


def _strip_noise(body):
    return [s for s in body if not _is_noise(s)]


def _own_statements(fn):
    """the statements of a function in source order, compound statements contributing their header; nested defs, docstrings
    and logging calls skipped"""
    out = []

    def block(stmts):
        for s in stmts:
            if isinstance(s, (ast.FunctionDef, ast.AsyncFunctionDef, ast.ClassDef)):
                continue
            if _is_noise(s):
                continue                    # docstring, log message
            out.append(s)
            for field in ('body', 'orelse', 'finalbody'):
                b = getattr(s, field, None)
                if isinstance(b, list) and b and isinstance(b[0], ast.stmt):
                    block(b)
            for h in getattr(s, 'handlers', []):
                block(h.body)
    block(fn.body)
    return out


def _header_nodes(s):
    """the expressions evaluated by the statement itself (not by the statements nested in it)"""
    if isinstance(s, (ast.If, ast.While)):
        return [s.test]
    if isinstance(s, (ast.For, ast.AsyncFor)):
        return [s.target, s.iter]
    if isinstance(s, (ast.With, ast.AsyncWith)):
        return [x for i in s.items for x in (i.context_expr, i.optional_vars) if x is not None]
    if isinstance(s, ast.Try):
        return []
    return [s]


def worker_skeleton(repo, rel, fname):
    from fixtures import sharedwrites as sw
    tree = _parse(repo, rel)
    fns = [n for n in tree.body if isinstance(n, ast.FunctionDef) and n.name == fname]
    if len(fns) != 1:
        raise TranslateError('%s: expected exactly one module-level function %s' % (rel, fname))
    fn = fns[0]
    sc = sw.Scope(fn)
    sites = sw.function_sites(fn, fname, rel, False, sw.module_names(tree))
    by_line = {}
    for st in sites:
        by_line.setdefault(st.line, []).append(st)
    code = []
    for s in _own_statements(fn):
        if isinstance(s, (ast.Global, ast.Nonlocal)):
            code.append(K_WRITE)
            continue
        if isinstance(s, (ast.Pass, ast.Break, ast.Continue, ast.Import, ast.ImportFrom)):
            continue
        if isinstance(s, ast.Raise):
            code.append(K_LOCAL)            # (what the message says is irrelevant)
            continue
        here = []
        for h in _header_nodes(s):
            lines = {getattr(n, 'lineno', None) for n in ast.walk(h)}
            here += [st for ln in lines if ln in by_line for st in by_line[ln] if st.kind not in ('decorator', 'default')]
        if isinstance(s, (ast.If, ast.While, ast.For, ast.With, ast.Try)):
            # (a site on the header line of a compound statement that belongs to a nested simple statement on the same line)
            here = [st for st in here if st.line == s.lineno]
        if here:
            code.append(K_WRITE_MODELLED if all(st.ident in ALLOWED for st in here) else K_WRITE)
            continue
        if isinstance(s, ast.Return):
            v = s.value
            if v is None or sc.fresh_expr(v):
                code.append(K_RET_FRESH)
            else:
                if isinstance(v, ast.Name) and (v.id in sc.params or all(
                        b is not None and ((isinstance(b, ast.Name) and b.id in sc.params) or sc.fresh_expr(b))
                        for b in sc.bindings.get(v.id, [None]))):
                    code.append(K_RET_ARG)      # hands back (an alias / a copy of) what the caller passed in
                else:
                    code.append(K_RET_SHARED)
            continue
        reads = False
        for h in _header_nodes(s):
            for n in ast.walk(h):
                if isinstance(n, ast.Attribute) and isinstance(n.ctx, ast.Load) and not sc.fresh_expr(n) \
                        and n.attr not in sw.SCALAR_ATTRS:
                    reads = True
                elif isinstance(n, ast.Name) and isinstance(n.ctx, ast.Load) and n.id in sc.params:
                    reads = True
        code.append(K_READ if reads else K_LOCAL)
    return code


def _outparam_callers_fresh(repo):
    """the functions that write into one of their parameters (allowed sites labelled 'output parameter'): every call of
    them in the inventoried files passes a fresh object in that position (or nothing)"""
    from fixtures import sharedwrites as sw
    outs = {}          # function name -> parameter name
    for ident, label in ALLOWED.items():
        if label.startswith('output parameter'):
            base, qual, kind, text = ident.split(':', 3)
            outs[qual] = text.split('[')[0]
    ok = True
    found = 0
    for rel in INVENTORY_FILES:
        tree = _parse(repo, rel)
        defs = {n.name: n for n in ast.walk(tree) if isinstance(n, ast.FunctionDef)}
        for fn in [n for n in ast.walk(tree) if isinstance(n, (ast.FunctionDef, ast.AsyncFunctionDef))]:
            sc = None
            for n in sw.own_nodes(fn):
                if not isinstance(n, ast.Call):
                    continue
                d = sw.dotted(n.func)
                # direct call f(...), or the function handed to dask: da.blockwise(f, ...), da.map_blocks(f, ...)
                target, args, kws = None, n.args, n.keywords
                if d in outs:
                    target = d
                elif n.args and isinstance(n.args[0], ast.Name) and n.args[0].id in outs and d is not None:
                    target, args = n.args[0].id, None          # in a graph: positional arguments are dask arrays (per-task blocks)
                if target is None or target not in defs:
                    continue
                found += 1
                sc = sc or sw.Scope(fn)
                params = [a.arg for a in defs[target].args.args]
                pos = params.index(outs[target])
                given = None
                if args is not None and len(args) > pos:
                    given = args[pos]
                for kw in kws:
                    if kw.arg == outs[target]:
                        given = kw.value
                if given is not None and not (isinstance(given, ast.Constant) and given.value is None) \
                        and not sc.fresh_expr(given):
                    ok = False
    return ok and found > 0


def _copy_on_write_ok(repo):
    """vis_flags_weights._apply_data_lost: `flags = orig_flags` ... `if flags is orig_flags: flags = orig_flags.copy()`
    immediately before the only write `flags[slices] |= ...`"""
    rel = 'katdal/vis_flags_weights.py'
    fn = _func(_parse(repo, rel), '_apply_data_lost', rel)
    writes = [n for n in ast.walk(fn) if isinstance(n, ast.AugAssign) and isinstance(n.target, ast.Subscript)]
    if len(writes) != 1 or not isinstance(writes[0].target.value, ast.Name):
        return False
    name = writes[0].target.value.id
    for n in ast.walk(fn):
        for field in ('body', 'orelse'):
            b = getattr(n, field, None)
            if isinstance(b, list) and writes[0] in b:
                i = b.index(writes[0])
                if i == 0 or not isinstance(b[i - 1], ast.If):
                    return False
                g = b[i - 1]
                return (ast.unparse(g.test) == '%s is orig_flags' % name and not g.orelse
                        and [ast.unparse(x) for x in g.body] == ['%s = orig_flags.copy()' % name])
    return False


def item_shared_writes(repo, out):
    sites = [s for s in inventory(repo) if not s.construction]
    idents = sorted({s.ident for s in sites})
    unknown = [i for i in idents if i not in ALLOWED]
    out.append('Definition c20_shared_write_sites : list string := %s.' % coq_strings(idents))
    out.append('Definition c20_shared_writes_unmodelled : list string := %s.   (* sites that no model covers *)'
               % coq_strings(unknown))
    out.append('Definition c20_outparam_callers_fresh : bool := %s.' % ('true' if _outparam_callers_fresh(repo) else 'false'))
    out.append('Definition c20_copy_on_write_ok : bool := %s.' % ('true' if _copy_on_write_ok(repo) else 'false'))
    skels = [('%s.%s' % (rel.split('/')[-1][:-3], fname), worker_skeleton(repo, rel, fname)) for rel, fname in WORKER_FUNCTIONS]
    out.append('Definition c20_worker_fn_skeletons : list (string * list Z) := [%s].   (* per statement: 1 reads state that '
               'outlives the call 3 returns a fresh object 4 call-local 5 returns (part of) a shared object 6 writes to state '
               'that outlives the call 7 a write that is modelled (output parameter, copy on write) 8 returns an argument *)'
               % '; '.join('("%s"%%string, [%s])' % (nm, '; '.join('(%d)%%Z' % c for c in code)) for nm, code in skels))
    # the graph of the applycal corrections: one CorrectionParams object is baked into every block (it IS shared)
    rel = 'katdal/applycal.py'
    cc = _func(_parse(repo, rel), 'calc_correction', rel)
    baked = [ast.unparse(n) for n in ast.walk(cc) if isinstance(n, ast.Call) and ast.unparse(n.func) == 'da.map_blocks'
             and n.args and ast.unparse(n.args[0]) == '_correction_block'
             and any(k.arg == 'params' and ast.unparse(k.value) == 'params' for k in n.keywords)]
    if len(baked) != 1:
        raise TranslateError('calc_correction: expected one da.map_blocks(_correction_block, ..., params=params)')


def item_session_parts(repo, out):
    """what the pooled sessions have in common: everything the session factory attaches to the session it makes that
    the factory did not make itself; the adapter (whose `max_retries` is the per-request retry budget slot)"""
    from fixtures import sharedwrites as sw
    rel = 'katdal/chunkstore_s3.py'
    st = _class(_parse(repo, rel), 'S3ChunkStore', rel)
    init = _func(st, '__init__', rel)
    facs = [n for n in init.body if isinstance(n, ast.FunctionDef) and n.name == 'session_factory']
    if len(facs) != 1:
        raise TranslateError('S3ChunkStore.__init__: expected one nested function session_factory')
    fac = facs[0]
    sc = sw.Scope(fac)
    rets = [n for n in ast.walk(fac) if isinstance(n, ast.Return)]
    if len(rets) != 1 or not isinstance(rets[0].value, ast.Name):
        raise TranslateError('session_factory: expected a single `return <name>`')
    sess = rets[0].value.id
    if not sc.name_fresh(sess):
        raise TranslateError('session_factory: the session it returns is not made by the call')
    shared, adapters = [], []
    for s in _own_statements(fac):
        if isinstance(s, ast.Return):
            continue
        if isinstance(s, ast.Assign) and len(s.targets) == 1:
            t = s.targets[0]
            if isinstance(t, ast.Name):
                if t.id == sess:
                    # the constructor arguments of the session
                    shared += [ast.unparse(a) for a in (s.value.args if isinstance(s.value, ast.Call) else [])
                               if not sc.fresh_expr(a)]
                continue                        # a local of the factory
            root, links = sw.chain_of(t)
            if isinstance(root, ast.Name) and root.id == sess:
                if not sc.fresh_expr(s.value):
                    shared.append(ast.unparse(s.value))
                continue
        if isinstance(s, ast.Expr) and isinstance(s.value, ast.Call) and isinstance(s.value.func, ast.Attribute):
            root, links = sw.chain_of(s.value.func.value)
            if isinstance(root, ast.Name) and root.id == sess:
                for a in list(s.value.args) + [k.value for k in s.value.keywords]:
                    if not sc.fresh_expr(a):
                        shared.append(ast.unparse(a))
                if s.value.func.attr == 'mount' and len(s.value.args) == 2:
                    adapters.append(s.value.args[1])
                continue
        raise TranslateError('session_factory: unsupported statement %s' % ast.unparse(s).split('\n')[0])
    per_session = False
    if len(adapters) == 1 and isinstance(adapters[0], ast.Name) and sc.name_fresh(adapters[0].id):
        binds = sc.bindings.get(adapters[0].id, [])
        per_session = bool(binds) and all(isinstance(b, ast.Call) and (sw.dotted(b.func) or '').endswith('HTTPAdapter')
                                          for b in binds)
    out.append('Definition c20_session_shared_parts : list string := %s.   (* attached to every pooled session, not made by '
               'the factory *)' % coq_strings(sorted(set(shared))))
    out.append('Definition c20_adapter_per_session : bool := %s.   (* session.mount(url, HTTPAdapter()) with the adapter made '
               'inside the factory *)' % ('true' if per_session else 'false'))
    # the shared authentication handler keeps no state of its own after construction
    auth_writes = sorted({s.ident for s in sw.file_sites(repo, rel) if not s.construction
                          and s.qual.split('.')[0] in ('_BearerAuth', '_AWSAuth') and s.text.startswith('self')})
    out.append('Definition c20_auth_state_writes : list string := %s.' % coq_strings(auth_writes))
    # request(): adapter = <borrowed session>.get_adapter(url); in the retry loop the budget is stored in the adapter
    # BEFORE every attempt is sent
    req = _func(st, 'request', rel)
    borrowed = None
    for n in ast.walk(req):
        if isinstance(n, ast.With):
            for i in n.items:
                if ast.unparse(i.context_expr) == 'self._session_pool()' and isinstance(i.optional_vars, ast.Name):
                    borrowed = (i.optional_vars.id, n)
    sets_first = False
    if borrowed is not None:
        name, w = borrowed
        body = _strip_noise(w.body)
        ad = None
        for s in body:
            if isinstance(s, ast.Assign) and len(s.targets) == 1 and isinstance(s.targets[0], ast.Name) \
                    and ast.unparse(s.value) == '%s.get_adapter(url)' % name:
                ad = s.targets[0].id
        loops = [s for s in body if isinstance(s, ast.While)]
        if ad is not None and len(loops) == 1:
            lb = _strip_noise(loops[0].body)
            sends = [n for n in ast.walk(loops[0]) if isinstance(n, ast.Call) and isinstance(n.func, ast.Name)
                     and n.func.id == '_request']
            sets = [n for n in ast.walk(req) if isinstance(n, ast.Assign)
                    and any(isinstance(t, ast.Attribute) and t.attr == 'max_retries' for t in n.targets)]
            sets_first = (bool(lb) and ast.unparse(lb[0]) == '%s.max_retries = retries' % ad and len(sets) == 1
                          and len(sends) == 1 and sends[0].lineno > lb[0].lineno
                          and not any(isinstance(n, ast.Assign) and any(isinstance(t, ast.Name) and t.id == ad for t in n.targets)
                                      for n in ast.walk(loops[0])))
    out.append('Definition c20_request_sets_budget_first : bool := %s.   (* adapter.max_retries = retries opens every '
               'iteration of the retry loop, adapter = session.get_adapter(url) of the borrowed session *)'
               % ('true' if sets_first else 'false'))


# ------------------------------------------------------------------------------------------- (round 4) block arguments
# What is HANDED TO EVERY BLOCK of a dask graph that katdal builds: the positional arguments of da.blockwise / da.map_blocks /
# da.core.elemwise (dask arrays: each task gets a chunk, which other tasks may be reading at the same time), the keyword
# arguments that dask passes on to the block function and the variables a nested block function closes over (ONE object for
# all tasks of the graph and for every later load of it).  A block function may only READ them: every parameter it writes
# into (directly, through an alias such as `out = np.empty(..) if out is None else out`, by handing it to a callee that
# writes into it) must be left unbound by the graph so that the function allocates its own per task.  The numba kernels are
# analysed like any other function (their source is what numba compiles): the race window of a written shared buffer lies
# inside compiled nogil code where no source-line pre-emption reaches, so this obligation and the model
# (Model/ScratchRace.v: shared + written by two in-flight tasks = data race at ANY granularity) carry the claim.

BLOCK_FILES = ['katdal/vis_flags_weights.py', 'katdal/applycal.py', 'katdal/chunkstore.py', 'katdal/visdatav4.py',
               'katdal/lazy_indexer.py']
GRAPH_BUILDERS = {'da.blockwise': 'blockwise', 'da.core.blockwise': 'blockwise', 'da.map_blocks': 'map_blocks',
                  'da.core.map_blocks': 'map_blocks', 'da.core.elemwise': 'elemwise', 'da.elemwise': 'elemwise',
                  'da.map_overlap': 'map_blocks'}
# keywords that dask keeps for itself (never reach the block function)
DASK_OWN_KW = {'blockwise': {'dtype', 'name', 'token', 'meta', 'new_axes', 'adjust_chunks', 'concatenate', 'align_arrays'},
               'map_blocks': {'dtype', 'name', 'token', 'meta', 'chunks', 'drop_axis', 'new_axis', 'enforce_ndim',
                              'depth', 'boundary', 'trim', 'align_arrays'},
               'elemwise': {'dtype', 'name'}}
# other uses of the dask namespace in these files that build no per-block call of a katdal function
DASK_OTHER = {'da.core.blockdims_from_blockshape', 'da.slicing.normalize_index', 'da.slicing.normalize_slice', 'da.core.tokenize',
              'da.from_array', 'da.take', 'da.store', 'da.Array', 'da.bitwise_and', 'da.round', 'da.compute', 'da.concatenate',
              'da.stack', 'da.zeros', 'da.ones', 'da.full', 'da.empty', 'da.asarray', 'da.broadcast_to', 'da.where',
              'dask.config.get', 'dask.utils.has_keyword', 'dask.base.tokenize', 'dask.config.set', 'da.core.getter',
              'da.core.normalize_chunks', 'da.optimization.optimize', 'dask.is_dask_collection', 'dask.optimize', 'dask.optimization.cull',
              'dask.highlevelgraph.HighLevelGraph.from_collections'}
K_BLOCK, K_SHARED_KW, K_CLOSURE, K_LITERAL = 1, 2, 3, 4


def _written_params(tree, fn, depth=0):
    """the parameters (and, for a nested function, the free variables) of `fn` that it may write INTO: roots of the
    write sites of fixtures.sharedwrites, closed under aliasing (`x = p`, `x = ... if p is None else p`) and under
    handing the object to a function of the same module that writes into the corresponding parameter"""
    from fixtures import sharedwrites as sw
    sc = sw.Scope(fn)
    a = fn.args
    params = [x.arg for x in a.posonlyargs + a.args + a.kwonlyargs]
    local = set(sc.bindings) | set(params)
    roots = set()
    for st in sw.function_sites(fn, fn.name, '<block>', False, sw.module_names(tree)):
        if st.kind not in ('set', 'aug', 'del', 'call', 'out'):
            continue
        txt = st.text
        if st.kind == 'call':
            if txt.endswith(', ...)'):
                txt = txt[txt.index('(') + 1:-len(', ...)')]       # np.copyto(x, ...)
            else:
                txt = txt[:txt.rindex('.')]                         # x.fill()
        try:
            expr = ast.parse(txt, mode='eval').body
        except SyntaxError:
            raise TranslateError('block function %s: cannot read write site %s' % (fn.name, st.text))
        root, _ = sw.chain_of(expr)
        if not isinstance(root, ast.Name):
            raise TranslateError('block function %s: write site %s has no name at its root' % (fn.name, st.text))
        roots.add(root.id)
    defs = {n.name: n for n in tree.body if isinstance(n, ast.FunctionDef)}
    if depth < 3:
        for n in sw.own_nodes(fn):
            if isinstance(n, ast.Call) and isinstance(n.func, ast.Name) and n.func.id in defs and defs[n.func.id] is not fn:
                g = defs[n.func.id]
                gw = _written_params(tree, g, depth + 1)
                gp = [x.arg for x in g.args.posonlyargs + g.args.args]
                for i, arg in enumerate(n.args):
                    if i < len(gp) and gp[i] in gw:
                        r, _ = sw.chain_of(arg)
                        if isinstance(r, ast.Name):
                            roots.add(r.id)
                for kw in n.keywords:
                    if kw.arg in gw:
                        r, _ = sw.chain_of(kw.value)
                        if isinstance(r, ast.Name):
                            roots.add(r.id)
    # aliases: a written name whose bindings mention other names may BE one of them
    changed = True
    while changed:
        changed = False
        for r in list(roots):
            for v in sc.bindings.get(r, []):
                if v is None:
                    continue
                for n in ast.walk(v):
                    if isinstance(n, ast.Name) and isinstance(n.ctx, ast.Load) and n.id not in roots \
                            and (n.id in params or n.id not in local) and not _fresh_producer(v, n, sc):
                        roots.add(n.id)
                        changed = True
    free = set()
    for n in sw.own_nodes(fn):
        if isinstance(n, ast.Name) and n.id not in local:
            free.add(n.id)
    return {r for r in roots if r in params or r in free}


def _fresh_producer(value, name_node, sc):
    """inside the binding expression `value`, does the name only occur as the argument of something that returns a NEW
    object (p.copy(), np.empty(p.shape), p is None, len(p))?  Then the bound name is no alias of it."""
    from fixtures import sharedwrites as sw

    def alias_of(e):
        if e is name_node:
            return True
        if isinstance(e, ast.IfExp):
            return alias_of(e.body) or alias_of(e.orelse)
        if isinstance(e, ast.BoolOp):
            return any(alias_of(v) for v in e.values)
        if isinstance(e, (ast.Subscript, ast.Starred)):
            return alias_of(e.value)
        if isinstance(e, ast.Attribute):
            return e.attr not in sw.SCALAR_ATTRS and alias_of(e.value)
        if isinstance(e, ast.NamedExpr):
            return alias_of(e.value)
        if isinstance(e, (ast.Tuple, ast.List)):
            return any(alias_of(x) for x in e.elts)
        if isinstance(e, ast.Call):
            d = sw.dotted(e.func)
            if d in sw.FRESH_CALLS:
                return False
            if isinstance(e.func, ast.Attribute) and e.func.attr in sw.FRESH_METHODS:
                return False
            if d is not None and d.split('.')[-1].lstrip('_')[:1].isupper():
                return False
            return any(alias_of(x) for x in list(e.args) + [k.value for k in e.keywords]) or \
                (isinstance(e.func, ast.Attribute) and alias_of(e.func.value))
        return False
    return not alias_of(value)


def block_calls(repo):
    """[(ident, [(parameter, kind, written)])] for every graph-building call of the block files, in source order"""
    from fixtures import sharedwrites as sw
    calls = []
    for rel in BLOCK_FILES:
        tree = _parse(repo, rel)
        base = rel.split('/')[-1]
        module_defs = {n.name: n for n in tree.body if isinstance(n, ast.FunctionDef)}

        def visit(node, enclosing):
            for c in ast.iter_child_nodes(node):
                if isinstance(c, (ast.FunctionDef, ast.AsyncFunctionDef)):
                    visit(c, enclosing + [c])
                    continue
                if isinstance(c, ast.Call):
                    d = sw.dotted(c.func)
                    meth = c.func.attr if isinstance(c.func, ast.Attribute) else None
                    if d in GRAPH_BUILDERS or (d not in DASK_OTHER and meth in ('map_blocks', 'map_overlap', 'blockwise')):
                        kind = GRAPH_BUILDERS.get(d) or ('map_blocks' if meth != 'blockwise' else 'blockwise')
                        calls.append(_one_block_call(tree, base, module_defs, enclosing, c, kind,
                                                     method_form=d not in GRAPH_BUILDERS))
                    elif d is not None and d.split('.')[0] in ('da', 'dask') and d not in DASK_OTHER:
                        raise TranslateError('%s:%d: %s(...) is not a dask call the block-argument inventory knows' %
                                             (rel, c.lineno, d))
                visit(c, enclosing)
        visit(tree, [])
    return calls


def _one_block_call(tree, base, module_defs, enclosing, call, kind, method_form):
    from fixtures import sharedwrites as sw
    where = '%s:%s' % (base, enclosing[-1].name if enclosing else '<module>')
    args = list(call.args)
    if not args or any(isinstance(x, ast.Starred) for x in args) or any(k.arg is None for k in call.keywords):
        raise TranslateError('%s: graph-building call with */** arguments: %s' % (where, ast.unparse(call)[:80]))
    f = args.pop(0)
    if not isinstance(f, ast.Name):
        raise TranslateError('%s: block function is not a plain name: %s' % (where, ast.unparse(f)))
    fn = None
    for e in reversed(enclosing):
        for n in e.body:
            if isinstance(n, ast.FunctionDef) and n.name == f.id:
                fn = n
        if fn is not None:
            break
    nested = fn is not None
    if fn is None:
        fn = module_defs.get(f.id)
    own = DASK_OWN_KW[kind]
    bound = []
    if fn is None:
        # the function is itself a parameter of the enclosing method (visdatav4: elemwise(apply_correction, data, corrections)):
        # only dask's own keywords may accompany it; the candidates are inventoried where they are defined
        if not (enclosing and f.id in [x.arg for x in enclosing[-1].args.args]) or kind != 'elemwise':
            raise TranslateError('%s: block function %s not found' % (where, f.id))
        extra = [k.arg for k in call.keywords if k.arg not in own]
        if extra:
            raise TranslateError('%s: elemwise(%s, ...) passes keywords %s to an unknown function' % (where, f.id, extra))
        return ('%s:%s:<param %s>' % (where, kind, f.id), [('arg%d' % i, K_BLOCK, False) for i in range(len(args))])
    a = fn.args
    if a.vararg is not None or a.kwarg is not None:
        raise TranslateError('%s: block function %s takes */** parameters' % (where, fn.name))
    params = [x.arg for x in a.posonlyargs + a.args]
    allp = params + [x.arg for x in a.kwonlyargs]
    written = _written_params(tree, fn)
    if kind == 'blockwise':
        if len(args) < 1 or len(args) % 2 != 1:
            raise TranslateError('%s: da.blockwise: expected fn, out_index, (array, index)*' % where)
        pairs = args[1:]
        for i in range(0, len(pairs), 2):
            p = params[i // 2] if i // 2 < len(params) else None
            if p is None:
                raise TranslateError('%s: more block arguments than parameters of %s' % (where, fn.name))
            ind = pairs[i + 1]
            lit = isinstance(ind, ast.Constant) and ind.value is None
            if not lit and not (isinstance(ind, ast.Constant) and isinstance(ind.value, str)) and not isinstance(ind, (ast.Tuple, ast.Name)):
                raise TranslateError('%s: da.blockwise index %s' % (where, ast.unparse(ind)))
            bound.append((p, K_LITERAL if lit else K_BLOCK, p in written))
    else:
        for i, _x in enumerate(args):
            if i >= len(params):
                raise TranslateError('%s: more block arguments than parameters of %s' % (where, fn.name))
            bound.append((params[i], K_BLOCK, params[i] in written))
    for k in call.keywords:
        if k.arg in own:
            continue
        if k.arg not in allp:
            raise TranslateError('%s: keyword %s is neither dask\'s nor a parameter of %s' % (where, k.arg, fn.name))
        bound.append((k.arg, K_SHARED_KW, k.arg in written))
    if nested:
        sc = sw.Scope(fn)
        local = set(sc.bindings) | set(allp)
        glob = set(module_defs) | {n.id for st in tree.body if isinstance(st, ast.Assign) for t in st.targets
                                   for n in ast.walk(t) if isinstance(n, ast.Name)} | sw.module_names(tree) | set(dir(__builtins__)) \
            | {al.asname or al.name for st in tree.body if isinstance(st, (ast.Import, ast.ImportFrom)) for al in st.names} \
            | {n.name for n in tree.body if isinstance(n, ast.ClassDef)} | set(__builtins__ if isinstance(__builtins__, dict) else ())
        free = []
        for n in sw.own_nodes(fn):
            if isinstance(n, ast.Name) and n.id not in local and n.id not in glob and n.id not in free:
                free.append(n.id)
        for v in sorted(free):
            bound.append((v, K_CLOSURE, v in written))
    return ('%s:%s:%s' % (where, kind, fn.name), bound)


def item_block_args(repo, out):
    calls = block_calls(repo)
    if not calls:
        raise TranslateError('block-argument inventory: no graph-building call found')
    out.append('Definition c20_block_calls : list (string * list (string * (Z * bool))) := [%s].   (* per graph-building call: '
               'what is bound to which parameter of the block function (1 a dask array: one chunk per task, 2 a keyword passed to '
               'every block, 3 a variable the nested block function closes over, 4 a literal positional) and whether the function '
               'may write into that parameter *)'
               % '; '.join('("%s"%%string, [%s])' % (ident, '; '.join(
                   '("%s"%%string, ((%d)%%Z, %s))' % (p, k, 'true' if w else 'false') for p, k, w in bound))
                   for ident, bound in calls))
    # the written parameters of the numba kernels / block functions that the graphs leave unbound (allocated per call)
    per_call = []
    for rel in BLOCK_FILES:
        tree = _parse(repo, rel)
        for n in tree.body:
            if isinstance(n, ast.FunctionDef) and any('jit' in ast.unparse(d) for d in n.decorator_list):
                w = sorted(_written_params(tree, n))
                per_call.append(('%s:%s' % (rel.split('/')[-1], n.name), w))
    out.append('Definition c20_kernel_written_params : list (string * list string) := [%s].   (* numba kernels: the parameters '
               'they write into *)' % '; '.join('("%s"%%string, %s)' % (k, coq_strings(w)) for k, w in per_call))


# ------------------------------------------------------------------------------------------- (round 4) tests outside a lock
# The guarded fields of a class are DERIVED from its source: every attribute of `self` that some method other than
# __init__ writes (assignment / deletion / augmented assignment, also into an item; a mutating method call) inside a
# `with self.<lock>:`.  Every mention of such a field outside the lock, in any method but __init__, is listed
# (`method:field`), and for SensorCache.get the ones that come BEFORE its `with self._lock:` -- a test made outside the lock
# on state that is written under it -- are what decides the guard position of Model/GuardTest.v.

def _self_field(node):
    """the attribute of `self` an expression is rooted in: self.X, self.X[k], self.X.y -> 'X'"""
    from fixtures.sharedwrites import chain_of
    root, links = chain_of(node)
    if isinstance(root, ast.Name) and root.id == 'self' and links and isinstance(links[0], ast.Attribute):
        return links[0].attr
    return None


def _fields_written(node):
    from fixtures import sharedwrites as sw
    out = set()
    for n in ast.walk(node):
        targets = []
        if isinstance(n, ast.Assign):
            targets = n.targets
        elif isinstance(n, (ast.AugAssign, ast.AnnAssign)):
            targets = [n.target]
        elif isinstance(n, ast.Delete):
            targets = n.targets
        elif isinstance(n, ast.Call) and isinstance(n.func, ast.Attribute) and n.func.attr in sw.MUTATORS:
            targets = [n.func.value]
        for t in targets:
            for tt in (t.elts if isinstance(t, (ast.Tuple, ast.List)) else [t]):
                f = _self_field(tt)
                if f is not None:
                    out.add(f)
    return out


def derived_guard(repo, rel, cls, lock):
    c = _class(_parse(repo, rel), cls, rel)
    methods = [f for f in c.body if isinstance(f, (ast.FunctionDef, ast.AsyncFunctionDef))]
    guarded = set()
    for f in methods:
        if f.name == '__init__':
            continue
        for n in ast.walk(f):
            if isinstance(n, ast.With) and any(_is_self_attr(i.context_expr, [lock]) for i in n.items):
                for st in n.body:
                    guarded |= _fields_written(st)
    guarded.discard(lock)
    outside, pretests = [], {}

    def mentions_outside(node, fields, acc):
        if isinstance(node, ast.With) and any(_is_self_attr(i.context_expr, [lock]) for i in node.items):
            return
        if isinstance(node, ast.Attribute) and isinstance(node.value, ast.Name) and node.value.id == 'self' and node.attr in fields:
            if node.attr not in acc:
                acc.append(node.attr)
        for ch in ast.iter_child_nodes(node):
            mentions_outside(ch, fields, acc)
    for f in methods:
        if f.name == '__init__':
            continue
        acc = []
        mentions_outside(f, guarded, acc)
        outside += ['%s:%s' % (f.name, a) for a in acc]
        # statements of the method body that precede its (first) `with self.<lock>:`
        pre = []
        for st in f.body:
            if isinstance(st, ast.With) and any(_is_self_attr(i.context_expr, [lock]) for i in st.items):
                break
            mentions_outside(st, guarded, pre)
        else:
            pre = []
        pretests[f.name] = pre
    return sorted(guarded), outside, pretests


def item_outside_tests(repo, out):
    rows = []
    for nm, rel, cls, lock in [('sensor', 'katdal/sensordata.py', 'SensorCache', '_lock'),
                               ('concat', 'katdal/concatdata.py', 'ConcatenatedSensorCache', '_lock'),
                               ('dask', 'katdal/lazy_indexer.py', 'DaskLazyIndexer', '_lock'),
                               ('spw', 'katdal/spectral_window.py', 'SpectralWindow', '_channel_freqs_lock'),
                               ('pool', 'katdal/chunkstore_s3.py', '_Pool', '_lock')]:
        guarded, outside, pretests = derived_guard(repo, rel, cls, lock)
        rows.append((nm, guarded, outside))
        if nm == 'sensor':
            if 'get' not in pretests:
                raise TranslateError('SensorCache.get not found')
            out.append('Definition c20_sensor_get_pretests : list string := %s.   (* fields written under the cache lock that '
                       'SensorCache.get mentions BEFORE its `with self._lock:` *)' % coq_strings(pretests['get']))
    out.append('Definition c20_guarded_derived : list (string * list string) := [%s].   (* per class: the attributes written '
               'inside `with self.<lock>:` by a method other than __init__ *)'
               % '; '.join('("%s"%%string, %s)' % (nm, coq_strings(g)) for nm, g, _ in rows))
    out.append('Definition c20_outside_lock_mentions : list (string * list string) := [%s].   (* per class: method:field for '
               'every mention of such an attribute outside the lock (not __init__) *)'
               % '; '.join('("%s"%%string, %s)' % (nm, coq_strings(o)) for nm, _, o in rows))


ITEMS = [item_sites, item_discipline, item_pool, item_sensor_flow, item_props, item_verify_bucket,
         item_shared_writes, item_session_parts, item_block_args, item_outside_tests]
