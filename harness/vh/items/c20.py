"""Translator items for C20: the four lazily-initialising / pooled sites are parsed into the small instruction
set of coq/Model/LazyInit.v (as (code, arg) pairs) together with 'every shared access is inside the lock' flags."""
import ast

from vh.translate import TranslateError, _parse, _class, _func

IFSET, LOAD, COMPUTE, STORE, CLEAR, RETURN = 0, 1, 2, 3, 4, 5


def _mentions(node, attrs):
    """Does the AST node mention self.<attr> for attr in attrs?"""
    for n in ast.walk(node):
        if isinstance(n, ast.Attribute) and isinstance(n.value, ast.Name) and n.value.id == 'self' and n.attr in attrs:
            return True
    return False


def _is_self_attr(node, attrs):
    if isinstance(node, ast.Subscript):
        node = node.value
    return (isinstance(node, ast.Attribute) and isinstance(node.value, ast.Name) and node.value.id == 'self'
            and node.attr in attrs)


def _lock_with(stmt, lock):
    return (isinstance(stmt, ast.With) and len(stmt.items) == 1
            and _is_self_attr(stmt.items[0].context_expr, [lock]))


def _linearise(stmts, cell, srcs, is_unset_test, what):
    out = []
    for s in stmts:
        if isinstance(s, ast.Expr) and isinstance(s.value, ast.Constant):
            continue
        if isinstance(s, ast.If) and is_unset_test(s.test):
            if s.orelse:
                raise TranslateError('%s: lazy-init test has an else branch' % what)
            inner = _linearise(s.body, cell, srcs, is_unset_test, what)
            out.append((IFSET, len(inner)))
            out += inner
        elif isinstance(s, ast.Try):
            out += _linearise(s.body, cell, srcs, is_unset_test, what)
            for h in s.handlers:
                out += [(COMPUTE, 0)] if not _mentions(h, [cell] + srcs) else [(LOAD, 0), (COMPUTE, 0)]
        elif isinstance(s, ast.Assign) and len(s.targets) == 1 and _is_self_attr(s.targets[0], [cell]):
            if not isinstance(s.value, ast.Name):
                out += [(LOAD, 0), (COMPUTE, 0)]
            out.append((STORE, 0))
        elif (isinstance(s, ast.Assign) and len(s.targets) == 1 and _is_self_attr(s.targets[0], srcs)
              and isinstance(s.value, ast.Constant) and s.value.value is None):
            out.append((CLEAR, 0))
        elif isinstance(s, ast.Return):
            out.append((RETURN, 0))
        elif isinstance(s, (ast.Assign, ast.AugAssign, ast.If, ast.For, ast.Expr)):
            if _mentions(s, srcs + [cell]):
                out.append((LOAD, 0))
                if isinstance(s, (ast.Assign, ast.AugAssign)):
                    out.append((COMPUTE, 0))
            else:
                out.append((COMPUTE, 0))
        else:
            raise TranslateError('%s: unsupported statement %s' % (what, type(s).__name__))
    return out


def lazy_site(repo, rel, cls, method, lock, cell, srcs, is_unset_test, returns_local=False):
    what = '%s.%s' % (cls, method)
    f = _func(_class(_parse(repo, rel), cls, rel), method, rel)
    body = [s for s in f.body if not (isinstance(s, ast.Expr) and isinstance(s.value, ast.Constant))]
    withs = [s for s in body if _lock_with(s, lock)]
    locked = True
    # every statement outside the lock that touches the shared fields breaks the guard
    for s in body:
        if s in withs:
            continue
        if _mentions(s, [cell] + srcs):
            locked = False
    if len(withs) != 1:
        locked = False
        inner = [s for s in body]
    else:
        inner = list(withs[0].body)
    tail_return = [s for s in body if isinstance(s, ast.Return) and s not in withs]
    instrs = _linearise(inner, cell, srcs, is_unset_test, what)
    if returns_local and tail_return and not any(c == RETURN for c, _ in instrs):
        instrs.append((RETURN, 0))    # `return sensor_data` after the block returns the local copy
    if not any(c == RETURN for c, _ in instrs):
        raise TranslateError('%s: no return found' % what)
    return instrs, locked


def _emit(out, name, instrs, locked):
    out.append('Definition %s_code : list (Z * Z) := [%s].' % (
        name, '; '.join('((%d)%%Z, (%d)%%Z)' % p for p in instrs)))
    out.append('Definition %s_locked : bool := %s.' % (name, 'true' if locked else 'false'))


def _is_none_test(cell):
    def test(t):
        return (isinstance(t, ast.Compare) and len(t.ops) == 1 and isinstance(t.ops[0], ast.Is)
                and _is_self_attr(t.left, [cell]) and isinstance(t.comparators[0], ast.Constant)
                and t.comparators[0].value is None)
    return test


def item_sites(repo, out):
    i, l = lazy_site(repo, 'katdal/lazy_indexer.py', 'DaskLazyIndexer', 'dataset', '_lock', '_dataset',
                     ['_orig_dataset'], _is_none_test('_dataset'))
    _emit(out, 'site_dask', i, l)
    i, l = lazy_site(repo, 'katdal/spectral_window.py', 'SpectralWindow', 'channel_freqs', '_channel_freqs_lock',
                     '_channel_freqs', [], _is_none_test('_channel_freqs'))
    _emit(out, 'site_spw', i, l)

    def getter_test(t):   # `isinstance(sensor_data, SensorGetter) and extract`: the entry is still raw
        return 'isinstance(sensor_data, SensorGetter)' in ast.unparse(t)
    i, l = lazy_site(repo, 'katdal/sensordata.py', 'SensorCache', 'get', '_lock', '_raw', ['virtual', 'store'],
                     getter_test, returns_local=True)
    _emit(out, 'site_sensor_get', i, l)
    # plain guarded accessors: every statement touching the shared field must be inside `with self._lock:`
    for rel, cls, meth, lock, field, nm in [
            ('katdal/sensordata.py', 'SensorCache', '__setitem__', '_lock', '_raw', 'sensor_setitem'),
            ('katdal/sensordata.py', 'SensorCache', '__delitem__', '_lock', '_raw', 'sensor_delitem'),
            ('katdal/sensordata.py', 'SensorCache', '__contains__', '_lock', '_raw', 'sensor_contains'),
            ('katdal/chunkstore_s3.py', '_Pool', 'get', '_lock', '_pool', 'pool_get'),
            ('katdal/chunkstore_s3.py', '_Pool', 'put', '_lock', '_pool', 'pool_put')]:
        f = _func(_class(_parse(repo, rel), cls, rel), meth, rel)
        body = [s for s in f.body if not (isinstance(s, ast.Expr) and isinstance(s.value, ast.Constant))]
        ok = all(_lock_with(s, lock) or not _mentions(s, [field]) for s in body) and any(_lock_with(s, lock) for s in body)
        out.append('Definition %s_locked : bool := %s.' % (nm, 'true' if ok else 'false'))
    # lock kinds: SensorCache needs a re-entrant lock (virtual sensors look up other sensors under the lock)
    init = _func(_class(_parse(repo, 'katdal/sensordata.py'), 'SensorCache', 'katdal/sensordata.py'), '__init__', 'katdal/sensordata.py')
    kinds = [ast.unparse(s.value) for s in ast.walk(init)
             if isinstance(s, ast.Assign) and _is_self_attr(s.targets[0], ['_lock'])]
    out.append('Definition sensor_lock_reentrant : bool := %s.' % ('true' if kinds == ['threading.RLock()'] else 'false'))


ITEMS = [item_sites]
