"""Translator items for C06 (fail-closed): the loop conditions and bodies of chunkstore._prune_chunks, and the fill /
flag constants of vis_flags_weights (what a missing flags chunk is filled with, what _default_zero fills with, which
mask _apply_data_lost ORs in)."""
import ast

from vh.translate import TranslateError, _parse, _module_assign, _const_eval, coq_Z

OPS = {ast.LtE: '<=?', ast.Lt: '<?', ast.GtE: '>=?', ast.Gt: '>?', ast.Eq: '=?'}


def _mfunc(tree, name, rel):
    found = [n for n in tree.body if isinstance(n, ast.FunctionDef) and n.name == name]
    if len(found) != 1:
        raise TranslateError('%s: expected exactly one module-level function %s' % (rel, name))
    return found[0]


def _expr(node, what):
    """Tiny expression language of the loop conditions; chunks[axis][...] is the chunk under test `c`."""
    src = ast.unparse(node)
    table = {'start': 'start', 'stop': 'stop', 'shape[axis]': 'shape',
             'chunks[axis][start_chunk]': 'c', 'chunks[axis][stop_chunk - 1]': 'c'}
    if src in table:
        return table[src]
    if isinstance(node, ast.Constant) and isinstance(node.value, int) and not isinstance(node.value, bool):
        return coq_Z(node.value)
    if isinstance(node, ast.BinOp) and isinstance(node.op, (ast.Sub, ast.Add)):
        return '(%s %s %s)' % (_expr(node.left, what), '-' if isinstance(node.op, ast.Sub) else '+', _expr(node.right, what))
    raise TranslateError('%s: unsupported expression %s' % (what, src))


def _cond(node, what):
    if not (isinstance(node, ast.Compare) and len(node.ops) == 1 and type(node.ops[0]) in OPS):
        raise TranslateError('%s: unsupported condition %s' % (what, ast.unparse(node)))
    return '(%s %s %s)' % (_expr(node.left, what), OPS[type(node.ops[0])], _expr(node.comparators[0], what))


def item_prune(repo, out):
    rel = 'katdal/chunkstore.py'
    fn = _mfunc(_parse(repo, rel), '_prune_chunks', rel)
    loops = [n for n in fn.body if isinstance(n, ast.For)]
    if len(loops) != 1 or ast.unparse(loops[0].target) != 'axis':
        raise TranslateError('_prune_chunks: expected one `for axis` loop')
    body = loops[0].body
    whiles = [n for n in body if isinstance(n, ast.While)]
    if len(whiles) != 2:
        raise TranslateError('_prune_chunks: expected two while loops, found %d' % len(whiles))
    w1, w2 = whiles
    # guards: the repaired code keeps the last remaining chunk; the original guards are still recognised (so that an
    # unrepaired tree breaks only C06's own obligation gen_prune_keep_one = true, not the whole translator)
    keep_one = []
    for w, guards, stmts, nm in (
            (w1, {'start_chunk < len(chunks[axis]) - 1': True, 'start_chunk < len(chunks[axis])': False},
             ['c = chunks[axis][start_chunk]', 'offset[axis] += c', 'start -= c', 'stop -= c', 'shape[axis] -= c',
              'start_chunk += 1'], 'first'),
            (w2, {'stop_chunk > start_chunk + 1': True, 'stop_chunk > start_chunk': False},
             ['stop_chunk -= 1', 'c = chunks[axis][stop_chunk]', 'shape[axis] -= c'], 'second')):
        t = w.test
        if not (isinstance(t, ast.BoolOp) and isinstance(t.op, ast.And) and len(t.values) == 2):
            raise TranslateError('_prune_chunks: %s while: condition is not `guard and test`' % nm)
        g = ast.unparse(t.values[0])
        if g not in guards:
            raise TranslateError('_prune_chunks: %s while: guard is %s' % (nm, g))
        keep_one.append(guards[g])
        got = [ast.unparse(s) for s in w.body]
        if got != stmts or w.orelse:
            raise TranslateError('_prune_chunks: %s while: body is %s' % (nm, got))
    tail = [ast.unparse(s) for s in body[body.index(w2) + 1:]]
    want_tail = ['chunks[axis] = chunks[axis][start_chunk:stop_chunk]',
                 'if not chunks[axis]:\n    chunks[axis] = (0,)', 'index[axis] = slice(start, stop)']
    if tail != want_tail:
        raise TranslateError('_prune_chunks: statements after the loops are %s' % tail)
    head = [ast.unparse(s) for s in body[:body.index(w1)]]
    want_head = ['if index[axis] == slice(None):\n    continue', 'start, stop, step = index[axis].indices(shape[axis])',
                 'assert step == 1', 'start_chunk = 0']
    if head != want_head:
        raise TranslateError('_prune_chunks: statements before the loops are %s' % head)
    out.append('(* chunkstore._prune_chunks: while more than one chunk is left, the chunk c under test is dropped if ... *)')
    out.append('Definition gen_prune_front_keeps_last : bool := %s.' % ('true' if keep_one[0] else 'false'))
    out.append('Definition gen_prune_back_keeps_last : bool := %s.' % ('true' if keep_one[1] else 'false'))
    out.append('Definition gen_prune_front_drop (c start : Z) : bool := %s.' % _cond(w1.test.values[1], 'first while'))
    out.append('Definition gen_prune_back_drop (c shape stop : Z) : bool := %s.' % _cond(w2.test.values[1], 'second while'))


def item_fill(repo, out):
    rel = 'katdal/vis_flags_weights.py'
    tree = _parse(repo, rel)
    ftree = _parse(repo, 'katdal/flags.py')
    env = {}
    env['DATA_LOST_BIT'] = _const_eval(_module_assign(ftree, 'DATA_LOST_BIT', 'flags.py'), {}, 'DATA_LOST_BIT')
    env['DATA_LOST'] = _const_eval(_module_assign(ftree, 'DATA_LOST', 'flags.py'), env, 'DATA_LOST')
    # errors = DATA_LOST if array == 'flags' else 'placeholder'
    found = [n for n in ast.walk(tree) if isinstance(n, ast.Assign) and ast.unparse(n.targets[0]) == 'errors']
    if len(found) != 1 or not isinstance(found[0].value, ast.IfExp):
        raise TranslateError('vis_flags_weights: `errors = ... if ... else ...` not found')
    ie = found[0].value
    if ast.unparse(ie.test) != "array == 'flags'" or ast.unparse(ie.orelse) != "'placeholder'":
        raise TranslateError('vis_flags_weights: errors expression is %s' % ast.unparse(ie))
    out.append('Definition gen_flags_missing_fill : Z := %s.' % coq_Z(_const_eval(ie.body, env, 'errors')))
    # _default_zero
    dz = _mfunc(tree, '_default_zero', rel)
    src = [ast.unparse(s) for s in dz.body]
    if src != ['if isinstance(array, PlaceholderChunk):\n    return np.zeros(array.shape, array.dtype)\nelse:\n    return array']:
        raise TranslateError('_default_zero body is %s' % src)
    out.append('Definition gen_default_fill : Z := %s.' % coq_Z(0))
    # _apply_data_lost
    adl = _mfunc(tree, '_apply_data_lost', rel)
    src = [ast.unparse(s) for s in adl.body]
    want = ['if not lost:\n    return orig_flags', 'flags = orig_flags',
            'for chunk, slices in toolz.partition(2, lost):\n    if isinstance(chunk, PlaceholderChunk):\n'
            '        if flags is orig_flags:\n            flags = orig_flags.copy()\n        flags[slices] |= %s',
            'return flags']
    aug = [n for n in ast.walk(adl) if isinstance(n, ast.AugAssign)]
    if len(aug) != 1 or not isinstance(aug[0].op, ast.BitOr) or ast.unparse(aug[0].target) != 'flags[slices]':
        raise TranslateError('_apply_data_lost: expected exactly one `flags[slices] |= <mask>`')
    want[2] = want[2] % ast.unparse(aug[0].value)
    if src != want:
        raise TranslateError('_apply_data_lost body is %s' % src)
    out.append('Definition gen_lost_or_mask : Z := %s.' % coq_Z(_const_eval(aug[0].value, env, '_apply_data_lost mask')))
    # weights = weights * weights_channel[..., np.newaxis]
    sw = [n for n in ast.walk(tree) if isinstance(n, ast.Assign) and ast.unparse(n.targets[0]) == 'stored_weights']
    if len(sw) != 1 or ast.unparse(sw[0].value) != "darray['weights'] * darray['weights_channel'][..., np.newaxis]":
        raise TranslateError('vis_flags_weights: stored_weights expression changed')
    # intersect_chunks(flags chunks, source chunks): old = flags
    ic = [n for n in ast.walk(tree) if isinstance(n, ast.Call) and ast.unparse(n.func) == 'intersect_chunks']
    if len(ic) != 1 or [ast.unparse(a) for a in ic[0].args] != ["darray['flags'].chunks", 'chunks']:
        raise TranslateError('vis_flags_weights: intersect_chunks call changed')
    out.append('Definition gen_intersect_old_is_flags : bool := true.')


ITEMS = [item_prune, item_fill]
