"""Translator items for C06 (fail-closed): the loop conditions and bodies of chunkstore._prune_chunks, and the fill /
flag constants of vis_flags_weights (what a missing flags chunk is filled with, what _default_zero fills with, which
mask _apply_data_lost ORs in)."""
import ast

from vh.translate import TranslateError, _parse, _module_assign, _const_eval, coq_Z, coq_string, coq_strings

OPS = {ast.LtE: '<=?', ast.Lt: '<?', ast.GtE: '>=?', ast.Gt: '>?', ast.Eq: '=?'}


def _mfunc(tree, name, rel):
    found = [n for n in tree.body if isinstance(n, ast.FunctionDef) and n.name == name]
    if len(found) != 1:
        raise TranslateError('%s: expected exactly one module-level function %s' % (rel, name))
    return found[0]


def _expr(node, what):
    """Tiny expression language of the loop conditions; chunks[axis][...] is the chunk under test `c`."""
    src = ast.unparse(node)
    table = {'start': 'start', 'stop': 'stop', 'shape[axis]': 'shape',
             'chunks[axis][start_chunk]': 'c', 'chunks[axis][stop_chunk - 1]': 'c'}
    if src in table:
        return table[src]
    if isinstance(node, ast.Constant) and isinstance(node.value, int) and not isinstance(node.value, bool):
        return coq_Z(node.value)
    if isinstance(node, ast.BinOp) and isinstance(node.op, (ast.Sub, ast.Add)):
        return '(%s %s %s)' % (_expr(node.left, what), '-' if isinstance(node.op, ast.Sub) else '+', _expr(node.right, what))
    raise TranslateError('%s: unsupported expression %s' % (what, src))


def _cond(node, what):
    if not (isinstance(node, ast.Compare) and len(node.ops) == 1 and type(node.ops[0]) in OPS):
        raise TranslateError('%s: unsupported condition %s' % (what, ast.unparse(node)))
    return '(%s %s %s)' % (_expr(node.left, what), OPS[type(node.ops[0])], _expr(node.comparators[0], what))


def item_prune(repo, out):
    rel = 'katdal/chunkstore.py'
    fn = _mfunc(_parse(repo, rel), '_prune_chunks', rel)
    loops = [n for n in fn.body if isinstance(n, ast.For)]
    if len(loops) != 1 or ast.unparse(loops[0].target) != 'axis':
        raise TranslateError('_prune_chunks: expected one `for axis` loop')
    body = loops[0].body
    whiles = [n for n in body if isinstance(n, ast.While)]
    if len(whiles) != 2:
        raise TranslateError('_prune_chunks: expected two while loops, found %d' % len(whiles))
    w1, w2 = whiles
    # guards: the repaired code keeps the last remaining chunk; the original guards are still recognised (so that an
    # unrepaired tree breaks only C06's own obligation gen_prune_keep_one = true, not the whole translator)
    keep_one = []
    for w, guards, stmts, nm in (
            (w1, {'start_chunk < len(chunks[axis]) - 1': True, 'start_chunk < len(chunks[axis])': False},
             ['c = chunks[axis][start_chunk]', 'offset[axis] += c', 'start -= c', 'stop -= c', 'shape[axis] -= c',
              'start_chunk += 1'], 'first'),
            (w2, {'stop_chunk > start_chunk + 1': True, 'stop_chunk > start_chunk': False},
             ['stop_chunk -= 1', 'c = chunks[axis][stop_chunk]', 'shape[axis] -= c'], 'second')):
        t = w.test
        if not (isinstance(t, ast.BoolOp) and isinstance(t.op, ast.And) and len(t.values) == 2):
            raise TranslateError('_prune_chunks: %s while: condition is not `guard and test`' % nm)
        g = ast.unparse(t.values[0])
        if g not in guards:
            raise TranslateError('_prune_chunks: %s while: guard is %s' % (nm, g))
        keep_one.append(guards[g])
        got = [ast.unparse(s) for s in w.body]
        if got != stmts or w.orelse:
            raise TranslateError('_prune_chunks: %s while: body is %s' % (nm, got))
    tail = [ast.unparse(s) for s in body[body.index(w2) + 1:]]
    want_tail = ['chunks[axis] = chunks[axis][start_chunk:stop_chunk]',
                 'if not chunks[axis]:\n    chunks[axis] = (0,)', 'index[axis] = slice(start, stop)']
    if tail != want_tail:
        raise TranslateError('_prune_chunks: statements after the loops are %s' % tail)
    head = [ast.unparse(s) for s in body[:body.index(w1)]]
    want_head = ['if index[axis] == slice(None):\n    continue', 'start, stop, step = index[axis].indices(shape[axis])',
                 'assert step == 1', 'start_chunk = 0']
    if head != want_head:
        raise TranslateError('_prune_chunks: statements before the loops are %s' % head)
    out.append('(* chunkstore._prune_chunks: while more than one chunk is left, the chunk c under test is dropped if ... *)')
    out.append('Definition gen_prune_front_keeps_last : bool := %s.' % ('true' if keep_one[0] else 'false'))
    out.append('Definition gen_prune_back_keeps_last : bool := %s.' % ('true' if keep_one[1] else 'false'))
    out.append('Definition gen_prune_front_drop (c start : Z) : bool := %s.' % _cond(w1.test.values[1], 'first while'))
    out.append('Definition gen_prune_back_drop (c shape stop : Z) : bool := %s.' % _cond(w2.test.values[1], 'second while'))


def item_fill(repo, out):
    rel = 'katdal/vis_flags_weights.py'
    tree = _parse(repo, rel)
    ftree = _parse(repo, 'katdal/flags.py')
    env = {}
    env['DATA_LOST_BIT'] = _const_eval(_module_assign(ftree, 'DATA_LOST_BIT', 'flags.py'), {}, 'DATA_LOST_BIT')
    env['DATA_LOST'] = _const_eval(_module_assign(ftree, 'DATA_LOST', 'flags.py'), env, 'DATA_LOST')
    # errors = DATA_LOST if array == 'flags' else 'placeholder'
    found = [n for n in ast.walk(tree) if isinstance(n, ast.Assign) and ast.unparse(n.targets[0]) == 'errors']
    if len(found) != 1 or not isinstance(found[0].value, ast.IfExp):
        raise TranslateError('vis_flags_weights: `errors = ... if ... else ...` not found')
    ie = found[0].value
    if ast.unparse(ie.test) != "array == 'flags'" or ast.unparse(ie.orelse) != "'placeholder'":
        raise TranslateError('vis_flags_weights: errors expression is %s' % ast.unparse(ie))
    out.append('Definition gen_flags_missing_fill : Z := %s.' % coq_Z(_const_eval(ie.body, env, 'errors')))
    # _default_zero
    dz = _mfunc(tree, '_default_zero', rel)
    src = [ast.unparse(s) for s in dz.body]
    if src != ['if isinstance(array, PlaceholderChunk):\n    return np.zeros(array.shape, array.dtype)\nelse:\n    return array']:
        raise TranslateError('_default_zero body is %s' % src)
    out.append('Definition gen_default_fill : Z := %s.' % coq_Z(0))
    # _apply_data_lost
    adl = _mfunc(tree, '_apply_data_lost', rel)
    src = [ast.unparse(s) for s in adl.body]
    want = ['if not lost:\n    return orig_flags', 'flags = orig_flags',
            'for chunk, slices in toolz.partition(2, lost):\n    if isinstance(chunk, PlaceholderChunk):\n'
            '        if flags is orig_flags:\n            flags = orig_flags.copy()\n        flags[slices] |= %s',
            'return flags']
    aug = [n for n in ast.walk(adl) if isinstance(n, ast.AugAssign)]
    if len(aug) != 1 or not isinstance(aug[0].op, ast.BitOr) or ast.unparse(aug[0].target) != 'flags[slices]':
        raise TranslateError('_apply_data_lost: expected exactly one `flags[slices] |= <mask>`')
    want[2] = want[2] % ast.unparse(aug[0].value)
    if src != want:
        raise TranslateError('_apply_data_lost body is %s' % src)
    out.append('Definition gen_lost_or_mask : Z := %s.' % coq_Z(_const_eval(aug[0].value, env, '_apply_data_lost mask')))
    # weights = weights * weights_channel[..., np.newaxis]
    sw = [n for n in ast.walk(tree) if isinstance(n, ast.Assign) and ast.unparse(n.targets[0]) == 'stored_weights']
    if len(sw) != 1 or ast.unparse(sw[0].value) != "darray['weights'] * darray['weights_channel'][..., np.newaxis]":
        raise TranslateError('vis_flags_weights: stored_weights expression changed')
    # intersect_chunks(flags chunks, source chunks): old = flags
    ic = [n for n in ast.walk(tree) if isinstance(n, ast.Call) and ast.unparse(n.func) == 'intersect_chunks']
    if len(ic) != 1 or [ast.unparse(a) for a in ic[0].args] != ["darray['flags'].chunks", 'chunks']:
        raise TranslateError('vis_flags_weights: intersect_chunks call changed')
    out.append('Definition gen_intersect_old_is_flags : bool := true.')


ITEMS = [item_prune, item_fill]


# =============================================================================================================
# round 2: the glue around the modelled core

def _method(tree, cls, name, rel):
    found = [n for n in tree.body if isinstance(n, ast.ClassDef) and n.name == cls]
    if len(found) != 1:
        raise TranslateError('%s: class %s not found' % (rel, cls))
    fns = [n for n in found[0].body if isinstance(n, ast.FunctionDef) and n.name == name]
    if len(fns) != 1:
        raise TranslateError('%s: expected exactly one method %s.%s' % (rel, cls, name))
    return fns[0]


def _body(fn):
    """Statements of a function without its docstring."""
    b = fn.body
    if b and isinstance(b[0], ast.Expr) and isinstance(b[0].value, ast.Constant) and isinstance(b[0].value.value, str):
        b = b[1:]
    return b


def _src(stmts):
    return [ast.unparse(s) for s in stmts]


def _str_const(node, what):
    if not (isinstance(node, ast.Constant) and isinstance(node.value, str)):
        raise TranslateError('%s: expected a string literal, got %s' % (what, ast.unparse(node)))
    return node.value


def _defaults(fn):
    """{argument name: unparsed default} of a FunctionDef (positional-or-keyword arguments only)."""
    a = fn.args
    if a.vararg or a.kwonlyargs or a.posonlyargs:
        raise TranslateError('%s: unexpected signature' % fn.name)
    names = [x.arg for x in a.args]
    ds = [ast.unparse(d) for d in a.defaults]
    return names, dict(zip(names[len(names) - len(ds):], ds))


GETTERS = {'get_chunk_or_placeholder': None, 'get_chunk': 2, 'get_chunk_or_default': 4}


def item_getters(repo, out):
    """ChunkStore.get_dask_array: the `errors` decision chain, what follows it; the two fall-back getters;
    PlaceholderChunk.__getitem__; the NPY store's get_chunk (no state besides the path)."""
    rel = 'katdal/chunkstore.py'
    tree = _parse(repo, rel)
    gda = _method(tree, 'ChunkStore', 'get_dask_array', rel)
    names, dflt = _defaults(gda)
    if names != ['self', 'array_name', 'chunks', 'dtype', 'offset', 'index', 'errors'] or \
            dflt != {'offset': '()', 'index': '()', 'errors': '0'}:
        raise TranslateError('get_dask_array: signature is %s %s' % (names, dflt))
    body = _body(gda)
    if not (len(body) >= 2 and ast.unparse(body[0]) == 'getter_kwargs = {}' and isinstance(body[1], ast.If)):
        raise TranslateError('get_dask_array: does not start with getter_kwargs = {} and the errors chain')
    # ---- the chain, in source order
    branches = []      # (coq condition, coq result)
    node = body[1]
    while True:
        t = node.test
        tsrc = ast.unparse(t)
        bsrc = _src(node.body)
        if isinstance(t, ast.Compare) and len(t.ops) == 1 and isinstance(t.ops[0], ast.In) and \
                ast.unparse(t.left) == 'errors' and isinstance(t.comparators[0], ast.Tuple):
            strs = [_str_const(e, 'get_dask_array errors chain') for e in t.comparators[0].elts]
            cond = '(andb is_str (existsb (String.eqb s) %s))' % coq_strings(strs)
        elif isinstance(t, ast.Compare) and len(t.ops) == 1 and isinstance(t.ops[0], ast.Eq) and \
                ast.unparse(t.left) == 'errors':
            cond = '(andb is_str (String.eqb s %s))' % coq_string(_str_const(t.comparators[0], 'get_dask_array errors chain'))
        elif tsrc == 'isinstance(errors, str)':
            cond = 'is_str'
        else:
            raise TranslateError('get_dask_array: unsupported test %s' % tsrc)
        branches.append((cond, _getter_result(node.body, bsrc)))
        if len(node.orelse) == 1 and isinstance(node.orelse[0], ast.If):
            node = node.orelse[0]
            continue
        branches.append((None, _getter_result(node.orelse, _src(node.orelse))))
        break
    expr = branches[-1][1]
    for cond, res in reversed(branches[:-1]):
        expr = 'if %s then %s else %s' % (cond, res, expr)
    out.append('(* ChunkStore.get_dask_array: errors -> getter.  0 placeholder, 1 placeholder+dryrun, 2 get_chunk (raise), '
               '3 ValueError, 4 get_chunk_or_default(default_value=errors) *)')
    out.append('Definition gen_errors_mode (is_str : bool) (s : string) : Z := %s.' % expr)
    rest = _src(body[2:])
    want = ['if index:\n    assert offset == ()\n    chunks, index, offset = _prune_chunks(chunks, index)',
            'if any(offset):\n    getter = _add_offset_to_slices(getter, offset)',
            'token = da.core.tokenize(self, chunks, dtype, index)',
            "out_name = f'{array_name}-{offset}-{token}'",
            'getter_shim = _ArrayLikeGetter(getter, array_name, chunks, dtype, **getter_kwargs)',
            'from_array_kwargs = {}',
            "if dask.utils.has_keyword(da.from_array, 'inline_array'):\n    from_array_kwargs['inline_array'] = True",
            'array = da.from_array(getter_shim, chunks, out_name, asarray=False, getitem=_ArrayLikeGetter.__getitem__, '
            'meta=np.empty(shape=(0,) * getter_shim.ndim, dtype=getter_shim.dtype), **from_array_kwargs)',
            'return array[index]']
    if rest != want:
        raise TranslateError('get_dask_array: statements after the errors chain are %s' % rest)
    out.append('Definition gen_gda_prunes_iff_index_nonempty : bool := true.')
    out.append('Definition gen_gda_slices_after_prune : bool := true.')
    # ---- _add_offset_to_slices
    aos = _mfunc(tree, '_add_offset_to_slices', rel)
    inner = [n for n in aos.body if isinstance(n, ast.FunctionDef)]
    if len(inner) != 1 or _src(_body(inner[0])) != [
            'offset_slices = tuple((slice(s.start + i, s.stop + i) for s, i in zip(slices, offset)))',
            'return func(array_name, offset_slices, *args, **kwargs)']:
        raise TranslateError('_add_offset_to_slices changed')
    out.append('Definition gen_offset_slice (start stop off : Z) : Z * Z := (start + off, stop + off).')
    # ---- the fall-back getters
    gd = _method(tree, 'ChunkStore', 'get_chunk_or_default', rel)
    if _defaults(gd) != (['self', 'array_name', 'slices', 'dtype', 'default_value'], {'default_value': '0'}) or \
            _src(_body(gd)) != ['try:\n    return self.get_chunk(array_name, slices, dtype)\nexcept ChunkNotFound:\n'
                                '    chunk_name, shape = self.chunk_metadata(array_name, slices)\n'
                                '    return np.full(shape, default_value, dtype)']:
        raise TranslateError('get_chunk_or_default changed: %s' % _src(_body(gd)))
    gp = _method(tree, 'ChunkStore', 'get_chunk_or_placeholder', rel)
    if _defaults(gp) != (['self', 'array_name', 'slices', 'dtype', 'dryrun'], {'dryrun': 'False'}) or \
            _src(_body(gp)) != ['if not dryrun:\n    try:\n        return self.get_chunk(array_name, slices, dtype)\n'
                                '    except ChunkNotFound:\n        pass',
                                'chunk_name, shape = self.chunk_metadata(array_name, slices)',
                                'return PlaceholderChunk(shape, dtype, chunk_name)']:
        raise TranslateError('get_chunk_or_placeholder changed: %s' % _src(_body(gp)))
    out.append('(* get_chunk_or_placeholder asks the store unless dryrun; get_chunk_or_default / _or_placeholder fall back '
               'exactly on ChunkNotFound *)')
    out.append('Definition gen_placeholder_asks_store (dryrun : bool) : bool := negb dryrun.')
    out.append('Definition gen_fallback_only_on_not_found : bool := true.')
    # ---- PlaceholderChunk
    pg = _method(tree, 'PlaceholderChunk', '__getitem__', rel)
    if _src(_body(pg)) != ['dummy = np.empty(self.shape, dtype=[])', 'new_shape = dummy[index].shape',
                           'return PlaceholderChunk(new_shape, self.dtype, self.name)']:
        raise TranslateError('PlaceholderChunk.__getitem__ changed')
    out.append('Definition gen_placeholder_slice_keeps_identity : bool := true.')
    # ---- the NPY store answers from the file system alone
    reln = 'katdal/chunkstore_npy.py'
    gc = _method(_parse(repo, reln), 'NpyFileChunkStore', 'get_chunk', reln)
    got = _src(_body(gc))
    if got[:3] != ['chunk_name, shape = self.chunk_metadata(array_name, slices, dtype=dtype)',
                   "filename = os.path.join(self.path, chunk_name) + '.npy'",
                   'with self._standard_errors(chunk_name):\n    chunk = np.load(filename, allow_pickle=False)'] or \
            len(got) != 5 or not got[3].startswith('if chunk.shape != shape or chunk.dtype != dtype:\n    raise BadChunk(') \
            or got[4] != 'return chunk':
        raise TranslateError('NpyFileChunkStore.get_chunk changed: %s' % got[:3])
    out.append('(* NpyFileChunkStore.get_chunk reads the chunk file on every call: what it answers depends on the files only *)')
    out.append('Definition gen_npy_get_chunk_stateless : bool := true.')


def _getter_result(stmts, bsrc):
    if len(stmts) == 1 and isinstance(stmts[0], ast.Raise):
        if not ast.unparse(stmts[0]).startswith('raise ValueError('):
            raise TranslateError('get_dask_array: errors chain raises %s' % bsrc)
        return '3'
    if not bsrc or not bsrc[0].startswith('getter = self.'):
        raise TranslateError('get_dask_array: errors branch is %s' % bsrc)
    g = bsrc[0][len('getter = self.'):]
    if g not in GETTERS:
        raise TranslateError('get_dask_array: unknown getter %s' % g)
    if g == 'get_chunk':
        if len(bsrc) != 1:
            raise TranslateError('get_dask_array: errors branch is %s' % bsrc)
        return '2'
    if g == 'get_chunk_or_default':
        if bsrc[1:] != ["getter_kwargs['default_value'] = errors"]:
            raise TranslateError('get_dask_array: errors branch is %s' % bsrc)
        return '4'
    node = stmts[1] if len(stmts) == 2 else None
    if not (isinstance(node, ast.Assign) and ast.unparse(node.targets[0]) == "getter_kwargs['dryrun']"
            and isinstance(node.value, ast.Compare) and len(node.value.ops) == 1
            and isinstance(node.value.ops[0], ast.Eq) and ast.unparse(node.value.left) == 'errors'):
        raise TranslateError('get_dask_array: errors branch is %s' % bsrc)
    return '(if andb is_str (String.eqb s %s) then 1 else 0)' % coq_string(_str_const(node.value.comparators[0], 'dryrun'))


def item_prune_head(repo, out):
    """_prune_chunks: everything outside the `for axis` loop (index normalisation, the unit-step test, default offset)."""
    rel = 'katdal/chunkstore.py'
    fn = _mfunc(_parse(repo, rel), '_prune_chunks', rel)
    if _defaults(fn) != (['chunks', 'index', 'offset'], {'offset': '()'}):
        raise TranslateError('_prune_chunks: signature changed')
    body = _body(fn)
    loops = [n for n in body if isinstance(n, ast.For)]
    if len(loops) != 1:
        raise TranslateError('_prune_chunks: expected one for loop')
    k = body.index(loops[0])
    head = _src(body[:k])
    want = ['chunks = [list(c) for c in chunks]', 'shape = [sum(c) for c in chunks]',
            'index = list(da.slicing.normalize_index(index, shape))', None,
            'offset = list(offset) if offset else [0] * len(shape)']
    if len(head) != 5 or [h for h, w in zip(head, want) if w is not None and h != w]:
        raise TranslateError('_prune_chunks: statements before the loop are %s' % head)
    chk = body[3]
    ok = (isinstance(chk, ast.If) and not chk.orelse and len(chk.body) == 1 and isinstance(chk.body[0], ast.Raise)
          and ast.unparse(chk.body[0]).startswith('raise IndexError('))
    t = chk.test if ok else None
    if not (ok and isinstance(t, ast.UnaryOp) and isinstance(t.op, ast.Not)
            and isinstance(t.operand, ast.Call) and ast.unparse(t.operand.func) == 'all'
            and len(t.operand.args) == 1 and isinstance(t.operand.args[0], ast.GeneratorExp)):
        raise TranslateError('_prune_chunks: unit-step test is %s' % (ast.unparse(chk) if chk else None))
    ge = t.operand.args[0]
    if ast.unparse(ge.generators[0].iter) != 'index' or ast.unparse(ge.generators[0].target) != 'idx' or ge.generators[0].ifs:
        raise TranslateError('_prune_chunks: unit-step test iterates over %s' % ast.unparse(ge.generators[0]))
    e = ge.elt
    if not (isinstance(e, ast.BoolOp) and isinstance(e.op, ast.And) and len(e.values) == 2
            and ast.unparse(e.values[0]) == 'isinstance(idx, slice)'
            and isinstance(e.values[1], ast.Compare) and len(e.values[1].ops) == 1
            and isinstance(e.values[1].ops[0], ast.In) and ast.unparse(e.values[1].left) == 'idx.step'
            and isinstance(e.values[1].comparators[0], (ast.Tuple, ast.Set, ast.List))):
        raise TranslateError('_prune_chunks: unit-step test is %s' % ast.unparse(e))
    steps = _step_set(e.values[1].comparators[0].elts, '_prune_chunks')
    out.append('(* _prune_chunks accepts an index element iff it is a slice whose (normalised) step is in this set *)')
    out.append('Definition gen_prune_ok_steps : list (option Z) := [%s].' % '; '.join(steps))
    if ast.unparse(loops[0].iter) != 'range(len(shape))':
        raise TranslateError('_prune_chunks: loop iterates over %s' % ast.unparse(loops[0].iter))
    tail = _src(body[k + 1:])
    if tail != ['chunks = tuple((tuple(c) for c in chunks))', 'index = tuple(index)', 'offset = tuple(offset)',
                'return (chunks, index, offset)']:
        raise TranslateError('_prune_chunks: statements after the loop are %s' % tail)


def _step_set(elts, what):
    steps = []
    for el in elts:
        if isinstance(el, ast.Constant) and el.value is None:
            steps.append('None')
        elif isinstance(el, ast.Constant) and isinstance(el.value, int) and not isinstance(el.value, bool):
            steps.append('Some %s' % coq_Z(el.value))
        else:
            raise TranslateError('%s: step set contains %s' % (what, ast.unparse(el)))
    return steps


def item_preselect(repo, out):
    """TelstateDataSource.__init__: validation of `preselect`, how it becomes preselect_index, the order of
    _upgrade_flags / _align_chunk_info; _upgrade_chunk_info and _align_chunk_info themselves."""
    rel = 'katdal/datasources.py'
    tree = _parse(repo, rel)
    init = _method(tree, 'TelstateDataSource', '__init__', rel)
    names, dflt = _defaults(_strip_kwargs(init))
    if dflt.get('preselect') != 'None' or dflt.get('upgrade_flags') != 'True':
        raise TranslateError('TelstateDataSource.__init__: defaults are %s' % dflt)
    body = _body(init)
    head = _src(body[:4])
    if head[0] != 'if preselect is None:\n    preselect = {}':
        raise TranslateError('TelstateDataSource.__init__: preselect default handling is %s' % head[0])
    a = body[1]
    if not (isinstance(a, ast.Assign) and ast.unparse(a.targets[0]) == 'unexpected' and isinstance(a.value, ast.BinOp)
            and isinstance(a.value.op, ast.Sub) and ast.unparse(a.value.left) == 'set(preselect.keys())'
            and isinstance(a.value.right, ast.Set)):
        raise TranslateError('TelstateDataSource.__init__: %s' % head[1])
    keys = sorted(_str_const(e, 'preselect keys') for e in a.value.right.elts)
    if not head[2].startswith('if unexpected:\n    raise IndexError('):
        raise TranslateError('TelstateDataSource.__init__: %s' % head[2])
    f = body[3]
    if not (isinstance(f, ast.For) and ast.unparse(f.target) == '(key, idx)' and ast.unparse(f.iter) == 'preselect.items()'
            and len(f.body) == 1 and isinstance(f.body[0], ast.If) and not f.body[0].orelse
            and len(f.body[0].body) == 1 and ast.unparse(f.body[0].body[0]).startswith('raise IndexError(')):
        raise TranslateError('TelstateDataSource.__init__: %s' % head[3])
    t = f.body[0].test
    if not (isinstance(t, ast.BoolOp) and isinstance(t.op, ast.Or) and len(t.values) == 2
            and ast.unparse(t.values[0]) == 'not isinstance(idx, slice)'
            and isinstance(t.values[1], ast.Compare) and len(t.values[1].ops) == 1
            and isinstance(t.values[1].ops[0], ast.NotIn) and ast.unparse(t.values[1].left) == 'idx.step'
            and isinstance(t.values[1].comparators[0], (ast.Tuple, ast.Set, ast.List))):
        raise TranslateError('TelstateDataSource.__init__: preselect value test is %s' % ast.unparse(t))
    steps = _step_set(t.values[1].comparators[0].elts, 'TelstateDataSource.__init__')
    out.append('(* TelstateDataSource(preselect=...): allowed keys, allowed steps, order of preselect_index *)')
    out.append('Definition gen_preselect_keys : list string := %s.' % coq_strings(keys))
    out.append('Definition gen_preselect_ok_steps : list (option Z) := [%s].' % '; '.join(steps))
    # index = (preselect.get('dumps', np.s_[:]), preselect.get('channels', np.s_[:])) / ()
    ifs = [n for n in ast.walk(init) if isinstance(n, ast.If) and ast.unparse(n.test) == 'preselect']
    if len(ifs) != 1 or _src(ifs[0].orelse) != ['index = ()'] or len(ifs[0].body) != 1:
        raise TranslateError('TelstateDataSource.__init__: `if preselect:` block changed')
    asg = ifs[0].body[0]
    if not (isinstance(asg, ast.Assign) and ast.unparse(asg.targets[0]) == 'index' and isinstance(asg.value, ast.Tuple)):
        raise TranslateError('TelstateDataSource.__init__: index assignment is %s' % ast.unparse(asg))
    order = []
    for el in asg.value.elts:
        if not (isinstance(el, ast.Call) and ast.unparse(el.func) == 'preselect.get' and len(el.args) == 2
                and ast.unparse(el.args[1]) == 'np.s_[:]'):
            raise TranslateError('TelstateDataSource.__init__: index element is %s' % ast.unparse(el))
        order.append(_str_const(el.args[0], 'preselect.get'))
    out.append('Definition gen_preselect_axis_order : list string := %s.' % coq_strings(order))
    # chunk_info pipeline
    blk = [n for n in ast.walk(init) if isinstance(n, ast.If) and ast.unparse(n.test) == 'chunk_store is not None or timestamps is None']
    if len(blk) != 1 or _src(blk[0].body) != [
            "chunk_info = telstate['chunk_info']", 'chunk_info = _ensure_prefix_is_set(chunk_info, telstate)',
            'if upgrade_flags:\n    chunk_info = _upgrade_flags(chunk_info, telstate, capture_block_id, stream_name)',
            'chunk_info = _align_chunk_info(chunk_info)']:
        raise TranslateError('TelstateDataSource.__init__: chunk_info pipeline changed')
    calls = [n for n in ast.walk(init) if isinstance(n, ast.Call) and ast.unparse(n.func) == 'ChunkStoreVisFlagsWeights']
    if len(calls) != 1 or [ast.unparse(x) for x in calls[0].args] != ['chunk_store', 'chunk_info'] or \
            'preselect_index=index' not in [ast.unparse(k) for k in calls[0].keywords]:
        raise TranslateError('TelstateDataSource.__init__: ChunkStoreVisFlagsWeights call changed')
    out.append('Definition gen_source_upgrades_then_aligns : bool := true.')
    # _upgrade_chunk_info
    up = _mfunc(tree, '_upgrade_chunk_info', rel)
    got = _src(_body(up))
    if len(got) != 2 or got[1] != 'return chunk_info':
        raise TranslateError('_upgrade_chunk_info changed: %s' % got)
    lp = _body(up)[0]
    if not (isinstance(lp, ast.For) and ast.unparse(lp.target) == '(key, improved_info)'
            and ast.unparse(lp.iter) == 'improved_chunk_info.items()' and len(lp.body) == 3
            and ast.unparse(lp.body[0]) == 'original_info = chunk_info.get(key, improved_info)'
            and isinstance(lp.body[1], ast.If) and not lp.body[1].orelse
            and ast.unparse(lp.body[1].test) == "improved_info['shape'][1:] != original_info['shape'][1:]"
            and len(lp.body[1].body) == 1 and ast.unparse(lp.body[1].body[0]).startswith('raise ValueError(')
            and ast.unparse(lp.body[2]) == 'chunk_info[key] = improved_info'):
        raise TranslateError('_upgrade_chunk_info changed: %s' % got[0])
    out.append('(* _upgrade_chunk_info: refuses iff shape[k:] differ for k = ..., else replaces the whole entry *)')
    out.append('Definition gen_upgrade_compares_shape_from : nat := 1%nat.')
    out.append('Definition gen_upgrade_replaces_entry : bool := true.')
    # _align_chunk_info
    al = _mfunc(tree, '_align_chunk_info', rel)
    b = _body(al)
    got = _src(b)
    if len(got) != 3 or got[0] != "max_dumps = max((info['shape'][0] for info in chunk_info.values()))" or \
            got[2] != 'return chunk_info' or not isinstance(b[1], ast.For):
        raise TranslateError('_align_chunk_info changed: %s' % got)
    lb = b[1].body
    if ast.unparse(b[1].iter) != 'chunk_info.items()' or _src(lb[:2]) != ["shape = info['shape']", 'n_dumps = shape[0]'] or \
            len(lb) != 3 or not isinstance(lb[2], ast.If) or lb[2].orelse:
        raise TranslateError('_align_chunk_info loop changed: %s' % _src(lb))
    cond = lb[2].test
    if not (isinstance(cond, ast.Compare) and len(cond.ops) == 1 and type(cond.ops[0]) in OPS
            and ast.unparse(cond.left) == 'n_dumps' and ast.unparse(cond.comparators[0]) == 'max_dumps'):
        raise TranslateError('_align_chunk_info: pad condition is %s' % ast.unparse(cond))
    ib = _src([s for s in lb[2].body if not (isinstance(s, ast.Expr) and ast.unparse(s).startswith('logger.'))])
    if len(ib) != 3 or ib[0] != "info['shape'] = (max_dumps,) + shape[1:]" or \
            ib[2] != "info['chunks'] = (time_chunks,) + info['chunks'][1:]":
        raise TranslateError('_align_chunk_info: padding statements are %s' % ib)
    tc = [s for s in lb[2].body if isinstance(s, ast.Assign) and ast.unparse(s.targets[0]) == 'time_chunks']
    v = tc[0].value if len(tc) == 1 else None
    if not (isinstance(v, ast.BinOp) and isinstance(v.op, ast.Add) and ast.unparse(v.left) == "info['chunks'][0]"
            and isinstance(v.right, ast.BinOp) and isinstance(v.right.op, ast.Mult)
            and ast.unparse(v.right.left) == 'max_dumps - n_dumps' and isinstance(v.right.right, ast.Tuple)
            and len(v.right.right.elts) == 1):
        raise TranslateError('_align_chunk_info: time_chunks is %s' % (ast.unparse(v) if v is not None else None))
    ph = _const_eval(v.right.right.elts[0], {}, 'phantom chunk size')
    if not isinstance(ph, int):
        raise TranslateError('_align_chunk_info: phantom chunk size %r' % (ph,))
    out.append('(* _align_chunk_info: an array is padded iff ...; with (max_dumps - n_dumps) chunks of this size *)')
    out.append('Definition gen_align_pads (n_dumps max_dumps : Z) : bool := (n_dumps %s max_dumps).' % OPS[type(cond.ops[0])])
    out.append('Definition gen_align_phantom_size : Z := %s.' % coq_Z(ph))
    out.append('Definition gen_align_phantom_count (n_dumps max_dumps : Z) : Z := max_dumps - n_dumps.')


def _strip_kwargs(fn):
    """FunctionDef with **kwargs removed from the signature (for _defaults)."""
    import copy
    f = copy.deepcopy(fn)
    f.args.kwarg = None
    return f


def item_lostmap(repo, out):
    """ChunkStoreVisFlagsWeights.__init__: the get_dask_array call, the lost-map loops, the two graph comprehensions."""
    rel = 'katdal/vis_flags_weights.py'
    tree = _parse(repo, rel)
    init = _method(tree, 'ChunkStoreVisFlagsWeights', '__init__', rel)
    names, dflt = _defaults(init)
    if names[:3] != ['self', 'store', 'chunk_info'] or dflt.get('preselect_index') != '()' or \
            dflt.get('van_vleck') != "'off'" or dflt.get('stored_weights_are_scaled') != 'True' or dflt.get('corrprods') != 'None':
        raise TranslateError('ChunkStoreVisFlagsWeights.__init__: signature is %s %s' % (names, dflt))
    body = _body(init)
    src = _src(body)
    want_head = [
        'self.store = store', 'self.chunk_info = chunk_info', 'self.preselect_index = preselect_index',
        "self.vis_prefix = chunk_info['correlator_data']['prefix']", 'darray = {}',
        "for array, info in chunk_info.items():\n    array_name = store.join(info['prefix'], array)\n"
        "    errors = DATA_LOST if array == 'flags' else 'placeholder'\n"
        "    darray[array] = store.get_dask_array(array_name, info['chunks'], info['dtype'], index=preselect_index, errors=errors)",
        "flags_orig_name = darray['flags'].name",
        "flags_raw_name = store.join(chunk_info['flags']['prefix'], 'flags_raw')",
        "lost_map = np.empty([len(c) for c in darray['flags'].chunks], dtype='O')",
        'for index in np.ndindex(lost_map.shape):\n    lost_map[index] = []',
        "for array_name, array in darray.items():\n    if array_name == 'flags':\n        continue\n"
        "    src_keys = np.empty([len(c) for c in array.chunks], dtype='O')\n"
        "    for index in np.ndindex(src_keys.shape):\n        src_keys[index] = (array.name,) + index\n"
        "    chunks = array.chunks\n"
        "    if array.ndim < darray['flags'].ndim:\n"
        "        chunks += tuple(((x,) for x in darray['flags'].shape[array.ndim:]))\n"
        "    intersections = intersect_chunks(darray['flags'].chunks, chunks)\n"
        "    for src_key, pieces in zip(src_keys.flat, intersections):\n"
        "        for piece in pieces:\n"
        "            dst_index, slices = zip(*piece)\n"
        "            lost_map[dst_index].extend([src_key, slices])",
        "dsk = {(flags_raw_name,) + key: (_apply_data_lost, (flags_orig_name,) + key, value) "
        "for key, value in np.ndenumerate(lost_map)}",
        'dsk = HighLevelGraph.from_collections(flags_raw_name, dsk, dependencies=list(darray.values()))',
        "flags = da.Array(dsk, flags_raw_name, chunks=darray['flags'].chunks, shape=darray['flags'].shape, "
        "dtype=darray['flags'].dtype)",
        "darray['flags'] = flags",
        "for array_name, array in darray.items():\n    if array_name == 'flags':\n        continue\n"
        "    new_name = 'filled-' + array.name\n"
        "    indices = itertools.product(*(range(len(c)) for c in array.chunks))\n"
        "    dsk = {(new_name,) + index: (_default_zero, (array.name,) + index) "
        "for index, shape in zip(indices, itertools.product(*array.chunks))}\n"
        "    dsk = HighLevelGraph.from_collections(new_name, dsk, dependencies=[array])\n"
        "    darray[array_name] = da.Array(dsk, new_name, chunks=array.chunks, shape=array.shape, dtype=array.dtype)",
        "vis = darray['correlator_data']"]
    for i, w in enumerate(want_head):
        if i >= len(src) or src[i] != w:
            raise TranslateError('ChunkStoreVisFlagsWeights.__init__: statement %d is %s' % (i, src[i] if i < len(src) else None))
    out.append('(* ChunkStoreVisFlagsWeights.__init__: statements up to `vis = darray[...]` are literally those the model mirrors *)')
    out.append('Definition gen_other_errors : string := "placeholder"%string.')
    out.append('Definition gen_lostmap_skips : list string := ["flags"%string].')
    out.append('Definition gen_lostmap_literal : bool := true.')
    # weights without corrprods: weights = stored_weights when stored_weights_are_scaled
    tail = '\n'.join(src[len(want_head):])
    for frag in ("stored_weights = darray['weights'] * darray['weights_channel'][..., np.newaxis]",
                 'VisFlagsWeights.__init__(self, vis, flags, weights, unscaled_weights)'):
        if frag not in tail:
            raise TranslateError('ChunkStoreVisFlagsWeights.__init__: `%s` not found' % frag)


def item_options(repo, out):
    """The processing options between the chunk store and the user that see zero-filled (lost) data:
    Van Vleck lookup table (the anchor at zero that keeps a zero-filled autocorrelation zero), where the
    correction and the weight scaling sit in ChunkStoreVisFlagsWeights.__init__ (after _default_zero)."""
    rel = 'katdal/van_vleck.py'
    fn = _mfunc(_parse(repo, rel), 'autocorr_lookup_table', rel)
    firsts = {}
    for name in ('sxx_table', 'rxx_table'):
        a = [n for n in _body(fn) if isinstance(n, ast.Assign) and ast.unparse(n.targets[0]) == name]
        v = a[0].value if len(a) == 1 else None
        if not (isinstance(v, ast.Subscript) and ast.unparse(v.value) == 'np.r_' and isinstance(v.slice, ast.Tuple)
                and len(v.slice.elts) >= 2):
            raise TranslateError('autocorr_lookup_table: %s is not np.r_[first, ...]' % name)
        c = v.slice.elts[0]
        if not (isinstance(c, ast.Constant) and isinstance(c.value, (int, float)) and not isinstance(c.value, bool)
                and float(c.value) == int(c.value)):
            raise TranslateError('autocorr_lookup_table: %s does not start with a constant anchor (starts with %s)'
                                 % (name, ast.unparse(c)))
        firsts[name] = int(c.value)
    ret = _body(fn)[-1]
    if not (isinstance(ret, ast.Return) and isinstance(ret.value, ast.Tuple) and len(ret.value.elts) == 2):
        raise TranslateError('autocorr_lookup_table: return statement changed')
    fac = []
    for el, name in zip(ret.value.elts, ('sxx_table', 'rxx_table')):
        if not (isinstance(el, ast.BinOp) and isinstance(el.op, ast.Mult) and isinstance(el.left, ast.Constant)
                and float(el.left.value) == int(el.left.value) and ast.unparse(el.right) == name):
            raise TranslateError('autocorr_lookup_table: returns %s' % ast.unparse(ret))
        fac.append(int(el.left.value))
    out.append('(* van_vleck.autocorr_lookup_table: first node (quantised power, true power) of the table np.interp reads *)')
    out.append('Definition gen_vv_anchor : Z * Z := (%s, %s).' % (coq_Z(fac[0] * firsts['sxx_table']),
                                                              coq_Z(fac[1] * firsts['rxx_table'])))
    # where the options sit: after the zero fill
    rel = 'katdal/vis_flags_weights.py'
    tree = _parse(repo, rel)
    init = _method(tree, 'ChunkStoreVisFlagsWeights', '__init__', rel)
    src = _src(_body(init))
    k = src.index("vis = darray['correlator_data']") if "vis = darray['correlator_data']" in src else -1
    want = ["vis = darray['correlator_data']",
            "if van_vleck == 'autocorr':\n    vis = correct_autocorr_quantisation(vis, corrprods)\nelif van_vleck != 'off':\n"
            "    raise ValueError(f\"The van_vleck parameter should be one of ['off', 'autocorr'], got '{van_vleck}' instead\")",
            "stored_weights = darray['weights'] * darray['weights_channel'][..., np.newaxis]",
            "if corrprods is not None:\n    if stored_weights_are_scaled:\n        weights = stored_weights\n"
            "        unscaled_weights = _scale_weights(vis, stored_weights, corrprods, divide=False)\n    else:\n"
            "        weights = _scale_weights(vis, stored_weights, corrprods, divide=True)\n        unscaled_weights = stored_weights\n"
            "else:\n    if not stored_weights_are_scaled:\n"
            "        raise ValueError('Stored weights are unscaled but no corrprods are provided')\n"
            "    weights = stored_weights\n    unscaled_weights = None",
            'VisFlagsWeights.__init__(self, vis, flags, weights, unscaled_weights)']
    from vh.translate import normalise_source
    want = [normalise_source(w) for w in want]
    if k < 0 or src[k:] != want:
        raise TranslateError('ChunkStoreVisFlagsWeights.__init__: the option handling after the zero fill is %s' % (src[k:] if k >= 0 else None))
    out.append('(* ChunkStoreVisFlagsWeights: van_vleck and the weight scaling act on the zero-filled arrays; weights are divided by'
               ' the autocorrelations iff corrprods are given and the stored weights are not scaled *)')
    out.append('Definition gen_options_after_zero_fill : bool := true.')
    out.append('Definition gen_weights_divided (have_corrprods stored_scaled : bool) : bool := andb have_corrprods (negb stored_scaled).')
    ca = _mfunc(tree, 'correct_autocorr_quantisation', rel)
    calls = [n for n in ast.walk(ca) if isinstance(n, ast.Call) and ast.unparse(n.func) == 'np.interp']
    if len(calls) != 1 or len(calls[0].args) != 3 or calls[0].keywords or \
            [ast.unparse(a) for a in calls[0].args[1:]] != ['quantised_autocorr_table', 'true_autocorr_table']:
        raise TranslateError('correct_autocorr_quantisation: np.interp call changed')
    out.append('Definition gen_vv_interp_clamps : bool := true.   (* np.interp without left= / right=: clamps outside the table *)')


def _bexpr(node, names, what):
    """boolean expression over integer comparisons -> Coq bool"""
    if isinstance(node, ast.BoolOp) and isinstance(node.op, (ast.And, ast.Or)):
        f = 'andb' if isinstance(node.op, ast.And) else 'orb'
        parts = [_bexpr(v, names, what) for v in node.values]
        out = parts[-1]
        for x in reversed(parts[:-1]):
            out = '(%s %s %s)' % (f, x, out)
        return out
    if isinstance(node, ast.Compare) and len(node.ops) == 1 and type(node.ops[0]) in OPS:
        def term(t):
            src = ast.unparse(t)
            if src in names:
                return names[src]
            if isinstance(t, ast.Constant) and isinstance(t.value, int) and not isinstance(t.value, bool):
                return coq_Z(t.value)
            raise TranslateError('%s: unsupported term %s' % (what, src))
        return '(%s %s %s)' % (term(node.left), OPS[type(node.ops[0])], term(node.comparators[0]))
    raise TranslateError('%s: unsupported condition %s' % (what, ast.unparse(node)))


def item_dict_store(repo, out):
    """DictChunkStore.get_chunk: a store that hands out views of arrays it owns; which requests are 'not found'."""
    rel = 'katdal/chunkstore_dict.py'
    tree = _parse(repo, rel)
    init = _method(tree, 'DictChunkStore', '__init__', rel)
    if _src(_body(init)) != ['error_map = {KeyError: ChunkNotFound, IndexError: ChunkNotFound}',
                             'super().__init__(error_map)', 'self.arrays = kwargs']:
        raise TranslateError('DictChunkStore.__init__ changed')
    gc = _method(tree, 'DictChunkStore', 'get_chunk', rel)
    b = _body(gc)
    src = _src(b)
    if len(b) != 4 or src[0] != 'chunk_name, shape = self.chunk_metadata(array_name, slices, dtype=dtype)' or \
            not isinstance(b[1], ast.With) or ast.unparse(b[1].items[0]) != 'self._standard_errors(chunk_name)' or \
            not src[2].startswith('if chunk.shape != shape or chunk.dtype != dtype:\n    raise BadChunk(') or src[3] != 'return chunk':
        raise TranslateError('DictChunkStore.get_chunk changed: %s' % src)
    w = _src(b[1].body)
    if w[0] != 'array = self.arrays[array_name]' or w[-1] != 'chunk = array[slices] if slices != () else array':
        raise TranslateError('DictChunkStore.get_chunk: lookup statements are %s' % w)
    mid = b[1].body[1:-1]
    if not mid:
        # the pinned code: slicing beyond the end silently gives an empty array (-> BadChunk): finding C06-F2
        cond = 'false'
    else:
        t = mid[0].test if (len(mid) == 1 and isinstance(mid[0], ast.If) and not mid[0].orelse) else None
        if not (t is not None and len(mid[0].body) == 1 and ast.unparse(mid[0].body[0]).startswith('raise IndexError(')
                and isinstance(t, ast.Call) and ast.unparse(t.func) == 'any' and len(t.args) == 1
                and isinstance(t.args[0], ast.GeneratorExp) and len(t.args[0].generators) == 1
                and ast.unparse(t.args[0].generators[0].target) == '(s, n)'
                and ast.unparse(t.args[0].generators[0].iter) == 'zip(slices, array.shape)'
                and not t.args[0].generators[0].ifs):
            raise TranslateError('DictChunkStore.get_chunk: out-of-range test is %s' % _src(mid))
        cond = _bexpr(t.args[0].elt, {'s.start': 'start', 's.stop': 'stop', 'n': 'n'}, 'DictChunkStore.get_chunk')
    out.append('(* DictChunkStore.get_chunk: on some axis (slice start..stop, array length n) the chunk is reported ChunkNotFound iff *)')
    out.append('Definition gen_dict_outside (start stop n : Z) : bool := %s.' % cond)
    out.append('Definition gen_dict_returns_view : bool := true.   (* chunk = array[slices]: memory owned by the store *)')


ITEMS = [item_prune, item_fill, item_getters, item_prune_head, item_preselect, item_lostmap, item_options, item_dict_store]


# =============================================================================================================
# round 3: dtypes of the blocks, names of the dask arrays, chunk-name prefixes

def _nf(text):
    from vh.translate import normalise_source
    return normalise_source(text)


def _one_call(node, func, what):
    calls = [n for n in ast.walk(node) if isinstance(n, ast.Call) and ast.unparse(n.func) == func]
    if len(calls) != 1:
        raise TranslateError('%s: expected exactly one call of %s, found %d' % (what, func, len(calls)))
    return calls[0]


DT_CODES = {'np.uint8': 0, 'np.float32': 1, 'float': 2, 'np.float64': 2, 'np.complex64': 3, 'complex': 4, 'np.complex128': 4}


def _dtype_expr(node, param, what):
    """A dtype argument: the parameter that carries the dtype through (-> its Coq name), or a fixed dtype (-> its code)."""
    src = ast.unparse(node)
    if src in param:
        return param[src]
    if src in DT_CODES:
        return coq_Z(DT_CODES[src])
    raise TranslateError('%s: unsupported dtype expression %s' % (what, src))


def item_dtypes(repo, out):
    """The dtype every constructor of a block is given: PlaceholderChunk(shape, dtype, name) in the getter and in
    __getitem__, np.zeros in _default_zero, np.full in get_chunk_or_default."""
    rel = 'katdal/chunkstore.py'
    tree = _parse(repo, rel)
    init = _method(tree, 'PlaceholderChunk', '__init__', rel)
    if _defaults(init) != (['self', 'shape', 'dtype', 'name'], {'name': "''"}) or \
            _src(_body(init)) != [_nf('self.shape = shape'), _nf('self.dtype = np.dtype(dtype)'), _nf('self.name = name')]:
        raise TranslateError('PlaceholderChunk.__init__ changed: %s' % _src(_body(init)))

    def ctor_dtype(fn, param, what):
        c = _one_call(fn, 'PlaceholderChunk', what)
        kw = {k.arg: k.value for k in c.keywords}
        if len(c.args) >= 2 and 'dtype' not in kw:
            return _dtype_expr(c.args[1], param, what)
        if len(c.args) == 1 and 'dtype' in kw:
            return _dtype_expr(kw['dtype'], param, what)
        raise TranslateError('%s: PlaceholderChunk(...) is given no dtype' % what)

    gp = _method(tree, 'ChunkStore', 'get_chunk_or_placeholder', rel)
    out.append('(* dtypes: 0 uint8, 1 float32, 2 float64, 3 complex64, 4 complex128; what each constructor of a block is given *)')
    out.append('Definition gen_placeholder_ctor_dtype (dtype : Z) : Z := %s.'
               % ctor_dtype(gp, {'dtype': 'dtype'}, 'get_chunk_or_placeholder'))
    pg = _method(tree, 'PlaceholderChunk', '__getitem__', rel)
    out.append('Definition gen_placeholder_slice_dtype (self_dtype : Z) : Z := %s.'
               % ctor_dtype(pg, {'self.dtype': 'self_dtype'}, 'PlaceholderChunk.__getitem__'))
    gd = _method(tree, 'ChunkStore', 'get_chunk_or_default', rel)
    c = _one_call(gd, 'np.full', 'get_chunk_or_default')
    kw = {k.arg: k.value for k in c.keywords}
    if len(c.args) == 3 and not kw:
        d = _dtype_expr(c.args[2], {'dtype': 'dtype'}, 'get_chunk_or_default')
    elif len(c.args) == 2 and set(kw) == {'dtype'}:
        d = _dtype_expr(kw['dtype'], {'dtype': 'dtype'}, 'get_chunk_or_default')
    else:
        raise TranslateError('get_chunk_or_default: np.full(...) is given no dtype: %s' % ast.unparse(c))
    out.append('Definition gen_default_chunk_dtype (dtype : Z) : Z := %s.' % d)
    relv = 'katdal/vis_flags_weights.py'
    dz = _mfunc(_parse(repo, relv), '_default_zero', relv)
    c = _one_call(dz, 'np.zeros', '_default_zero')
    kw = {k.arg: k.value for k in c.keywords}
    if not c.args or ast.unparse(c.args[0]) != 'array.shape':
        raise TranslateError('_default_zero: np.zeros is not given array.shape')
    if len(c.args) == 2 and not kw:
        d = _dtype_expr(c.args[1], {'array.dtype': 'array_dtype'}, '_default_zero')
    elif len(c.args) == 1 and set(kw) == {'dtype'}:
        d = _dtype_expr(kw['dtype'], {'array.dtype': 'array_dtype'}, '_default_zero')
    elif len(c.args) == 1 and not kw:
        d = coq_Z(2)          # numpy's default: float64
    else:
        raise TranslateError('_default_zero: %s' % ast.unparse(c))
    out.append('Definition gen_default_zero_dtype (array_dtype : Z) : Z := %s.' % d)


def item_names(repo, out):
    """get_dask_array: the fields of out_name (f-string, in order) and the arguments of the token."""
    rel = 'katdal/chunkstore.py'
    gda = _method(_parse(repo, rel), 'ChunkStore', 'get_dask_array', rel)
    asg = [n for n in ast.walk(gda) if isinstance(n, ast.Assign) and ast.unparse(n.targets[0]) == 'out_name']
    if len(asg) != 1 or not isinstance(asg[0].value, ast.JoinedStr):
        raise TranslateError('get_dask_array: out_name is not one f-string')
    fields = []
    for v in asg[0].value.values:
        if isinstance(v, ast.FormattedValue):
            if not isinstance(v.value, ast.Name) or v.value.id not in ('array_name', 'offset', 'token'):
                raise TranslateError('get_dask_array: out_name field %s' % ast.unparse(v.value))
            fields.append(v.value.id)
    tok = [n for n in ast.walk(gda) if isinstance(n, ast.Assign) and ast.unparse(n.targets[0]) == 'token']
    if len(tok) != 1 or not (isinstance(tok[0].value, ast.Call) and ast.unparse(tok[0].value.func) == 'da.core.tokenize'
                             and not tok[0].value.keywords):
        raise TranslateError('get_dask_array: token is not one da.core.tokenize(...) call')
    args = []
    for a in tok[0].value.args:
        if not isinstance(a, ast.Name) or a.id not in ('self', 'chunks', 'dtype', 'index'):
            raise TranslateError('get_dask_array: token argument %s' % ast.unparse(a))
        args.append(a.id)
    fa = _one_call(gda, 'da.from_array', 'get_dask_array')
    if len(fa.args) < 3 or ast.unparse(fa.args[2]) != 'out_name':
        raise TranslateError('get_dask_array: da.from_array is not given out_name as the name')
    out.append('(* get_dask_array: the fields of the out_name f-string in order; arguments of tokenize *)')
    out.append('Definition gen_out_name_fields : list string := %s.' % coq_strings(fields))
    out.append('Definition gen_token_args : list string := %s.' % coq_strings(args))


def item_prefixes(repo, out):
    """_ensure_prefix_is_set, the loop of _upgrade_flags (which view fills a missing prefix), the order in which
    view_capture_stream stacks its views."""
    rel = 'katdal/datasources.py'
    tree = _parse(repo, rel)
    ep = _mfunc(tree, '_ensure_prefix_is_set', rel)
    if [a.arg for a in ep.args.args] != ['chunk_info', 'telstate'] or _src(_body(ep)) != [
            _nf("for info in chunk_info.values():\n    if 'prefix' not in info:\n        info['prefix'] = telstate['chunk_name']"),
            _nf('return chunk_info')]:
        raise TranslateError('_ensure_prefix_is_set changed: %s' % _src(_body(ep)))
    out.append('(* _ensure_prefix_is_set: a prefix is filled in iff the entry has none, from telstate[<key>] *)')
    out.append('Definition gen_prefix_filled_iff_absent : bool := true.')
    out.append('Definition gen_prefix_key : string := "chunk_name"%string.')
    uf = _mfunc(tree, '_upgrade_flags', rel)
    body = _body(uf)
    if [a.arg for a in uf.args.args] != ['chunk_info', 'telstate', 'capture_block_id', 'stream_name'] or len(body) != 3:
        raise TranslateError('_upgrade_flags changed')
    if ast.unparse(body[0]) != _nf("try:\n    archived_streams = telstate['sdp_archived_streams']\n"
                                   "except KeyError as e:\n    return chunk_info") or \
            ast.unparse(body[2]) != _nf('return chunk_info'):
        raise TranslateError('_upgrade_flags: first / last statement changed: %s' % ast.unparse(body[0]))
    loop = body[1]
    if not (isinstance(loop, ast.For) and ast.unparse(loop.target) == 's' and ast.unparse(loop.iter) == 'archived_streams'
            and not loop.orelse and len(loop.body) == 5):
        raise TranslateError('_upgrade_flags: loop changed')
    lb = _src(loop.body)
    want = [_nf('telstate_cs = view_capture_stream(telstate, capture_block_id, s)'),
            _nf("if telstate_cs.get('stream_type') != 'sdp.flags' or stream_name not in telstate_cs['src_streams']:\n    continue"),
            _nf("flags_info = telstate_cs['chunk_info']"), None,
            _nf('chunk_info = _upgrade_chunk_info(chunk_info, flags_info)')]
    for i, w in enumerate(want):
        if w is not None and lb[i] != w:
            raise TranslateError('_upgrade_flags: loop statement %d is %s' % (i, lb[i]))
    st = loop.body[3]
    if not (isinstance(st, ast.Assign) and ast.unparse(st.targets[0]) == 'flags_info' and isinstance(st.value, ast.Call)
            and ast.unparse(st.value.func) == '_ensure_prefix_is_set' and len(st.value.args) == 2
            and not st.value.keywords and ast.unparse(st.value.args[0]) == 'flags_info'
            and ast.unparse(st.value.args[1]) in ('telstate_cs', 'telstate')):
        raise TranslateError('_upgrade_flags: the prefix of the flags stream is filled by %s' % lb[3])
    out.append('(* _upgrade_flags: the view through which a missing prefix of the flags stream is filled (true: the view of '
               'the flags capture stream; false: the view of the L0 stream) *)')
    out.append('Definition gen_flags_prefix_from_stream_view : bool := %s.'
               % ('true' if ast.unparse(st.value.args[1]) == 'telstate_cs' else 'false'))
    out.append('Definition gen_flags_stream_type : string := "sdp.flags"%string.')
    vc = _mfunc(tree, 'view_capture_stream', rel)
    body = _body(vc)
    wl = [i for i, s in enumerate(body) if isinstance(s, ast.While)]
    if len(wl) != 1:
        raise TranslateError('view_capture_stream: inherit loop not found')
    order = []
    kinds = {_nf('streams.reverse()'): None,
             _nf('for stream in streams:\n    telstate = telstate.view(stream)'): 'stream',
             _nf('telstate = telstate.view(capture_block_id)'): 'capture_block',
             _nf('for stream in streams:\n    capture_stream = telstate.join(capture_block_id, stream)\n'
                 '    telstate = telstate.view(capture_stream)'): 'capture_stream',
             _nf('return telstate'): None}
    for s in body[wl[0] + 1:]:
        src = ast.unparse(s)
        if src not in kinds:
            raise TranslateError('view_capture_stream: unexpected statement %s' % src)
        if kinds[src]:
            order.append(kinds[src])
    if sorted(order) != ['capture_block', 'capture_stream', 'stream']:
        raise TranslateError('view_capture_stream: views stacked are %s' % order)
    out.append('(* view_capture_stream: namespaces in the order they are SEARCHED (the view added last is searched first) *)')
    out.append('Definition gen_view_order : list string := %s.' % coq_strings(list(reversed(order))))


ITEMS = ITEMS + [item_dtypes, item_names, item_prefixes]
