"""Translator items for C15 (katdal/vis_flags_weights.py, katdal/visdatav4.py, katdal/averager.py), fail-closed:

* weight_power_scale: the `bad_weight` constant (as the float32 it is rounded to), the exact statements of the two
  inner loops, and whether a non-finite autocorrelation is turned into NaN before it is used (the repair of F9);
* _scale_weights / correct_autocorr_quantisation: both re-chunk to ONE chunk on the baseline axis before the
  block-wise kernel, and _scale_weights passes the three lookup arrays of corrprod_to_autocorr;
* corrprod_to_autocorr: the dict-based scan (last occurrence of an autocorrelation wins);
* ChunkStoreVisFlagsWeights: stored = weights * weights_channel[..., newaxis] and which of weights / unscaled_weights
  is scaled with divide=True / divide=False;
* visdatav4: the two excision transforms and the float32 constants they use;
* averager: which averaging factor is clamped to the array size (`timeav = min(timeav, n_time)`; the line
  `flagav = min(flagav, n_chans)` clamps the flag option, not `chanav`) and the kernel's finishing statements.
"""
import ast
import struct
from fractions import Fraction

from vh.translate import TranslateError, _parse, _class
from vh.translate import NORMALISE      # message texts are normalised away by _parse unless VERIF_TRANSLATE_RAW=1


def _find_func(tree, name, rel):
    found = [n for n in tree.body if isinstance(n, ast.FunctionDef) and n.name == name]
    if len(found) != 1:
        raise TranslateError('%s: expected exactly one function %s' % (rel, name))
    return found[0]


def _norm(node):
    return ast.unparse(node).replace(' ', '').replace('\n', '')


def _float_expr(node, what):
    """tiny float constant language: numbers, unary minus, ** * /"""
    if isinstance(node, ast.Constant) and isinstance(node.value, (int, float)) and not isinstance(node.value, bool):
        return node.value
    if isinstance(node, ast.UnaryOp) and isinstance(node.op, ast.USub):
        return -_float_expr(node.operand, what)
    if isinstance(node, ast.BinOp) and isinstance(node.op, (ast.Pow, ast.Mult, ast.Div)):
        a, b = _float_expr(node.left, what), _float_expr(node.right, what)
        try:
            return a ** b if isinstance(node.op, ast.Pow) else a * b if isinstance(node.op, ast.Mult) else a / b
        except (ZeroDivisionError, OverflowError) as e:
            raise TranslateError('%s: %s' % (what, e))
    raise TranslateError('%s: unsupported constant expression %s' % (what, ast.dump(node)[:120]))


def _f32(v):
    try:
        return struct.unpack('f', struct.pack('f', float(v)))[0]
    except (OverflowError, struct.error) as e:
        raise TranslateError('not a float32: %r (%s)' % (v, e))


def _stmts(body):
    """normalised statements, docstrings / comments dropped"""
    return [_norm(s) for s in body
            if not (isinstance(s, ast.Expr) and isinstance(s.value, ast.Constant) and isinstance(s.value.value, str))]


def item_weight_power_scale(repo, out):
    rel = 'katdal/vis_flags_weights.py'
    tree = _parse(repo, rel)
    fn = _find_func(tree, 'weight_power_scale', rel)
    args = [a.arg for a in fn.args.args]
    if args != ['vis', 'weights', 'auto_indices', 'index1', 'index2', 'out', 'divide']:
        raise TranslateError('%s: weight_power_scale arguments are %s' % (rel, args))
    body = _stmts(fn.body)
    # ---- bad_weight = np.float32(<constant>)
    bw = [s for s in fn.body if isinstance(s, ast.Assign) and _norm(s.targets[0]) == 'bad_weight']
    if len(bw) != 1 or not (isinstance(bw[0].value, ast.Call) and _norm(bw[0].value.func) == 'np.float32'
                            and len(bw[0].value.args) == 1 and not bw[0].value.keywords):
        raise TranslateError('%s: `bad_weight = np.float32(<const>)` not found exactly once' % rel)
    val = _f32(_float_expr(bw[0].value.args[0], 'bad_weight'))
    if val != val or val in (float('inf'), float('-inf')):
        raise TranslateError('%s: bad_weight is not finite' % rel)
    fr = Fraction(val)
    # ---- the loops
    if body[:2] != ['auto_scale=np.empty(len(auto_indices),np.float32)',
                    'out=np.empty(vis.shape,np.float32)ifoutisNoneelseout'] or body[-1] != 'returnout':
        raise TranslateError('%s: weight_power_scale prologue / epilogue changed' % rel)
    loops = [s for s in fn.body if isinstance(s, ast.For)]
    if len(loops) != 1 or _norm(loops[0].target) != 'i' or _norm(loops[0].iter) != 'range(vis.shape[0])':
        raise TranslateError('%s: outer loop is not `for i in range(vis.shape[0])`' % rel)
    lj = loops[0].body
    if len(lj) != 1 or not isinstance(lj[0], ast.For) or _norm(lj[0].target) != 'j' \
            or _norm(lj[0].iter) != 'range(vis.shape[1])':
        raise TranslateError('%s: second loop is not `for j in range(vis.shape[1])`' % rel)
    inner = [s for s in lj[0].body if isinstance(s, ast.For)]
    if len(inner) != 2 or len(lj[0].body) != 2:
        raise TranslateError('%s: expected exactly the two inner loops over the autocorrelations and the baselines' % rel)
    la, lb = inner
    if _norm(la.target) != 'k' or _norm(la.iter) != 'range(len(auto_indices))' \
            or _norm(lb.target) != 'k' or _norm(lb.iter) != 'range(vis.shape[2])':
        raise TranslateError('%s: inner loop ranges changed' % rel)
    sa = _stmts(la.body)
    unguarded = ['autocorr=vis[i,j,auto_indices[k]].real',
                 'auto_scale[k]=np.reciprocal(autocorr)ifdivideelseautocorr']
    guarded = ['autocorr=vis[i,j,auto_indices[k]].real',
               'scale=np.reciprocal(autocorr)ifdivideelseautocorr',
               'auto_scale[k]=scaleifnp.isfinite(autocorr)elsenp.float32(np.nan)']
    if sa == unguarded:
        guard = False
    elif sa == guarded:
        guard = True
    else:
        raise TranslateError('%s: autocorrelation loop body not of a known shape: %s' % (rel, sa))
    sb = _stmts(lb.body)
    if sb != ['p=auto_scale[index1[k]]*auto_scale[index2[k]]', 'ifnotnp.isfinite(p):p=bad_weight',
              'out[i,j,k]=p*weights[i,j,k]']:
        raise TranslateError('%s: baseline loop body not of the expected shape: %s' % (rel, sb))
    out.append('(* katdal/vis_flags_weights.py weight_power_scale *)')
    out.append('Definition weights_bad_weight_num : Z := (%d)%%Z.' % fr.numerator)
    out.append('Definition weights_bad_weight_den : positive := %d%%positive.' % fr.denominator)
    out.append('Definition weights_nonfinite_auto_guard : bool := %s.' % ('true' if guard else 'false'))


def item_scale_weights(repo, out):
    rel = 'katdal/vis_flags_weights.py'
    tree = _parse(repo, rel)
    fn = _find_func(tree, '_scale_weights', rel)
    body = _stmts(fn.body)
    want = ['assertlen(corrprods)==vis.shape[2]',
            'iflen(vis.chunks[2])>1:vis=vis.rechunk({2:vis.shape[2]})',
            'iflen(weights.chunks[2])>1:weights=weights.rechunk({2:weights.shape[2]})',
            'auto_indices,index1,index2=corrprod_to_autocorr(corrprods)',
            "returnda.blockwise(weight_power_scale,'ijk',vis,'ijk',weights,'ijk',dtype=np.float32,"
            "auto_indices=auto_indices,index1=index1,index2=index2,divide=divide)"]
    if body != want:
        raise TranslateError('%s: _scale_weights is not (assert, rechunk vis, rechunk weights, lookup, blockwise): %s'
                             % (rel, body))
    fn = _find_func(tree, 'correct_autocorr_quantisation', rel)
    body = _stmts(fn.body)
    if 'iflen(vis.chunks[2])>1:vis=vis.rechunk({2:vis.shape[2]})' not in body \
            or 'auto_indices,_,_=corrprod_to_autocorr(corrprods)' not in body \
            or 'quantised_autocorr_table,true_autocorr_table=autocorr_lookup_table(levels)' not in body:
        raise TranslateError('%s: correct_autocorr_quantisation lost its rechunk / lookup / table statement' % rel)
    inner = [n for n in fn.body if isinstance(n, ast.FunctionDef)]
    if len(inner) != 1 or _stmts(inner[0].body) != [
            'out=vis.copy()',
            'out[...,auto_indices]=np.interp(vis[...,auto_indices].real,quantised_autocorr_table,true_autocorr_table)',
            'returnout']:
        raise TranslateError('%s: the Van Vleck block function changed' % rel)
    # corrprod_to_autocorr: the scan
    fn = _find_func(tree, 'corrprod_to_autocorr', rel)
    body = _stmts(fn.body)
    want = ['auto_indices=[]', 'auto_lookup={}',
            'fori,baselineinenumerate(corrprods):ifbaseline[0]==baseline[1]:'
            'auto_lookup[baseline[0]]=len(auto_indices)auto_indices.append(i)',
            'index1=[auto_lookup[a]fora,bincorrprods]', 'index2=[auto_lookup[b]fora,bincorrprods]',
            'return(_narrow(np.array(auto_indices)),_narrow(np.array(index1)),_narrow(np.array(index2)))']
    if body != want:
        raise TranslateError('%s: corrprod_to_autocorr not of the expected shape: %s' % (rel, body))
    # ChunkStoreVisFlagsWeights.__init__: stored weights and the scaled / unscaled choice
    cls = [n for n in tree.body if isinstance(n, ast.ClassDef) and n.name == 'ChunkStoreVisFlagsWeights']
    if len(cls) != 1:
        raise TranslateError('%s: class ChunkStoreVisFlagsWeights not found' % rel)
    init = [n for n in cls[0].body if isinstance(n, ast.FunctionDef) and n.name == '__init__']
    if len(init) != 1:
        raise TranslateError('%s: ChunkStoreVisFlagsWeights.__init__ not found' % rel)
    body = _stmts(init[0].body)
    if "stored_weights=darray['weights']*darray['weights_channel'][...,np.newaxis]" not in body:
        raise TranslateError('%s: stored_weights is not weights * weights_channel[..., np.newaxis]' % rel)
    want = ('ifcorrprodsisnotNone:ifstored_weights_are_scaled:weights=stored_weights'
            'unscaled_weights=_scale_weights(vis,stored_weights,corrprods,divide=False)'
            'else:weights=_scale_weights(vis,stored_weights,corrprods,divide=True)unscaled_weights=stored_weights'
            "else:ifnotstored_weights_are_scaled:raiseValueError('%s')"
            % ('<message>' if NORMALISE else 'Storedweightsareunscaledbutnocorrprodsareprovided') +
            'weights=stored_weightsunscaled_weights=None')
    if want not in body:
        raise TranslateError('%s: the scaled / unscaled choice of ChunkStoreVisFlagsWeights changed' % rel)
    # datasources: the stream declaration
    rel2 = 'katdal/datasources.py'
    src = _norm(_parse(repo, rel2))
    if "need_weights_power_scale=telstate.get('need_weights_power_scale',False)" not in src \
            or 'stored_weights_are_scaled=notneed_weights_power_scale' not in src:
        raise TranslateError('%s: need_weights_power_scale declaration no longer read / negated' % rel2)
    out.append('Definition weights_pipeline_shapes_checked : bool := true.')


def item_excision(repo, out):
    rel = 'katdal/visdatav4.py'
    src = _norm(_parse(repo, rel))
    want = ['cbf_dumps_per_sdp_dump=round(self.dump_period/self.cbf_dump_period)',
            'self.accumulations_per_dump=cbf_n_accs*cbf_dumps_per_sdp_dump',
            'accs_per_sdp_dump=np.float32(self.accumulations_per_dump)',
            'accs_per_cbf_dump=accs_per_sdp_dump/np.float32(cbf_dumps_per_sdp_dump)',
            'defintegerXcbfXdumps(w):returnda.round(w/accs_per_cbf_dump)*accs_per_cbf_dump'.replace('X', '_'),
            'defexcisionXfraction(w):return(accs_per_sdp_dump-w)/accs_per_sdp_dump'.replace('X', '_'),
            'excision_transforms=[integer_cbf_dumps,excision_fraction]',
            'self._excision=DaskLazyIndexer(unscaled_weights,stage1,excision_transforms)',
            'unscaled_weights=self._corrected.unscaled_weights']
    for w in want:
        if w not in src:
            raise TranslateError('%s: excision statement not found: %s' % (rel, w))
    out.append('Definition excision_shapes_checked : bool := true.')


def item_averager(repo, out):
    rel = 'katdal/averager.py'
    tree = _parse(repo, rel)
    fn = _find_func(tree, 'average_visibilities', rel)
    body = _stmts(fn.body)
    clamp_t = 'timeav=min(timeav,n_time)' in body
    clamp_c = 'chanav=min(chanav,n_chans)' in body
    quirk = 'flagav=min(flagav,n_chans)' in body
    other = [s for s in body if 'min(' in s and s not in ('timeav=min(timeav,n_time)', 'chanav=min(chanav,n_chans)',
                                                         'flagav=min(flagav,n_chans)')]
    if other:
        raise TranslateError('%s: unknown clamp statement %s' % (rel, other))
    for w in ['n_time,n_chans,n_bl=vis.shape', 'n_time=n_time//timeav*timeav', 'n_chans=n_chans//chanav*chanav',
              'vis=vis[:n_time,:n_chans]', 'weight=weight[:n_time,:n_chans]', 'flag=flag[:n_time,:n_chans]',
              'av_vis,av_weight,av_flag=_average_visibilities(vis,weight,flag,timeav,chanav,flagav)']:
        if w not in body:
            raise TranslateError('%s: average_visibilities statement not found: %s' % (rel, w))
    # order: clamps before the trimming
    def pos(s):
        return body.index(s)
    for s in ('timeav=min(timeav,n_time)', 'chanav=min(chanav,n_chans)', 'flagav=min(flagav,n_chans)'):
        if s in body and not pos('n_time,n_chans,n_bl=vis.shape') < pos(s) < pos('n_time=n_time//timeav*timeav'):
            raise TranslateError('%s: clamp %s is not between the shape read and the trimming' % (rel, s))
    k = _find_func(tree, '_average_visibilities', rel)
    src = _norm(k)
    for w in ['av_n_time=n_time//timeav', 'av_n_chans=n_chans//chanav', 'scale=weight.dtype.type(1.0/(timeav*chanav))',
              'iff:w=wzero', 'flag_any[b]|=f', 'flag_all[b]&=f', 'vis_sum[b]+=v',
              'vis_weight_sum[b]+=w*v', 'weight_sum[b]+=w', 'w=np.float32(weight_sum[b])',
              'ifnotw:v=vis_sum[b]*scaleelse:v=vis_weight_sum[b]/w', 'f=flag_any[b]ifflagavelseflag_all[b]',
              'fortinrange(tstart,tstart+timeav):forcinrange(cstart,cstart+chanav):',
              'cstart=av_c*chanav', 'tstart=av_t*timeav',
              'av_vis[av_t,av_c,b1]=vav_weight[av_t,av_c,b1]=wav_flag[av_t,av_c,b1]=f']:
        if w not in src:
            raise TranslateError('%s: _average_visibilities statement not found: %s' % (rel, w))
    out.append('(* katdal/averager.py average_visibilities *)')
    out.append('Definition averager_clamp_timeav : bool := %s.' % ('true' if clamp_t else 'false'))
    out.append('Definition averager_clamp_chanav : bool := %s.' % ('true' if clamp_c else 'false'))
    out.append('Definition averager_flagav_min : bool := %s.' % ('true' if quirk else 'false'))


# =========================================================================== round 2 items (API glue, options, defaults)
_UINT_BITS = {'np.uint8': 8, 'np.uint16': 16, 'np.uint32': 32, 'np.uint64': 64}


def _cmp_const(test, var, rel, what):
    """`<var> <op> <int constant>` -> (op, constant) with op in '<', '<='."""
    if not (isinstance(test, ast.Compare) and len(test.ops) == 1 and len(test.comparators) == 1
            and _norm(test.left) == var and isinstance(test.ops[0], (ast.Lt, ast.LtE))):
        raise TranslateError('%s: %s: expected `%s < c` or `%s <= c`, got %s' % (rel, what, var, var, _norm(test)))
    c = test.comparators[0]
    if not (isinstance(c, ast.Constant) and isinstance(c.value, int) and not isinstance(c.value, bool)):
        raise TranslateError('%s: %s: threshold is not an integer literal' % (rel, what))
    return ('<' if isinstance(test.ops[0], ast.Lt) else '<='), c.value


def _defaults(fn):
    """{argument: normalised default expression} of a FunctionDef (positional-or-keyword arguments only)."""
    args = fn.args.args
    defs = fn.args.defaults
    return {a.arg: _norm(d) for a, d in zip(args[len(args) - len(defs):], defs)}


def item_narrow(repo, out):
    """_narrow: the kind test comes first (np.array([]) is float64: ValueError), the dtype of an empty array and the threshold table
    (comparison operator, threshold, width) of the if-chain; `low < 0` keeps the dtype."""
    rel = 'katdal/vis_flags_weights.py'
    fn = _find_func(_parse(repo, rel), '_narrow', rel)
    if [a.arg for a in fn.args.args] != ['array']:
        raise TranslateError('%s: _narrow arguments changed' % rel)
    body = [s for s in fn.body
            if not (isinstance(s, ast.Expr) and isinstance(s.value, ast.Constant) and isinstance(s.value.value, str))]
    kind = "ifarray.dtype.kindnotin['u','i']:raiseValueError('%s')" % ('<message>' if NORMALISE else 'Arrayisnotintegral')
    norm = [_norm(s) for s in body]
    if len(body) != 3 or norm[2] != 'returnarray.astype(dtype,copy=False)' or kind not in norm[:2]:
        raise TranslateError('%s: _narrow is not (kind test, size/if-chain, astype): %s' % (rel, norm))
    if norm[0] != kind:
        raise TranslateError('%s: _narrow: the kind test is not the first statement' % rel)
    chain = body[1]
    if not (isinstance(chain, ast.If) and _norm(chain.test) == 'notarray.size' and len(chain.body) == 1
            and isinstance(chain.body[0], ast.Assign) and _norm(chain.body[0].targets[0]) == 'dtype'
            and _norm(chain.body[0].value) in _UINT_BITS):
        raise TranslateError('%s: _narrow: `if not array.size: dtype = np.uintN` not found' % rel)
    empty_bits = _UINT_BITS[_norm(chain.body[0].value)]
    els = chain.orelse
    if len(els) != 3 or _norm(els[0]) != 'low=np.min(array)' or _norm(els[1]) != 'high=np.max(array)' \
            or not isinstance(els[2], ast.If):
        raise TranslateError('%s: _narrow: else branch is not (low, high, if-chain)' % rel)
    node = els[2]
    if _norm(node.test) != 'low<0' or [_norm(s) for s in node.body] != ['dtype=array.dtype']:
        raise TranslateError('%s: _narrow: first test is not `low < 0: dtype = array.dtype`' % rel)
    table = []
    while True:
        if len(node.orelse) != 1:
            raise TranslateError('%s: _narrow: if-chain has an unexpected else branch' % rel)
        nxt = node.orelse[0]
        if isinstance(nxt, ast.If):
            op, th = _cmp_const(nxt.test, 'high', rel, '_narrow')
            if len(nxt.body) != 1 or not isinstance(nxt.body[0], ast.Assign) or _norm(nxt.body[0].targets[0]) != 'dtype' \
                    or _norm(nxt.body[0].value) not in _UINT_BITS:
                raise TranslateError('%s: _narrow: branch of `high %s %d` is not `dtype = np.uintN`' % (rel, op, th))
            table.append((op == '<=', th, _UINT_BITS[_norm(nxt.body[0].value)]))
            node = nxt
        elif _norm(nxt) == 'dtype=array.dtype':
            break
        else:
            raise TranslateError('%s: _narrow: final else is not `dtype = array.dtype`' % rel)
    out.append('(* katdal/vis_flags_weights.py _narrow: (is `<=`, threshold, bits of the unsigned type) *)')
    out.append('Definition narrow_empty_bits : Z := (%d)%%Z.' % empty_bits)
    out.append('Definition narrow_table : list (bool * Z * Z) := [%s].'
               % '; '.join('(%s, (%d)%%Z, (%d)%%Z)' % ('true' if le else 'false', th, b) for le, th, b in table))


def item_vfw_options(repo, out):
    """ChunkStoreVisFlagsWeights.__init__: default arguments, the order of (Van Vleck, stored weights, corrprods test),
    the van_vleck strings, what a lost chunk of vis / weights / weights_channel is replaced with; weight_power_scale's
    default direction; the shape tests of VisFlagsWeights.__init__."""
    rel = 'katdal/vis_flags_weights.py'
    tree = _parse(repo, rel)
    cls = _class(tree, 'ChunkStoreVisFlagsWeights', rel)
    init = [n for n in cls.body if isinstance(n, ast.FunctionDef) and n.name == '__init__']
    if len(init) != 1:
        raise TranslateError('%s: ChunkStoreVisFlagsWeights.__init__ not found' % rel)
    init = init[0]
    if [a.arg for a in init.args.args] != ['self', 'store', 'chunk_info', 'corrprods', 'stored_weights_are_scaled',
                                           'van_vleck', 'preselect_index']:
        raise TranslateError('%s: ChunkStoreVisFlagsWeights.__init__ arguments changed' % rel)
    d = _defaults(init)
    if d.get('corrprods') != 'None' or d.get('preselect_index') != '()':
        raise TranslateError('%s: defaults of corrprods / preselect_index are not None / ()' % rel)
    if d.get('stored_weights_are_scaled') not in ('True', 'False'):
        raise TranslateError('%s: default of stored_weights_are_scaled is not a bool literal' % rel)
    if d.get('van_vleck') not in ("'off'", "'autocorr'"):
        raise TranslateError("%s: default of van_vleck is not 'off' / 'autocorr'" % rel)
    body = _stmts(init.body)
    vv = ("ifvan_vleck=='autocorr':vis=correct_autocorr_quantisation(vis,corrprods)elifvan_vleck!='off':"
          "raiseValueError(")
    iv = [i for i, s in enumerate(body) if s.startswith(vv)]
    isw = [i for i, s in enumerate(body) if s.startswith('stored_weights=')]
    icp = [i for i, s in enumerate(body) if s.startswith('ifcorrprodsisnotNone:')]
    ivis = [i for i, s in enumerate(body) if s == "vis=darray['correlator_data']"]
    if not (len(iv) == len(isw) == len(icp) == len(ivis) == 1 and ivis[0] < iv[0] < isw[0] < icp[0]):
        raise TranslateError('%s: __init__ is not (vis, Van Vleck choice, stored weights, corrprods choice) in that order' % rel)
    if body[-1] != 'VisFlagsWeights.__init__(self,vis,flags,weights,unscaled_weights)':
        raise TranslateError('%s: __init__ does not end with VisFlagsWeights.__init__(self, vis, flags, weights, unscaled_weights)' % rel)
    # lost chunks
    loop = ("forarray,infoinchunk_info.items():array_name=store.join(info['prefix'],array)"
            "errors=DATA_LOSTifarray=='flags'else'placeholder'"
            "darray[array]=store.get_dask_array(array_name,info['chunks'],info['dtype'],index=preselect_index,errors=errors)")
    if loop not in body:
        raise TranslateError('%s: the loop creating the dask arrays (placeholder for lost chunks, preselect index) changed' % rel)
    fill = [s for s in body if s.startswith("forarray_name,arrayindarray.items():ifarray_name=='flags':continuenew_name='filled-'")]
    if len(fill) != 1 or '_default_zero,(array.name,)+index' not in fill[0] \
            or 'darray[array_name]=da.Array(dsk,new_name,chunks=array.chunks,shape=array.shape,dtype=array.dtype)' not in fill[0]:
        raise TranslateError('%s: the loop filling lost chunks of the non-flag arrays changed' % rel)
    dz = _find_func(tree, '_default_zero', rel)
    dzb = _stmts(dz.body)
    fillv = None
    for name, val in (('np.zeros', 0), ('np.ones', 1)):
        if dzb == ['ifisinstance(array,PlaceholderChunk):return%s(array.shape,array.dtype)else:returnarray' % name]:
            fillv = val
    if fillv is None:
        raise TranslateError('%s: _default_zero is not `zeros/ones(array.shape, array.dtype) if placeholder else array`: %s' % (rel, dzb))
    # VisFlagsWeights.__init__ shape tests
    base = _class(tree, 'VisFlagsWeights', rel)
    binit = [n for n in base.body if isinstance(n, ast.FunctionDef) and n.name == '__init__']
    if len(binit) != 1:
        raise TranslateError('%s: VisFlagsWeights.__init__ not found' % rel)
    bb = _stmts(binit[0].body)
    for w in ['ifnotvis.shape==flags.shape==weights.shape:', 'ifunscaled_weightsisnotNoneandunscaled_weights.shape!=vis.shape:',
              'self.vis=vis', 'self.weights=weights', 'self.unscaled_weights=unscaled_weights']:
        if not any(s.startswith(w) for s in bb):
            raise TranslateError('%s: VisFlagsWeights.__init__ statement not found: %s' % (rel, w))
    # weight_power_scale defaults
    k = _find_func(tree, 'weight_power_scale', rel)
    kd = _defaults(k)
    if kd.get('out') != 'None' or kd.get('divide') not in ('True', 'False'):
        raise TranslateError('%s: weight_power_scale defaults are not out=None, divide=<bool>' % rel)
    cq = _find_func(tree, 'correct_autocorr_quantisation', rel)
    cqb = _stmts(cq.body)
    if _defaults(cq) != {'levels': 'None'} or cqb[0] != 'assertlen(corrprods)==vis.shape[2]' \
            or 'iflevelsisNone:levels=np.arange(-127.0,128.0)' not in cqb:
        raise TranslateError('%s: correct_autocorr_quantisation: assertion / default levels changed' % rel)
    out.append('(* katdal/vis_flags_weights.py ChunkStoreVisFlagsWeights.__init__ / weight_power_scale defaults *)')
    out.append('Definition vfw_default_scaled : bool := %s.' % ('true' if d['stored_weights_are_scaled'] == 'True' else 'false'))
    out.append('Definition vfw_default_van_vleck : Z := (%d)%%Z.' % (0 if d['van_vleck'] == "'off'" else 1))
    out.append('Definition vfw_lost_fill : Z := (%d)%%Z.' % fillv)
    out.append('Definition weights_default_divide : bool := %s.' % ('true' if kd['divide'] == 'True' else 'false'))


def item_excision_api(repo, out):
    """visdatav4: _cbf_attrs (the chain of look-ups), the exceptions that make a data set "lite", when the excision
    indexer is None, the order of the two transforms and the error of the properties."""
    rel = 'katdal/visdatav4.py'
    tree = _parse(repo, rel)
    fn = _find_func(tree, '_cbf_attrs', rel)
    body = _stmts(fn.body)
    want = ["correlator_stream=attrs['src_streams'][0]", "int_time=attrs[correlator_stream+'_int_time']",
            "n_accs=attrs[correlator_stream+'_n_accs']", "f_engine_stream=attrs[correlator_stream+'_src_streams'][0]",
            "f_engine_instrument=attrs[f_engine_stream+'_instrument_dev_name']",
            "scale_factor_timestamp=attrs[f_engine_instrument+'_scale_factor_timestamp']",
            'return(int_time,n_accs,f_engine_stream,scale_factor_timestamp)']
    if body != want:
        raise TranslateError('%s: _cbf_attrs is not the expected chain of look-ups: %s' % (rel, body))
    src = _norm(tree)
    for w in ['try:self.cbf_dump_period,cbf_n_accs,f_engine_stream,scale_factor_timestamp=_cbf_attrs(attrs)'
              'except(KeyError,IndexError):self.cbf_dump_period=self.accumulations_per_dump=None',
              'ifunscaled_weightsisNoneorself.accumulations_per_dumpisNone:self._excision=Noneelse:',
              "ifself._excisionisNone:raiseValueError(", "ifself._weightsisNone:raiseValueError(",
              'returnself._excision', 'returnself._weights',
              'self._weights=DaskLazyIndexer(self._corrected.weights,stage1)',
              "self.dump_period=attrs['int_time']"]:
        if w not in src:
            raise TranslateError('%s: statement not found: %s' % (rel, w))
    out.append('(* katdal/visdatav4.py _cbf_attrs: look-ups that must all succeed (src_streams[0], int_time, n_accs, '
               'src_streams[0] of the correlator, instrument_dev_name, scale_factor_timestamp) *)')
    out.append('Definition excision_api_shapes_checked : bool := true.')


def item_averager_blocks(repo, out):
    """averager: default factors, the baseline block size, where the accumulators are initialised, their initial
    values, and the block loop."""
    rel = 'katdal/averager.py'
    tree = _parse(repo, rel)
    fn = _find_func(tree, 'average_visibilities', rel)
    if [a.arg for a in fn.args.args] != ['vis', 'weight', 'flag', 'timestamps', 'channel_freqs', 'timeav', 'chanav', 'flagav']:
        raise TranslateError('%s: average_visibilities arguments changed' % rel)
    d = _defaults(fn)
    try:
        dt, dc = int(d['timeav']), int(d['chanav'])
    except (KeyError, ValueError):
        raise TranslateError('%s: defaults of timeav / chanav are not integer literals' % rel)
    if dt < 0 or dc < 0 or d.get('flagav') not in ('True', 'False'):
        raise TranslateError('%s: defaults of timeav / chanav / flagav out of the modelled range' % rel)
    k = _find_func(tree, '_average_visibilities', rel)
    bl = [s for s in k.body if isinstance(s, ast.Assign) and _norm(s.targets[0]) == 'bl_step']
    if len(bl) != 1 or not (isinstance(bl[0].value, ast.Constant) and isinstance(bl[0].value.value, int)
                            and not isinstance(bl[0].value.value, bool) and bl[0].value.value >= 0):
        raise TranslateError('%s: `bl_step = <non-negative int literal>` not found exactly once' % rel)
    bl_step = bl[0].value.value
    # loop nest: for av_c in prange: ...; for av_t: tstart; for bstart in range(0, n_bl, bl_step): bstop; init; for t ...; for b ...
    lc = [s for s in k.body if isinstance(s, ast.For)]
    if len(lc) != 1 or _norm(lc[0].target) != 'av_c' or _norm(lc[0].iter) != 'numba.prange(0,av_n_chans)':
        raise TranslateError('%s: outer loop is not `for av_c in numba.prange(0, av_n_chans)`' % rel)
    lt = [s for s in lc[0].body if isinstance(s, ast.For)]
    if len(lt) != 1 or _norm(lt[0].target) != 'av_t' or _norm(lt[0].iter) != 'range(0,av_n_time)':
        raise TranslateError('%s: second loop is not `for av_t in range(0, av_n_time)`' % rel)
    pre_c = [_norm(s) for s in lc[0].body if not isinstance(s, ast.For)]
    alloc = ['vis_sum=np.empty(bl_step,vis.dtype)', 'vis_weight_sum=np.empty(bl_step,vis.dtype)',
             'weight_sum=np.empty(bl_step,weight.dtype)', 'flag_any=np.empty(bl_step,dtype=np.bool_)',
             'flag_all=np.empty(bl_step,dtype=np.bool_)']
    if pre_c != ['cstart=av_c*chanav'] + alloc:
        raise TranslateError('%s: per-channel-bin prologue (cstart, accumulator buffers of bl_step cells) changed: %s' % (rel, pre_c))
    lb = [s for s in lt[0].body if isinstance(s, ast.For)]
    pre_t = [_norm(s) for s in lt[0].body if not isinstance(s, ast.For)]
    if len(lb) != 1 or _norm(lb[0].target) != 'bstart' or _norm(lb[0].iter) != 'range(0,n_bl,bl_step)':
        raise TranslateError('%s: block loop is not `for bstart in range(0, n_bl, bl_step)`' % rel)
    init = ['vis_sum[:]=0', 'vis_weight_sum[:]=0', 'weight_sum[:]=0', 'flag_any[:]=False', 'flag_all[:]=True']
    blk = [_norm(s) for s in lb[0].body if not isinstance(s, ast.For)]
    inner = [s for s in lb[0].body if isinstance(s, ast.For)]
    if blk == ['bstop=min(n_bl,bstart+bl_step)'] + init and pre_t == ['tstart=av_t*timeav']:
        per_block = True
    elif blk == ['bstop=min(n_bl,bstart+bl_step)'] and pre_t == ['tstart=av_t*timeav'] + init:
        per_block = False
    else:
        raise TranslateError('%s: accumulator initialisation not of a known shape: per-bin %s, per-block %s' % (rel, pre_t, blk))
    # the statements order inside the block: bstop, (init), accumulation loop, finishing loop
    kinds = ['for' if isinstance(s, ast.For) else 'stmt' for s in lb[0].body]
    if kinds != ['stmt'] * len(blk) + ['for', 'for'] or len(inner) != 2:
        raise TranslateError('%s: block body is not (bstop, init, accumulation loop, finishing loop)' % rel)
    acc, fin = inner
    if _norm(acc.target) != 't' or _norm(acc.iter) != 'range(tstart,tstart+timeav)' \
            or _norm(fin.target) != 'b' or _norm(fin.iter) != 'range(bstop-bstart)':
        raise TranslateError('%s: accumulation / finishing loop headers changed' % rel)
    src = _norm(acc)
    # (the flag test `flag_u8[t, c, b1] <op> <int>` itself is regenerated by item_averager_flag_byte)
    import re as _re
    if not _re.search(r'forcinrange\(cstart,cstart\+chanav\):forbinrange\(bstop-bstart\):b1=b\+bstartv=vis\[t,c,b1\]'
                      r'w=weight\[t,c,b1\]f=flag_u8\[t,c,b1\](!=|==|>=|<=|>|<)\d+iff:w=wzero', src):
        raise TranslateError('%s: accumulation loop body changed' % rel)
    if not _norm(fin).startswith('forbinrange(bstop-bstart):b1=b+bstartw=np.float32(weight_sum[b])'):
        raise TranslateError('%s: finishing loop body changed' % rel)
    out.append('(* katdal/averager.py defaults and baseline blocking *)')
    out.append('Definition averager_default_timeav : nat := %d%%nat.' % dt)
    out.append('Definition averager_default_chanav : nat := %d%%nat.' % dc)
    out.append('Definition averager_default_flagav : bool := %s.' % ('true' if d['flagav'] == 'True' else 'false'))
    out.append('Definition averager_bl_step : nat := %d%%nat.' % bl_step)
    out.append('Definition averager_init_per_block : bool := %s.' % ('true' if per_block else 'false'))


def item_v3_weights(repo, out):
    """h5datav3: the weights transform, the value of the dummy data sets, the parsing of the weight selection."""
    rel = 'katdal/h5datav3.py'
    tree = _parse(repo, rel)
    src = _norm(tree)
    vals = {}
    for nm, key in (('weights', "dummy_dataset('dummy_weights',shape=self._vis.shape[:-1],dtype=np.float32,value="),
                    ('weights_channel', "dummy_dataset('dummy_weights_channel',shape=self._vis.shape[:-2],dtype=np.float32,value=")):
        pre = "self._%s=data_group['%s']if'%s'indata_groupelse%s" % (nm, nm, nm, key)
        i = src.find(pre)
        if i < 0 or src.find(pre, i + 1) >= 0:
            raise TranslateError('%s: `self._%s = data_group[...] if present else dummy_dataset(...)` not found exactly once' % (rel, nm))
        j = src.index(')', i + len(pre))
        try:
            vals[nm] = Fraction(float(src[i + len(pre):j]))
        except ValueError:
            raise TranslateError('%s: dummy value of %s is not a float literal' % (rel, nm))
    for w in ['returnlo_res_weights*hi_res_weightsifweights_selectelsenp.ones_like(lo_res_weights,dtype=np.float32)',
              'weights_select=self._weights_select', 'hi_res_weights=weights_channel[keep]',
              'iflo_res_weights.ndim>hi_res_weights.ndim:hi_res_weights=hi_res_weights[...,np.newaxis]',
              "extract=LazyTransform('extract_weights',transform,dtype=np.float32)",
              'indexer=self._vislike_indexer(self._weights,extract)',
              'weights_channel=self._vislike_indexer(self._weights_channel,dims=2)',
              "self._weights_select=[]self._weights_keep='all'",
              'names=_selection_to_list(names,all=known_weights)selection=[]fornameinnames:'
              'try:selection.append(known_weights.index(name))exceptValueError:',
              'self._weights_select=selection']:
        if w not in src:
            raise TranslateError('%s: statement not found: %s' % (rel, w))
    out.append('(* katdal/h5datav3.py weights: values of the dummy data sets *)')
    for nm in ('weights', 'weights_channel'):
        out.append('Definition v3_dummy_%s_num : Z := (%d)%%Z.' % (nm, vals[nm].numerator))
        out.append('Definition v3_dummy_%s_den : positive := %d%%positive.' % (nm, vals[nm].denominator))
    out.append('Definition v3_unselected_num : Z := (1)%Z.')



# =========================================================================== round 3 items (Van Vleck table, flag bytes)
from vh.translate import parse_template


def _tmpl(text):
    """a template statement in the translator's normal form, spaces removed"""
    return _norm(parse_template(text))


def _q(v, what):
    """exact rational of a float / int literal"""
    try:
        return Fraction(v)
    except (TypeError, ValueError, OverflowError):
        raise TranslateError('%s: not a finite number: %r' % (what, v))


def _int_expr_Z(node, var, what):
    """tiny integer language over ONE name: literals, + - * // -> Gallina (Z)"""
    if isinstance(node, ast.Constant) and isinstance(node.value, int) and not isinstance(node.value, bool):
        return '(%d)' % node.value
    if isinstance(node, ast.Name) and node.id == var:
        return var
    if isinstance(node, ast.BinOp) and isinstance(node.op, (ast.Add, ast.Sub, ast.Mult, ast.FloorDiv)):
        op = {ast.Add: '+', ast.Sub: '-', ast.Mult: '*', ast.FloorDiv: '/'}[type(node.op)]
        return '(%s %s %s)' % (_int_expr_Z(node.left, var, what), op, _int_expr_Z(node.right, var, what))
    raise TranslateError('%s: unsupported integer expression %s' % (what, _norm(node)))


def _call(node, func, what):
    if not (isinstance(node, ast.Call) and _norm(node.func) == func):
        raise TranslateError('%s: expected a call of %s, got %s' % (what, func, _norm(node)[:80]))
    return node


def _emit_q(out, name, fr):
    out.append('Definition %s_num : Z := (%d)%%Z.' % (name, fr.numerator))
    out.append('Definition %s_den : positive := %d%%positive.' % (name, fr.denominator))


def item_vv_table(repo, out):
    """van_vleck.autocorr_lookup_table: the grid of true powers (two logspace calls: exponents, counts as functions of
    `size`, endpoint), the anchor point put in front of both columns, the clip at the top, the two factors, the statement
    order; the numerical helpers statement by statement; the default size and the default levels."""
    rel = 'katdal/van_vleck.py'
    tree = _parse(repo, rel)
    fn = _find_func(tree, 'autocorr_lookup_table', rel)
    if [a.arg for a in fn.args.args] != ['levels', 'size']:
        raise TranslateError('%s: autocorr_lookup_table arguments changed' % rel)
    d = _defaults(fn)
    try:
        size = int(d['size'])
    except (KeyError, ValueError):
        raise TranslateError('%s: default of size is not an integer literal' % rel)
    body = [s for s in fn.body
            if not (isinstance(s, ast.Expr) and isinstance(s.value, ast.Constant) and isinstance(s.value.value, str))]
    if len(body) != 9:
        raise TranslateError('%s: autocorr_lookup_table has %d statements, expected 9' % (rel, len(body)))
    fixed = {0: 'abs_levels = np.abs(levels)', 1: 'sxx_min_nonzero = abs_levels[abs_levels > 0].min() ** 2',
             2: 'sxx_max = abs_levels.max() ** 2', 4: 'rxx_grid *= sxx_min_nonzero',
             5: 'sxx_mean = _squared_quant_norm0_mean(levels, rxx_grid)'}
    for i, t in fixed.items():
        if _norm(body[i]) != _tmpl(t):
            raise TranslateError('%s: autocorr_lookup_table statement %d is not `%s`: %s' % (rel, i, t, _norm(body[i])))
    # ---- rxx_grid = np.r_[np.logspace(lo, 0, n_low, endpoint=False), np.logspace(0, np.log10(...) + extra, n_high)]
    g = body[3]
    if not (isinstance(g, ast.Assign) and _norm(g.targets[0]) == 'rxx_grid' and isinstance(g.value, ast.Subscript)
            and _norm(g.value.value) == 'np.r_' and isinstance(g.value.slice, ast.Tuple) and len(g.value.slice.elts) == 2):
        raise TranslateError('%s: rxx_grid is not np.r_[<low part>, <high part>]' % rel)
    parts = []
    for k, c in enumerate(g.value.slice.elts):
        c = _call(c, 'np.logspace', '%s: rxx_grid part %d' % (rel, k))
        kws = {kw.arg: kw.value for kw in c.keywords}
        if len(c.args) != 3 or set(kws) - {'endpoint'}:
            raise TranslateError('%s: rxx_grid part %d is not np.logspace(start, stop, num[, endpoint=])' % (rel, k))
        ep = kws.get('endpoint', ast.Constant(True))
        if not (isinstance(ep, ast.Constant) and isinstance(ep.value, bool)):
            raise TranslateError('%s: endpoint= of rxx_grid part %d is not a boolean literal' % (rel, k))
        parts.append((c.args, ep.value))
    (lo_a, lo_ep), (hi_a, hi_ep) = parts
    lo_start = _q(_float_expr(lo_a[0], 'low start'), 'low start')
    lo_stop = _q(_float_expr(lo_a[1], 'low stop'), 'low stop')
    hi_start = _q(_float_expr(hi_a[0], 'high start'), 'high start')
    top = hi_a[1]
    if not (isinstance(top, ast.BinOp) and isinstance(top.op, ast.Add)
            and _norm(top.left) == _tmpl('np.log10(sxx_max / sxx_min_nonzero)')):
        raise TranslateError('%s: stop of the high part is not np.log10(sxx_max / sxx_min_nonzero) + <const>' % rel)
    extra = _q(_float_expr(top.right, 'high extra'), 'high extra')
    n_low = _int_expr_Z(lo_a[2], 'size', '%s: number of low grid points' % rel)
    n_high = _int_expr_Z(hi_a[2], 'size', '%s: number of high grid points' % rel)
    # ---- sxx_table = np.r_[a, sxx_mean, sxx_max]; rxx_table = np.r_[b, rxx_grid, rxx_grid[-1]]
    anchors = []
    for i, (tgt, mid, last) in ((6, ('sxx_table', 'sxx_mean', 'sxx_max')), (7, ('rxx_table', 'rxx_grid', 'rxx_grid[-1]'))):
        s = body[i]
        if not (isinstance(s, ast.Assign) and _norm(s.targets[0]) == tgt and isinstance(s.value, ast.Subscript)
                and _norm(s.value.value) == 'np.r_' and isinstance(s.value.slice, ast.Tuple)
                and len(s.value.slice.elts) == 3 and _norm(s.value.slice.elts[1]) == mid
                and _norm(s.value.slice.elts[2]) == _tmpl(last)):
            raise TranslateError('%s: %s is not np.r_[<anchor>, %s, %s]' % (rel, tgt, mid, last))
        anchors.append(_q(_float_expr(s.value.slice.elts[0], tgt + ' anchor'), tgt + ' anchor'))
    r = body[8]
    if not (isinstance(r, ast.Return) and isinstance(r.value, ast.Tuple) and len(r.value.elts) == 2):
        raise TranslateError('%s: autocorr_lookup_table does not return a pair' % rel)
    factors = []
    for e, nm in zip(r.value.elts, ('sxx_table', 'rxx_table')):
        if not (isinstance(e, ast.BinOp) and isinstance(e.op, ast.Mult) and _norm(e.right) == nm):
            raise TranslateError('%s: returned column is not <factor> * %s' % (rel, nm))
        factors.append(_q(_float_expr(e.left, nm + ' factor'), nm + ' factor'))
    # ---- numerical helpers, statement by statement (outside the model: fail-closed only)
    helpers = {'_quant_norm0_pmf': ['edges = np.r_[-np.inf, levels[:-1] + np.diff(levels) / 2., np.inf]',
                                    'return np.diff(norm0_cdf(edges, np.sqrt(var)))'],
               '_squared_quant_norm0_mean': ['levels = np.asarray(levels)', 'var = np.asarray(var)[..., np.newaxis]',
                                             'pmf = _quant_norm0_pmf(levels, var)', 'return pmf.dot(levels * levels)'],
               'norm0_cdf': ['return 0.5 * (math.erf(np.sqrt(0.5) * x / scale) + 1.)']}
    for nm, want in helpers.items():
        h = _find_func(tree, nm, rel)
        if _stmts(h.body) != [_tmpl(t) for t in want]:
            raise TranslateError('%s: %s changed: %s' % (rel, nm, _stmts(h.body)))
    # ---- default levels of the caller: np.arange(-127., 128.)
    rel2 = 'katdal/vis_flags_weights.py'
    cq_ = _find_func(_parse(repo, rel2), 'correct_autocorr_quantisation', rel2)
    lv = [s for s in ast.walk(cq_) if isinstance(s, ast.Assign) and _norm(s.targets[0]) == 'levels']
    if len(lv) != 1:
        raise TranslateError('%s: default levels not assigned exactly once' % rel2)
    c = _call(lv[0].value, 'np.arange', '%s: default levels' % rel2)
    if len(c.args) != 2 or c.keywords:
        raise TranslateError('%s: default levels are not np.arange(a, b)' % rel2)
    a_lo, a_hi = [_q(_float_expr(x, 'levels'), 'levels') for x in c.args]
    if a_lo.denominator != 1 or a_hi.denominator != 1:
        raise TranslateError('%s: default levels are not integers' % rel2)
    out.append('(* katdal/van_vleck.py autocorr_lookup_table *)')
    _emit_q(out, 'vv_anchor_sxx', anchors[0])
    _emit_q(out, 'vv_anchor_rxx', anchors[1])
    _emit_q(out, 'vv_factor_sxx', factors[0])
    _emit_q(out, 'vv_factor_rxx', factors[1])
    _emit_q(out, 'vv_low_start', lo_start)
    _emit_q(out, 'vv_low_stop', lo_stop)
    _emit_q(out, 'vv_high_start', hi_start)
    _emit_q(out, 'vv_high_extra', extra)
    out.append('Definition vv_low_endpoint : bool := %s.' % ('true' if lo_ep else 'false'))
    out.append('Definition vv_high_endpoint : bool := %s.' % ('true' if hi_ep else 'false'))
    out.append('Definition vv_low_count (size : Z) : Z := %s.' % n_low)
    out.append('Definition vv_high_count (size : Z) : Z := %s.' % n_high)
    out.append('Definition vv_default_size : Z := (%d)%%Z.' % size)
    out.append('Definition vv_default_levels_lo : Z := (%d)%%Z.' % a_lo.numerator)
    out.append('Definition vv_default_levels_hi : Z := (%d)%%Z.' % a_hi.numerator)


_CMP_Z = {ast.NotEq: 'negb (Z.eqb byte (%d))', ast.Eq: 'Z.eqb byte (%d)', ast.Gt: 'Z.ltb (%d) byte',
          ast.GtE: 'Z.leb (%d) byte', ast.Lt: 'Z.ltb byte (%d)', ast.LtE: 'Z.leb byte (%d)'}


def item_averager_flag_byte(repo, out):
    """_average_visibilities: flags are read as BYTES (`flag.view(np.uint8)`), a sample is flagged by the regenerated
    comparison `flag_u8[t, c, b1] <op> <int>`, a flagged sample gets the weight `wzero = weight.dtype.type(<const>)` by a
    branch (never by arithmetic on the byte), and the five accumulations follow in the modelled order."""
    rel = 'katdal/averager.py'
    tree = _parse(repo, rel)
    k = _find_func(tree, '_average_visibilities', rel)
    top = _stmts(k.body)
    if _tmpl('flag_u8 = flag.view(np.uint8)') not in top:
        raise TranslateError('%s: `flag_u8 = flag.view(np.uint8)` not found' % rel)
    wz = [s for s in k.body if isinstance(s, ast.Assign) and _norm(s.targets[0]) == 'wzero']
    if len(wz) != 1:
        raise TranslateError('%s: wzero not assigned exactly once' % rel)
    c = _call(wz[0].value, 'weight.dtype.type', '%s: wzero' % rel)
    if len(c.args) != 1 or c.keywords:
        raise TranslateError('%s: wzero is not weight.dtype.type(<const>)' % rel)
    wzero = _q(_float_expr(c.args[0], 'wzero'), 'wzero')
    # the innermost accumulation body: the `for b in range(bstop - bstart)` loop nested in `for c` in `for t`
    inner = [n for n in ast.walk(k) if isinstance(n, ast.For) and _norm(n.target) == 'b'
             and any(isinstance(s, ast.Assign) and _norm(s.targets[0]) == 'f' and 'flag_u8' in _norm(s.value) for s in n.body)]
    if len(inner) != 1:
        raise TranslateError('%s: the accumulation loop over b (with the flag test) was not found exactly once' % rel)
    body = inner[0].body
    st = _stmts(body)
    if len(body) != 10:
        raise TranslateError('%s: accumulation loop body has %d statements, expected 10: %s' % (rel, len(body), st))
    want_pre = [_tmpl('b1 = b + bstart'), _tmpl('v = vis[t, c, b1]'), _tmpl('w = weight[t, c, b1]')]
    want_post = [_tmpl('flag_any[b] |= f'), _tmpl('flag_all[b] &= f'), _tmpl('vis_sum[b] += v'),
                 _tmpl('vis_weight_sum[b] += w * v'), _tmpl('weight_sum[b] += w')]
    if st[:3] != want_pre or st[5:] != want_post:
        raise TranslateError('%s: accumulation loop body changed: %s' % (rel, st))
    f = body[3]
    t = f.value
    if not (isinstance(t, ast.Compare) and len(t.ops) == 1 and _norm(t.left) == 'flag_u8[t,c,b1]'
            and type(t.ops[0]) in _CMP_Z and isinstance(t.comparators[0], ast.Constant)
            and isinstance(t.comparators[0].value, int) and not isinstance(t.comparators[0].value, bool)):
        raise TranslateError('%s: flag test is not `flag_u8[t, c, b1] <op> <int literal>`: %s' % (rel, _norm(f)))
    if st[4] != _tmpl('if f:\n    w = wzero').replace('\n', ''):
        raise TranslateError('%s: a flagged sample is not given the weight wzero by `if f: w = wzero`: %s' % (rel, st[4]))
    out.append('(* katdal/averager.py: the flag test on the byte behind a flag, the weight of a flagged sample *)')
    out.append('Definition averager_flag_is_set (byte : Z) : bool := %s.' % (_CMP_Z[type(t.ops[0])] % t.comparators[0].value))
    _emit_q(out, 'averager_wzero', wzero)


ITEMS = [item_weight_power_scale, item_scale_weights, item_excision, item_averager,
         item_narrow, item_vfw_options, item_excision_api, item_averager_blocks, item_v3_weights,
         item_vv_table, item_averager_flag_byte]

