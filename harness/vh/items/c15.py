"""Translator items for C15 (katdal/vis_flags_weights.py, katdal/visdatav4.py, katdal/averager.py), fail-closed:

* weight_power_scale: the `bad_weight` constant (as the float32 it is rounded to), the exact statements of the two
  inner loops, and whether a non-finite autocorrelation is turned into NaN before it is used (the repair of F9);
* _scale_weights / correct_autocorr_quantisation: both re-chunk to ONE chunk on the baseline axis before the
  block-wise kernel, and _scale_weights passes the three lookup arrays of corrprod_to_autocorr;
* corrprod_to_autocorr: the dict-based scan (last occurrence of an autocorrelation wins);
* ChunkStoreVisFlagsWeights: stored = weights * weights_channel[..., newaxis] and which of weights / unscaled_weights
  is scaled with divide=True / divide=False;
* visdatav4: the two excision transforms and the float32 constants they use;
* averager: which averaging factor is clamped to the array size (`timeav = min(timeav, n_time)`; the line
  `flagav = min(flagav, n_chans)` clamps the flag option, not `chanav`) and the kernel's finishing statements.
"""
import ast
import struct
from fractions import Fraction

from vh.translate import TranslateError, _parse


def _find_func(tree, name, rel):
    found = [n for n in tree.body if isinstance(n, ast.FunctionDef) and n.name == name]
    if len(found) != 1:
        raise TranslateError('%s: expected exactly one function %s' % (rel, name))
    return found[0]


def _norm(node):
    return ast.unparse(node).replace(' ', '').replace('\n', '')


def _float_expr(node, what):
    """tiny float constant language: numbers, unary minus, ** * /"""
    if isinstance(node, ast.Constant) and isinstance(node.value, (int, float)) and not isinstance(node.value, bool):
        return node.value
    if isinstance(node, ast.UnaryOp) and isinstance(node.op, ast.USub):
        return -_float_expr(node.operand, what)
    if isinstance(node, ast.BinOp) and isinstance(node.op, (ast.Pow, ast.Mult, ast.Div)):
        a, b = _float_expr(node.left, what), _float_expr(node.right, what)
        try:
            return a ** b if isinstance(node.op, ast.Pow) else a * b if isinstance(node.op, ast.Mult) else a / b
        except (ZeroDivisionError, OverflowError) as e:
            raise TranslateError('%s: %s' % (what, e))
    raise TranslateError('%s: unsupported constant expression %s' % (what, ast.dump(node)[:120]))


def _f32(v):
    try:
        return struct.unpack('f', struct.pack('f', float(v)))[0]
    except (OverflowError, struct.error) as e:
        raise TranslateError('not a float32: %r (%s)' % (v, e))


def _stmts(body):
    """normalised statements, docstrings / comments dropped"""
    return [_norm(s) for s in body
            if not (isinstance(s, ast.Expr) and isinstance(s.value, ast.Constant) and isinstance(s.value.value, str))]


def item_weight_power_scale(repo, out):
    rel = 'katdal/vis_flags_weights.py'
    tree = _parse(repo, rel)
    fn = _find_func(tree, 'weight_power_scale', rel)
    args = [a.arg for a in fn.args.args]
    if args != ['vis', 'weights', 'auto_indices', 'index1', 'index2', 'out', 'divide']:
        raise TranslateError('%s: weight_power_scale arguments are %s' % (rel, args))
    body = _stmts(fn.body)
    # ---- bad_weight = np.float32(<constant>)
    bw = [s for s in fn.body if isinstance(s, ast.Assign) and _norm(s.targets[0]) == 'bad_weight']
    if len(bw) != 1 or not (isinstance(bw[0].value, ast.Call) and _norm(bw[0].value.func) == 'np.float32'
                            and len(bw[0].value.args) == 1 and not bw[0].value.keywords):
        raise TranslateError('%s: `bad_weight = np.float32(<const>)` not found exactly once' % rel)
    val = _f32(_float_expr(bw[0].value.args[0], 'bad_weight'))
    if val != val or val in (float('inf'), float('-inf')):
        raise TranslateError('%s: bad_weight is not finite' % rel)
    fr = Fraction(val)
    # ---- the loops
    if body[:2] != ['auto_scale=np.empty(len(auto_indices),np.float32)',
                    'out=np.empty(vis.shape,np.float32)ifoutisNoneelseout'] or body[-1] != 'returnout':
        raise TranslateError('%s: weight_power_scale prologue / epilogue changed' % rel)
    loops = [s for s in fn.body if isinstance(s, ast.For)]
    if len(loops) != 1 or _norm(loops[0].target) != 'i' or _norm(loops[0].iter) != 'range(vis.shape[0])':
        raise TranslateError('%s: outer loop is not `for i in range(vis.shape[0])`' % rel)
    lj = loops[0].body
    if len(lj) != 1 or not isinstance(lj[0], ast.For) or _norm(lj[0].target) != 'j' \
            or _norm(lj[0].iter) != 'range(vis.shape[1])':
        raise TranslateError('%s: second loop is not `for j in range(vis.shape[1])`' % rel)
    inner = [s for s in lj[0].body if isinstance(s, ast.For)]
    if len(inner) != 2 or len(lj[0].body) != 2:
        raise TranslateError('%s: expected exactly the two inner loops over the autocorrelations and the baselines' % rel)
    la, lb = inner
    if _norm(la.target) != 'k' or _norm(la.iter) != 'range(len(auto_indices))' \
            or _norm(lb.target) != 'k' or _norm(lb.iter) != 'range(vis.shape[2])':
        raise TranslateError('%s: inner loop ranges changed' % rel)
    sa = _stmts(la.body)
    unguarded = ['autocorr=vis[i,j,auto_indices[k]].real',
                 'auto_scale[k]=np.reciprocal(autocorr)ifdivideelseautocorr']
    guarded = ['autocorr=vis[i,j,auto_indices[k]].real',
               'scale=np.reciprocal(autocorr)ifdivideelseautocorr',
               'auto_scale[k]=scaleifnp.isfinite(autocorr)elsenp.float32(np.nan)']
    if sa == unguarded:
        guard = False
    elif sa == guarded:
        guard = True
    else:
        raise TranslateError('%s: autocorrelation loop body not of a known shape: %s' % (rel, sa))
    sb = _stmts(lb.body)
    if sb != ['p=auto_scale[index1[k]]*auto_scale[index2[k]]', 'ifnotnp.isfinite(p):p=bad_weight',
              'out[i,j,k]=p*weights[i,j,k]']:
        raise TranslateError('%s: baseline loop body not of the expected shape: %s' % (rel, sb))
    out.append('(* katdal/vis_flags_weights.py weight_power_scale *)')
    out.append('Definition weights_bad_weight_num : Z := (%d)%%Z.' % fr.numerator)
    out.append('Definition weights_bad_weight_den : positive := %d%%positive.' % fr.denominator)
    out.append('Definition weights_nonfinite_auto_guard : bool := %s.' % ('true' if guard else 'false'))


def item_scale_weights(repo, out):
    rel = 'katdal/vis_flags_weights.py'
    tree = _parse(repo, rel)
    fn = _find_func(tree, '_scale_weights', rel)
    body = _stmts(fn.body)
    want = ['assertlen(corrprods)==vis.shape[2]',
            'iflen(vis.chunks[2])>1:vis=vis.rechunk({2:vis.shape[2]})',
            'iflen(weights.chunks[2])>1:weights=weights.rechunk({2:weights.shape[2]})',
            'auto_indices,index1,index2=corrprod_to_autocorr(corrprods)',
            "returnda.blockwise(weight_power_scale,'ijk',vis,'ijk',weights,'ijk',dtype=np.float32,"
            "auto_indices=auto_indices,index1=index1,index2=index2,divide=divide)"]
    if body != want:
        raise TranslateError('%s: _scale_weights is not (assert, rechunk vis, rechunk weights, lookup, blockwise): %s'
                             % (rel, body))
    fn = _find_func(tree, 'correct_autocorr_quantisation', rel)
    body = _stmts(fn.body)
    if 'iflen(vis.chunks[2])>1:vis=vis.rechunk({2:vis.shape[2]})' not in body \
            or 'auto_indices,_,_=corrprod_to_autocorr(corrprods)' not in body \
            or 'quantised_autocorr_table,true_autocorr_table=autocorr_lookup_table(levels)' not in body:
        raise TranslateError('%s: correct_autocorr_quantisation lost its rechunk / lookup / table statement' % rel)
    inner = [n for n in fn.body if isinstance(n, ast.FunctionDef)]
    if len(inner) != 1 or _stmts(inner[0].body) != [
            'out=vis.copy()',
            'out[...,auto_indices]=np.interp(vis[...,auto_indices].real,quantised_autocorr_table,true_autocorr_table)',
            'returnout']:
        raise TranslateError('%s: the Van Vleck block function changed' % rel)
    # corrprod_to_autocorr: the scan
    fn = _find_func(tree, 'corrprod_to_autocorr', rel)
    body = _stmts(fn.body)
    want = ['auto_indices=[]', 'auto_lookup={}',
            'fori,baselineinenumerate(corrprods):ifbaseline[0]==baseline[1]:'
            'auto_lookup[baseline[0]]=len(auto_indices)auto_indices.append(i)',
            'index1=[auto_lookup[a]fora,bincorrprods]', 'index2=[auto_lookup[b]fora,bincorrprods]',
            'return(_narrow(np.array(auto_indices)),_narrow(np.array(index1)),_narrow(np.array(index2)))']
    if body != want:
        raise TranslateError('%s: corrprod_to_autocorr not of the expected shape: %s' % (rel, body))
    # ChunkStoreVisFlagsWeights.__init__: stored weights and the scaled / unscaled choice
    cls = [n for n in tree.body if isinstance(n, ast.ClassDef) and n.name == 'ChunkStoreVisFlagsWeights']
    if len(cls) != 1:
        raise TranslateError('%s: class ChunkStoreVisFlagsWeights not found' % rel)
    init = [n for n in cls[0].body if isinstance(n, ast.FunctionDef) and n.name == '__init__']
    if len(init) != 1:
        raise TranslateError('%s: ChunkStoreVisFlagsWeights.__init__ not found' % rel)
    body = _stmts(init[0].body)
    if "stored_weights=darray['weights']*darray['weights_channel'][...,np.newaxis]" not in body:
        raise TranslateError('%s: stored_weights is not weights * weights_channel[..., np.newaxis]' % rel)
    want = ('ifcorrprodsisnotNone:ifstored_weights_are_scaled:weights=stored_weights'
            'unscaled_weights=_scale_weights(vis,stored_weights,corrprods,divide=False)'
            'else:weights=_scale_weights(vis,stored_weights,corrprods,divide=True)unscaled_weights=stored_weights'
            "else:ifnotstored_weights_are_scaled:raiseValueError('Storedweightsareunscaledbutnocorrprodsareprovided')"
            'weights=stored_weightsunscaled_weights=None')
    if want not in body:
        raise TranslateError('%s: the scaled / unscaled choice of ChunkStoreVisFlagsWeights changed' % rel)
    # datasources: the stream declaration
    rel2 = 'katdal/datasources.py'
    src = _norm(_parse(repo, rel2))
    if "need_weights_power_scale=telstate.get('need_weights_power_scale',False)" not in src \
            or 'stored_weights_are_scaled=notneed_weights_power_scale' not in src:
        raise TranslateError('%s: need_weights_power_scale declaration no longer read / negated' % rel2)
    out.append('Definition weights_pipeline_shapes_checked : bool := true.')


def item_excision(repo, out):
    rel = 'katdal/visdatav4.py'
    src = _norm(_parse(repo, rel))
    want = ['cbf_dumps_per_sdp_dump=round(self.dump_period/self.cbf_dump_period)',
            'self.accumulations_per_dump=cbf_n_accs*cbf_dumps_per_sdp_dump',
            'accs_per_sdp_dump=np.float32(self.accumulations_per_dump)',
            'accs_per_cbf_dump=accs_per_sdp_dump/np.float32(cbf_dumps_per_sdp_dump)',
            'defintegerXcbfXdumps(w):returnda.round(w/accs_per_cbf_dump)*accs_per_cbf_dump'.replace('X', '_'),
            'defexcisionXfraction(w):return(accs_per_sdp_dump-w)/accs_per_sdp_dump'.replace('X', '_'),
            'excision_transforms=[integer_cbf_dumps,excision_fraction]',
            'self._excision=DaskLazyIndexer(unscaled_weights,stage1,excision_transforms)',
            'unscaled_weights=self._corrected.unscaled_weights']
    for w in want:
        if w not in src:
            raise TranslateError('%s: excision statement not found: %s' % (rel, w))
    out.append('Definition excision_shapes_checked : bool := true.')


def item_averager(repo, out):
    rel = 'katdal/averager.py'
    tree = _parse(repo, rel)
    fn = _find_func(tree, 'average_visibilities', rel)
    body = _stmts(fn.body)
    clamp_t = 'timeav=min(timeav,n_time)' in body
    clamp_c = 'chanav=min(chanav,n_chans)' in body
    quirk = 'flagav=min(flagav,n_chans)' in body
    other = [s for s in body if 'min(' in s and s not in ('timeav=min(timeav,n_time)', 'chanav=min(chanav,n_chans)',
                                                         'flagav=min(flagav,n_chans)')]
    if other:
        raise TranslateError('%s: unknown clamp statement %s' % (rel, other))
    for w in ['n_time,n_chans,n_bl=vis.shape', 'n_time=n_time//timeav*timeav', 'n_chans=n_chans//chanav*chanav',
              'vis=vis[:n_time,:n_chans]', 'weight=weight[:n_time,:n_chans]', 'flag=flag[:n_time,:n_chans]',
              'av_vis,av_weight,av_flag=_average_visibilities(vis,weight,flag,timeav,chanav,flagav)']:
        if w not in body:
            raise TranslateError('%s: average_visibilities statement not found: %s' % (rel, w))
    # order: clamps before the trimming
    def pos(s):
        return body.index(s)
    for s in ('timeav=min(timeav,n_time)', 'chanav=min(chanav,n_chans)', 'flagav=min(flagav,n_chans)'):
        if s in body and not pos('n_time,n_chans,n_bl=vis.shape') < pos(s) < pos('n_time=n_time//timeav*timeav'):
            raise TranslateError('%s: clamp %s is not between the shape read and the trimming' % (rel, s))
    k = _find_func(tree, '_average_visibilities', rel)
    src = _norm(k)
    for w in ['av_n_time=n_time//timeav', 'av_n_chans=n_chans//chanav', 'scale=weight.dtype.type(1.0/(timeav*chanav))',
              'f=flag_u8[t,c,b1]!=0', 'iff:w=wzero', 'flag_any[b]|=f', 'flag_all[b]&=f', 'vis_sum[b]+=v',
              'vis_weight_sum[b]+=w*v', 'weight_sum[b]+=w', 'w=np.float32(weight_sum[b])',
              'ifnotw:v=vis_sum[b]*scaleelse:v=vis_weight_sum[b]/w', 'f=flag_any[b]ifflagavelseflag_all[b]',
              'fortinrange(tstart,tstart+timeav):forcinrange(cstart,cstart+chanav):',
              'cstart=av_c*chanav', 'tstart=av_t*timeav',
              'av_vis[av_t,av_c,b1]=vav_weight[av_t,av_c,b1]=wav_flag[av_t,av_c,b1]=f']:
        if w not in src:
            raise TranslateError('%s: _average_visibilities statement not found: %s' % (rel, w))
    out.append('(* katdal/averager.py average_visibilities *)')
    out.append('Definition averager_clamp_timeav : bool := %s.' % ('true' if clamp_t else 'false'))
    out.append('Definition averager_clamp_chanav : bool := %s.' % ('true' if clamp_c else 'false'))
    out.append('Definition averager_flagav_min : bool := %s.' % ('true' if quirk else 'false'))


ITEMS = [item_weight_power_scale, item_scale_weights, item_excision, item_averager]
