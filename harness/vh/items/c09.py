"""C09 translator items: constants, tables and small decision chains of katdal/chunkstore_s3.py.

Everything is looked up syntactically (Python ast) and must have exactly the expected shape; anything else raises
TranslateError (broken tie).  Generated definitions (all prefixed s3_ / jwt_):

  s3_server_glitches : list Z                      _DEFAULT_SERVER_GLITCHES
  s3_status_lo, s3_status_hi : Z                   `lo <= status < hi` guard of _raise_for_status
  s3_status_chain : list (list Z * string)         if/elif tests of _raise_for_status -> exception raised
  s3_status_else : string                          exception of the final else
  s3_error_map : list (string * string)            error_map dict of S3ChunkStore.__init__ (in dict order)
  s3_default_retries, s3_default_status : Z        default `retries=` of __init__, `status=` given to _retry_object
  s3_default_forcelist_is_glitches : bool          status_forcelist=_DEFAULT_SERVER_GLITCHES in __init__
  s3_request_converts : list (list string * string)   `except A/B/C as error: raise X(...)` clauses of _request
  s3_request_unwraps : list (string * list string)    ConnectionError handler of _request: isinstance(cause, T) [and
                                                      isinstance(cause.reason, (R...))] -> raise cause
  s3_loop_catches : list string                    exception tuple caught by the retry loop of S3ChunkStore.request
  s3_verify_steps : list string                    the statements of S3ChunkStore._verify_bucket IN SOURCE ORDER, each one of
                                                   "return_if_cached" (`if bucket in self._verified_buckets: return`),
                                                   "listing" (try: response = self.request('GET', bucket, ...) except
                                                   S3ObjectNotFound: raise <s3_verify_missing>), "raise_if_empty"
                                                   (`if b'<Contents>' not in response.content: raise <s3_verify_empty>`),
                                                   "add" (`self._verified_buckets.add(bucket)`); the model interprets them
  s3_verify_missing, s3_verify_empty : string      exceptions raised for a missing / an empty bucket
  s3_verified_scope : string                       where the verified-bucket cache lives: "object" (`self._verified_buckets =
                                                   set()` in __init__), "class" (class attribute), "process" (bound to a
                                                   module-level container): the model of several store objects follows it
  s3_request_override_status : option Z            `status=` keyword of the _retry_object(retries, ...) call that S3ChunkStore.request
                                                   applies to a PER-CALL `retries` override (None: no such keyword)
  s3_request_override_forcelist_is_glitches : bool `status_forcelist=_DEFAULT_SERVER_GLITCHES` given to that call?
  s3_site_overrides : list (string * (Z * list Z)) the `retries=` keyword of EVERY request site (chunk, listing, put, bucket,
                                                   marker, complete in chunkstore_s3.py; rdb in datasources.py):
                                                   (0, []) absent / None / the store's own Retry object; (1, [n] | [c; r]) an
                                                   int / (connect, read) literal; (2, [n] | [c; r]) kwargs.get('retries', lit)
                                                   = the user's `retries` keyword if given, else the literal (from_url only)
  jwt_sig_alg : string, jwt_sig_len : Z            signature-length check of decode_jwt
  jwt_scheme, jwt_host_exception : string          _auth_factory https rule
"""
import ast

from vh.translate import (TranslateError, _class, _const_eval, _func, _module_assign, _parse, coq_string,
                          coq_strings, coq_Z)

REL = 'katdal/chunkstore_s3.py'


def _name(node):
    """Dotted name of a Name / Attribute chain."""
    if isinstance(node, ast.Name):
        return node.id
    if isinstance(node, ast.Attribute):
        return _name(node.value) + '.' + node.attr
    raise TranslateError('%s: expected a dotted name, got %s' % (REL, ast.dump(node)[:80]))


def _names(node):
    if isinstance(node, ast.Tuple):
        return [_name(e) for e in node.elts]
    return [_name(node)]


def _raised(stmt, what):
    """Name of the exception class in `raise X(...)`."""
    if not (isinstance(stmt, ast.Raise) and isinstance(stmt.exc, ast.Call)):
        raise TranslateError('%s: expected `raise X(...)`' % what)
    return _name(stmt.exc.func)


def _zlist(t):
    return '[' + '; '.join(coq_Z(v) for v in t) + ']'


def item_glitches(repo, out):
    tree = _parse(repo, REL)
    g = _const_eval(_module_assign(tree, '_DEFAULT_SERVER_GLITCHES', REL), {}, '_DEFAULT_SERVER_GLITCHES')
    if not (isinstance(g, tuple) and all(isinstance(v, int) for v in g)):
        raise TranslateError('_DEFAULT_SERVER_GLITCHES is not a tuple of ints')
    out.append('Definition s3_server_glitches : list Z := %s.' % _zlist(g))


def item_raise_for_status(repo, out):
    tree = _parse(repo, REL)
    fn = _func(tree, '_raise_for_status', REL)
    what = '_raise_for_status'
    body = [s for s in fn.body if not (isinstance(s, ast.Expr) and isinstance(s.value, ast.Constant))]
    if not (len(body) == 2 and isinstance(body[0], ast.Assign) and ast.unparse(body[0]) == 'status = response.status_code'
            and isinstance(body[1], ast.If) and not body[1].orelse):
        raise TranslateError(what + ': expected `status = response.status_code` followed by one `if`')
    test = body[1].test
    ok = (isinstance(test, ast.BoolOp) and isinstance(test.op, ast.And) and len(test.values) == 2
          and ast.unparse(test.values[1]) == 'status not in ignored_errors')
    cmp = test.values[0] if ok else None
    ok = ok and (isinstance(cmp, ast.Compare) and len(cmp.ops) == 2 and isinstance(cmp.ops[0], ast.LtE)
                 and isinstance(cmp.ops[1], ast.Lt) and ast.unparse(cmp.comparators[0]) == 'status')
    if not ok:
        raise TranslateError(what + ': guard is not `lo <= status < hi and status not in ignored_errors`')
    lo = _const_eval(cmp.left, {}, what)
    hi = _const_eval(cmp.comparators[1], {}, what)
    stmts = body[1].body
    if not stmts or not isinstance(stmts[-1], ast.If):
        raise TranslateError(what + ': expected an if/elif/else chain of raises at the end')
    inner = [stmts[-1]]
    for s in stmts[:-1]:   # only message building is allowed before the chain
        if isinstance(s, (ast.Assign, ast.AugAssign)):
            continue
        if not (isinstance(s, ast.If) and 'content_type' in ast.unparse(s.test)
                and all(isinstance(b, ast.AugAssign) for b in s.body) and not s.orelse):
            raise TranslateError(what + ': unexpected statement ' + ast.unparse(s)[:60])
    chain = []
    node = inner[0]
    while True:
        t = node.test
        if not (isinstance(t, ast.Compare) and len(t.ops) == 1 and ast.unparse(t.left) == 'status'):
            raise TranslateError(what + ': chain test is not on `status`')
        if isinstance(t.ops[0], ast.In):
            vals = _const_eval(t.comparators[0], {}, what)
        elif isinstance(t.ops[0], ast.Eq):
            vals = (_const_eval(t.comparators[0], {}, what),)
        else:
            raise TranslateError(what + ': chain test must be `in (..)` or `==`')
        if len(node.body) != 1:
            raise TranslateError(what + ': chain branch must be a single raise')
        chain.append((vals, _raised(node.body[0], what)))
        if len(node.orelse) == 1 and isinstance(node.orelse[0], ast.If):
            node = node.orelse[0]
            continue
        if len(node.orelse) != 1:
            raise TranslateError(what + ': final else must be a single raise')
        els = _raised(node.orelse[0], what)
        break
    out.append('Definition s3_status_lo : Z := %s.' % coq_Z(lo))
    out.append('Definition s3_status_hi : Z := %s.' % coq_Z(hi))
    out.append('Definition s3_status_chain : list (list Z * string) := [%s].'
               % '; '.join('(%s, %s)' % (_zlist(v), coq_string(n)) for v, n in chain))
    out.append('Definition s3_status_else : string := %s.' % coq_string(els))


def item_store_init(repo, out):
    tree = _parse(repo, REL)
    cls = _class(tree, 'S3ChunkStore', REL)
    init = _func(cls, '__init__', REL)
    what = 'S3ChunkStore.__init__'
    em = [s for s in init.body if isinstance(s, ast.Assign) and ast.unparse(s.targets[0]) == 'error_map']
    if len(em) != 1 or not isinstance(em[0].value, ast.Dict):
        raise TranslateError(what + ': expected one `error_map = {...}`')
    pairs = [(_name(k), _name(v)) for k, v in zip(em[0].value.keys, em[0].value.values)]
    if 'super().__init__(error_map)' not in [ast.unparse(s) for s in init.body]:
        raise TranslateError(what + ': error_map is not handed to ChunkStore.__init__')
    out.append('Definition s3_error_map : list (string * string) := [%s].'
               % '; '.join('(%s, %s)' % (coq_string(k), coq_string(v)) for k, v in pairs))
    # default of the `retries` argument
    args = init.args
    names = [a.arg for a in args.args]
    defaults = dict(zip(names[len(names) - len(args.defaults):], args.defaults))
    if 'retries' not in defaults:
        raise TranslateError(what + ': no default for retries')
    out.append('Definition s3_default_retries : Z := %s.' % coq_Z(_const_eval(defaults['retries'], {}, what)))
    ro = [s for s in init.body if isinstance(s, ast.Assign) and ast.unparse(s.targets[0]) == 'self.retries']
    if len(ro) != 1 or not (isinstance(ro[0].value, ast.Call) and _name(ro[0].value.func) == '_retry_object'
                             and [ast.unparse(a) for a in ro[0].value.args] == ['retries']):
        raise TranslateError(what + ': expected self.retries = _retry_object(retries, ...)')
    kw = {k.arg: k.value for k in ro[0].value.keywords}
    if set(kw) != {'status', 'backoff_factor', 'status_forcelist'}:
        raise TranslateError(what + ': unexpected keywords for _retry_object: %s' % sorted(kw))
    out.append('Definition s3_default_status : Z := %s.' % coq_Z(_const_eval(kw['status'], {}, what)))
    out.append('Definition s3_default_forcelist_is_glitches : bool := %s.'
               % ('true' if ast.unparse(kw['status_forcelist']) == '_DEFAULT_SERVER_GLITCHES' else 'false'))
    # _retry_object: Retry(connect=connect_retries, read=read_retries, **defaults)
    fn = _func(tree, '_retry_object', REL)
    src = ast.unparse(fn)
    if 'Retry(connect=connect_retries, read=read_retries, **defaults)' not in src or \
            'connect_retries, read_retries = _connect_read_tuple(retries)' not in src:
        raise TranslateError('_retry_object: unexpected construction of the Retry object')


def item_request(repo, out):
    tree = _parse(repo, REL)
    fn = _func(tree, '_request', REL)
    what = '_request'
    tr = [s for s in fn.body if isinstance(s, ast.Try)]
    if len(tr) != 1 or tr[0].orelse or tr[0].finalbody:
        raise TranslateError(what + ': expected a single try statement')
    if 'with session.request(method, url, timeout=timeout, **kwargs) as response:\n    yield response' \
            not in ast.unparse(tr[0].body[0]):
        raise TranslateError(what + ': try body is not `with session.request(...) as response: yield response`')
    converts, unwraps = [], []
    for h in tr[0].handlers:
        types = _names(h.type)
        body = [s for s in h.body if not (isinstance(s, ast.Assign))]
        if len(body) == 1 and isinstance(body[0], ast.Raise) and isinstance(body[0].exc, ast.Call):
            converts.append((types, _raised(body[0], what)))
        elif types == ['requests.exceptions.ConnectionError']:
            if ast.unparse(h.body[0]) != 'cause = error.args[0] if error.args else None':
                raise TranslateError(what + ': ConnectionError handler must start by extracting the cause')
            for s in h.body[1:-1]:
                if not (isinstance(s, ast.If) and not s.orelse and len(s.body) == 1
                        and ast.unparse(s.body[0]) == 'raise cause from error'):
                    raise TranslateError(what + ': unexpected statement in ConnectionError handler')
                tests = s.test.values if isinstance(s.test, ast.BoolOp) and isinstance(s.test.op, ast.And) else [s.test]
                t0 = tests[0]
                if not (isinstance(t0, ast.Call) and _name(t0.func) == 'isinstance' and ast.unparse(t0.args[0]) == 'cause'):
                    raise TranslateError(what + ': expected isinstance(cause, ...)')
                reasons = []
                if len(tests) == 2:
                    t1 = tests[1]
                    if not (isinstance(t1, ast.Call) and _name(t1.func) == 'isinstance'
                            and ast.unparse(t1.args[0]) == 'cause.reason'):
                        raise TranslateError(what + ': expected isinstance(cause.reason, ...)')
                    reasons = _names(t1.args[1])
                elif len(tests) != 1:
                    raise TranslateError(what + ': too many conjuncts in ConnectionError handler')
                unwraps.append((_name(t0.args[1]), reasons))
            if ast.unparse(h.body[-1]) != 'raise':
                raise TranslateError(what + ': ConnectionError handler must end with a bare raise')
        else:
            raise TranslateError(what + ': unrecognised handler for %s' % types)
    out.append('Definition s3_request_converts : list (list string * string) := [%s].'
               % '; '.join('(%s, %s)' % (coq_strings(t), coq_string(r)) for t, r in converts))
    out.append('Definition s3_request_unwraps : list (string * list string) := [%s].'
               % '; '.join('(%s, %s)' % (coq_string(t), coq_strings(r)) for t, r in unwraps))
    # the retry loop of S3ChunkStore.request
    cls = _class(tree, 'S3ChunkStore', REL)
    req = _func(cls, 'request', REL)
    loops = [n for n in ast.walk(req) if isinstance(n, ast.While)]
    if len(loops) != 1 or ast.unparse(loops[0].test) != 'True':
        raise TranslateError('request: expected one `while True` loop')
    trs = [s for s in loops[0].body if isinstance(s, ast.Try)]
    if len(trs) != 1 or len(trs[0].handlers) != 1:
        raise TranslateError('request: expected one try with one handler in the loop')
    h = trs[0].handlers[0]
    hb = [ast.unparse(s) for s in h.body]
    if hb != ['retries = retries.increment(method, url, error=error)', 'retries.sleep()']:
        raise TranslateError('request: loop handler is not increment + sleep: %s' % hb)
    tb = ast.unparse(trs[0].body[0])
    for frag in ('with _request(session, method, url, timeout, **kwargs) as response:',
                 '_raise_for_status(response, chunk_name, ignored_errors)',
                 'retries = response.raw.retries.new()', 'return process(response)'):
        if frag not in tb:
            raise TranslateError('request: loop body lacks `%s`' % frag)
    # ... in exactly this order, and nothing else, inside the `with _request(...)` block
    w = trs[0].body[0]
    if len(trs[0].body) != 1 or not isinstance(w, ast.With) or [ast.unparse(x) for x in w.body] != [
            '_raise_for_status(response, chunk_name, ignored_errors)', 'retries = response.raw.retries.new()',
            'return process(response)']:
        raise TranslateError('request: the with-block is not raise_for_status; renew retries; return process(response)')
    pre = [ast.unparse(s) for s in loops[0].body if not isinstance(s, ast.Try)]
    if pre != ['adapter.max_retries = retries']:
        raise TranslateError('request: loop must set adapter.max_retries = retries: %s' % pre)
    if 'retries = retries.new()' not in [ast.unparse(s) for s in req.body]:
        raise TranslateError('request: retries are not renewed per request')
    out.append('Definition s3_loop_catches : list string := %s.' % coq_strings(_names(h.type)))


def item_jwt(repo, out):
    tree = _parse(repo, REL)
    fn = _func(tree, 'decode_jwt', REL)
    found = None
    for n in ast.walk(fn):
        if isinstance(n, ast.If) and ast.unparse(n.test).startswith("header.get('alg') =="):
            alg = _const_eval(n.test.comparators[0], {}, 'decode_jwt')
            inner = [s for s in n.body if isinstance(s, ast.If)]
            if len(inner) != 1 or not ast.unparse(inner[0].test).startswith('len_sig != '):
                raise TranslateError('decode_jwt: expected `if len_sig != N` inside the alg test')
            if ast.unparse(n.body[0]) != 'len_sig = len(encoded_signature)':
                raise TranslateError('decode_jwt: len_sig is not len(encoded_signature)')
            if not isinstance(inner[0].body[-1], ast.Raise):
                raise TranslateError('decode_jwt: signature length check does not raise')
            found = (alg, _const_eval(inner[0].test.comparators[0], {}, 'decode_jwt'))
    if found is None or not isinstance(found[0], str) or not isinstance(found[1], int):
        raise TranslateError('decode_jwt: signature length check not found')
    out.append('Definition jwt_sig_alg : string := %s.' % coq_string(found[0]))
    out.append('Definition jwt_sig_len : Z := %s.' % coq_Z(found[1]))
    af = _func(tree, '_auth_factory', REL)
    tests = [n for n in ast.walk(af) if isinstance(n, ast.If) and 'parsed.scheme' in ast.unparse(n.test)]
    if len(tests) != 1:
        raise TranslateError('_auth_factory: scheme test not found')
    t = tests[0].test
    ok = (isinstance(t, ast.BoolOp) and isinstance(t.op, ast.And) and len(t.values) == 2
          and all(isinstance(v, ast.Compare) and len(v.ops) == 1 and isinstance(v.ops[0], ast.NotEq) for v in t.values)
          and ast.unparse(t.values[0].left) == 'parsed.scheme' and ast.unparse(t.values[1].left) == 'parsed.hostname'
          and isinstance(tests[0].body[0], ast.Raise))
    if not ok:
        raise TranslateError("_auth_factory: expected `parsed.scheme != S and parsed.hostname != H` -> raise")
    out.append('Definition jwt_scheme : string := %s.' % coq_string(_const_eval(t.values[0].comparators[0], {}, 'af')))
    out.append('Definition jwt_host_exception : string := %s.'
               % coq_string(_const_eval(t.values[1].comparators[0], {}, 'af')))


def _request_call(fn, receiver, what):
    """The single `<receiver>.request(...)` call inside fn: (positional sources, keyword dict)."""
    calls = [n for n in ast.walk(fn) if isinstance(n, ast.Call) and isinstance(n.func, ast.Attribute)
             and n.func.attr == 'request' and ast.unparse(n.func.value) == receiver]
    if len(calls) != 1:
        raise TranslateError('%s: expected exactly one %s.request(...) call, found %d' % (what, receiver, len(calls)))
    return [ast.unparse(a) for a in calls[0].args], {k.arg: ast.unparse(k.value) for k in calls[0].keywords
                                                     if k.arg != 'retries'}


def _without_retries(node):
    """Source of a statement / expression with the `retries=` keyword of every <x>.request(...) call in it taken out
    (that keyword is translated by item_retry_budget; the other items judge the rest of the call)."""
    import copy
    node = copy.deepcopy(node)
    for n in ast.walk(node):
        if isinstance(n, ast.Call) and isinstance(n.func, ast.Attribute) and n.func.attr == 'request':
            n.keywords = [k for k in n.keywords if k.arg != 'retries']
    return ast.unparse(node)


def item_streaming(repo, out):
    """Which requests are streamed (body read by `process` inside the retry loop) and with which `process`."""
    tree = _parse(repo, REL)
    cls = _class(tree, 'S3ChunkStore', REL)
    args, kw = _request_call(_func(cls, 'get_chunk', REL), 'self', 'get_chunk')
    if args[:3] != ["'GET'", 'url', '_read_chunk']:
        raise TranslateError('get_chunk: request is not GET url _read_chunk')
    out.append('Definition s3_chunk_streamed : bool := %s.' % ('true' if kw.get('stream') == 'True' else 'false'))
    args, kw = _request_call(_func(cls, '_verify_bucket', REL), 'self', '_verify_bucket')
    if args != ["'GET'", 'bucket'] or 'process' in kw:
        raise TranslateError('_verify_bucket: request is not GET bucket with the default process')
    out.append('Definition s3_listing_streamed : bool := %s.' % ('true' if kw.get('stream') == 'True' else 'false'))
    rel = 'katdal/datasources.py'
    dtree = _parse(repo, rel)
    fn = _func(_class(dtree, 'TelstateDataSource', rel), 'from_url', rel)
    args, kw = _request_call(fn, 'rdb_store', 'from_url')
    if args != ["'GET'", 'rdb_url'] or kw.get('process') != '_read_object':
        raise TranslateError('from_url: RDB request is not GET rdb_url with process=_read_object')
    out.append('Definition s3_rdb_streamed : bool := %s.' % ('true' if kw.get('stream') == 'True' else 'false'))
    src = ast.unparse(fn)
    if 'except ChunkStoreError as e:\n' not in src or 'raise DataSourceNotFound(str(e)) from e' not in src:
        raise TranslateError('from_url: ChunkStoreError is not turned into DataSourceNotFound')


def _attr_uses(node, attr):
    return [n for n in ast.walk(node) if isinstance(n, ast.Attribute) and n.attr == attr
            and isinstance(n.value, ast.Name) and n.value.id == 'self']


def item_store_state(repo, out):
    """State an S3ChunkStore object carries from one request to the next: the verified-bucket cache (who reads it, who
    adds to it, and WHEN relative to the checks), the per-store Retry template, the session pool."""
    tree = _parse(repo, REL)
    cls = _class(tree, 'S3ChunkStore', REL)
    what = '_verify_bucket'
    fn = _func(cls, '_verify_bucket', REL)
    if [a.arg for a in fn.args.args] != ['self', 'url', 'chunk_error']:
        raise TranslateError(what + ': unexpected signature')
    body = [s for s in fn.body if not (isinstance(s, ast.Expr) and isinstance(s.value, ast.Constant))]
    if not body or ast.unparse(body[0]) != 'bucket = _bucket_url(url)':
        raise TranslateError(what + ': must start with `bucket = _bucket_url(url)`')
    steps, missing, empty = [], None, None
    for s in body[1:]:
        src = ast.unparse(s)
        if src == 'if bucket in self._verified_buckets:\n    return':
            steps.append('return_if_cached')
        elif src == 'self._verified_buckets.add(bucket)':
            steps.append('add')
        elif isinstance(s, ast.Try):
            if not (len(s.body) == 1 and not s.orelse and not s.finalbody and len(s.handlers) == 1
                    and _without_retries(s.body[0]) == "response = self.request('GET', bucket, params={'max-keys': 1})"):
                raise TranslateError(what + ': try body is not the single bucket-listing request')
            h = s.handlers[0]
            if not (h.type is not None and _names(h.type) == ['S3ObjectNotFound'] and len(h.body) == 1
                    and isinstance(h.body[0], ast.Raise) and h.body[0].cause is not None
                    and ast.unparse(h.body[0].cause) == 'chunk_error'):
                raise TranslateError(what + ': listing handler is not `except S3ObjectNotFound: raise X(..) from chunk_error`')
            missing = _raised(h.body[0], what)
            steps.append('listing')
        elif isinstance(s, ast.Assert):
            if not (src == 'assert response.ok' or src.startswith('assert response.ok,')):    # message normalised away
                raise TranslateError(what + ': unexpected assert')
            if 'listing' not in steps:
                raise TranslateError(what + ': response used before the listing request')
        elif isinstance(s, ast.If):
            if not (ast.unparse(s.test) == "b'<Contents>' not in response.content" and not s.orelse and len(s.body) == 2
                    and isinstance(s.body[0], ast.Assign) and ast.unparse(s.body[0].targets[0]) == 'msg'
                    and isinstance(s.body[1], ast.Raise) and s.body[1].cause is not None):
                raise TranslateError(what + ': unrecognised if statement: ' + src[:60])
            empty = _raised(s.body[1], what)
            steps.append('raise_if_empty')
        else:
            raise TranslateError(what + ': unrecognised statement: ' + src[:60])
    for k in ('return_if_cached', 'listing', 'raise_if_empty', 'add'):
        if steps.count(k) > 1:
            raise TranslateError(what + ': statement %s occurs %d times' % (k, steps.count(k)))
    if missing is None or empty is None:
        raise TranslateError(what + ': the listing request or the empty-bucket test is gone')
    # nobody else reads or writes the cache; it starts empty
    init = _func(cls, '__init__', REL)
    uses = _attr_uses(cls, '_verified_buckets')
    inside = _attr_uses(fn, '_verified_buckets')
    in_init = _attr_uses(init, '_verified_buckets')
    # WHERE the cache lives is translated (the model of several store objects follows, Proofs/S3UnstreamedP.v breaks):
    # "object" = `self._verified_buckets = set()` in __init__; "class" = `_verified_buckets = set()` in the class body and
    # nothing in __init__; "process" = __init__ binds the attribute to (an entry of) a module-level container
    init_src = [ast.unparse(s) for s in init.body]
    class_level = [s for s in cls.body if isinstance(s, ast.Assign)
                   and [ast.unparse(t) for t in s.targets] == ['_verified_buckets']]
    module_sets = {t.id for n in tree.body if isinstance(n, ast.Assign) and ast.unparse(n.value) in ('set()', '{}', 'dict()')
                   for t in n.targets if isinstance(t, ast.Name)}
    bound = [s for s in init.body if isinstance(s, ast.Assign)
             and [ast.unparse(t) for t in s.targets] == ['self._verified_buckets']]
    if 'self._verified_buckets = set()' in init_src and len(in_init) == 1 and not class_level:
        scope = 'object'
    elif not in_init and len(class_level) == 1 and ast.unparse(class_level[0].value) == 'set()':
        scope = 'class'
    elif (len(bound) == 1 and len(in_init) == 1 and not class_level
          and {n.id for n in ast.walk(bound[0].value) if isinstance(n, ast.Name)} & module_sets):
        scope = 'process'
    else:
        raise TranslateError('__init__: the verified-bucket cache does not start as an empty set')
    if len(uses) != len(inside) + len(in_init) or len(inside) != steps.count('return_if_cached') + steps.count('add'):
        raise TranslateError('_verified_buckets is used outside __init__ / the recognised statements of _verify_bucket')
    if any('_verified_buckets' in ast.unparse(n) for n in tree.body if n is not cls):
        raise TranslateError('_verified_buckets is used outside S3ChunkStore')
    # the cache key: first path component of the (normalised) chunk URL
    bu = _func(tree, '_bucket_url', REL)
    bsrc = [ast.unparse(s) for s in bu.body if not (isinstance(s, ast.Expr) and isinstance(s.value, ast.Constant))]
    if bsrc != ['split_url = urllib.parse.urlsplit(url)', "bucket_name = split_url.path.lstrip('/').split('/')[0]",
                'return split_url._replace(path=bucket_name).geturl()']:
        raise TranslateError('_bucket_url: unexpected body')
    # get_chunk: the 404 handler verifies the bucket of THIS chunk URL and re-raises
    gc = _func(cls, 'get_chunk', REL)
    trs = [s for s in gc.body if isinstance(s, ast.Try)]
    if len(trs) != 1 or len(trs[0].handlers) != 1 or trs[0].orelse or trs[0].finalbody or len(trs[0].body) != 1:
        raise TranslateError('get_chunk: expected one try with one handler around the request')
    h = trs[0].handlers[0]
    if _names(h.type) != ['S3ObjectNotFound'] or [ast.unparse(s) for s in h.body] != ['self._verify_bucket(url, err)', 'raise']:
        raise TranslateError('get_chunk: 404 handler is not `self._verify_bucket(url, err); raise`')
    if not ast.unparse(trs[0].body[0]).startswith("chunk = self.request('GET', url, _read_chunk,"):
        raise TranslateError('get_chunk: try body is not the chunk request')
    if 'url = self.make_url(chunk_name + _CHUNK_EXTENSION)' not in [ast.unparse(s) for s in gc.body]:
        raise TranslateError('get_chunk: url is not make_url(chunk_name + _CHUNK_EXTENSION)')
    # per-store request parameters and the session pool are set once, in __init__
    for attr in ('retries', 'timeout', '_session_pool', '_url'):
        stores = [n for n in _attr_uses(cls, attr) if isinstance(n.ctx, (ast.Store, ast.Del))]
        if len(stores) != 1 or stores[0] not in list(ast.walk(init)):
            raise TranslateError('self.%s is assigned outside __init__ (or more than once)' % attr)
    req = _func(cls, 'request', REL)
    if len(_override_call(req).args) != 1:
        raise TranslateError('request: retries do not start from self.retries')
    out.append('Definition s3_verify_steps : list string := %s.' % coq_strings(steps))
    out.append('Definition s3_verify_missing : string := %s.' % coq_string(missing))
    out.append('Definition s3_verify_empty : string := %s.' % coq_string(empty))
    out.append('Definition s3_verified_scope : string := %s.' % coq_string(scope))


# ---------------------------------------------------------------------------------------------------
# Token validation as a function of (token, clock): decode_jwt / _BearerAuth / _auth_factory statement by statement

_CMP = {ast.Gt: 'Gt', ast.GtE: 'GtE', ast.Lt: 'Lt', ast.LtE: 'LtE', ast.Eq: 'Eq', ast.NotEq: 'NotEq'}
_DECODE_NAMES = {'token', 'encoded_header', 'encoded_payload', 'encoded_signature', 'ValueError', 'InvalidToken',
                 'token_without_sig', 'header', 'jwt', 'err', 'len_sig', 'len', 'msg', 'claims', 'expiration_time', 'int',
                 'exp_string', 'time', 'KeyError', 'np', 'OverflowError', 'str'}


def _body(fn):
    """Statements of a function without its docstring."""
    b = list(fn.body)
    if b and isinstance(b[0], ast.Expr) and isinstance(b[0].value, ast.Constant) and isinstance(b[0].value.value, str):
        b = b[1:]
    return b


def _raises_invalid(stmts, what, exc='InvalidToken'):
    """The statement list ends in `raise <exc>(token, ...)` and contains nothing but local string assignments before it."""
    if not stmts or not isinstance(stmts[-1], ast.Raise) or not isinstance(stmts[-1].exc, ast.Call) \
            or _name(stmts[-1].exc.func) != exc:
        raise TranslateError('%s: expected `raise %s(...)`' % (what, exc))
    for s in stmts[:-1]:
        if not (isinstance(s, ast.Assign) and len(s.targets) == 1 and isinstance(s.targets[0], ast.Name)):
            raise TranslateError('%s: unexpected statement before the raise: %s' % (what, ast.unparse(s)[:80]))


def _handlers(tr, what, expected):
    """try statement with exactly the handlers `expected` = [(exception names, 'raise' | 'assign')]; no else / finally."""
    if tr.orelse or tr.finalbody or len(tr.handlers) != len(expected):
        raise TranslateError('%s: unexpected try/except structure' % what)
    for h, (names, kind) in zip(tr.handlers, expected):
        if h.type is None or _names(h.type) != names:
            raise TranslateError('%s: expected `except %s`' % (what, names))
        if kind == 'raise':
            _raises_invalid(h.body, what)
        elif not all(isinstance(s, ast.Assign) for s in h.body):
            raise TranslateError('%s: `except %s` does more than assign' % (what, names))


def _memo_policy(fn, what):
    """None (no decorator) or the size of a functools memo cache (-1 = unbounded); any other decorator is refused."""
    if not fn.decorator_list:
        return None
    if len(fn.decorator_list) != 1:
        raise TranslateError('%s: unexpected decorators' % what)
    d = fn.decorator_list[0]
    call = d if isinstance(d, ast.Call) else None
    name = _name(call.func if call else d)
    if name in ('functools.cache', 'cache') and (call is None or (not call.args and not call.keywords)):
        return -1
    if name in ('functools.lru_cache', 'lru_cache'):
        if call is None or (not call.args and not call.keywords):
            return 128
        kw = {k.arg: k.value for k in call.keywords}
        arg = call.args[0] if len(call.args) == 1 and not kw else (kw.get('maxsize') if set(kw) <= {'maxsize', 'typed'}
                                                                     and not call.args else None)
        if arg is None:
            raise TranslateError('%s: unrecognised lru_cache arguments' % what)
        if isinstance(arg, ast.Constant) and arg.value is None:
            return -1
        v = _const_eval(arg, {}, what)
        if isinstance(v, int):
            return max(v, 0)
    raise TranslateError('%s: unrecognised decorator %s' % (what, ast.unparse(d)))


def _no_hidden_state(fn, what, allowed_names):
    # the decorators are judged separately (_memo_policy / `decorator_list` tests)
    for n in [x for part in [fn.args] + fn.body for x in ast.walk(part)]:
        if isinstance(n, (ast.Global, ast.Nonlocal, ast.Lambda, ast.FunctionDef, ast.ClassDef, ast.Yield, ast.Await)) \
                and n is not fn:
            raise TranslateError('%s: unexpected %s' % (what, type(n).__name__))
        if isinstance(n, ast.Name) and n.id not in allowed_names:
            raise TranslateError('%s: unexpected name %r (hidden state?)' % (what, n.id))
        if isinstance(n, ast.arg) and n.arg not in allowed_names:
            raise TranslateError('%s: unexpected argument %r' % (what, n.arg))


def item_jwt_flow(repo, out):
    """The statements of decode_jwt, _BearerAuth.__init__, _BearerAuth.__call__ in source order, how the clock is read and
    compared with the expiry time, and whether anything is remembered from one validation to the next."""
    tree = _parse(repo, REL)
    fn = _func(tree, 'decode_jwt', REL)
    what = 'decode_jwt'
    if len([n for n in ast.walk(tree) if isinstance(n, ast.FunctionDef) and n.name == 'decode_jwt']) != 1:
        raise TranslateError('decode_jwt defined more than once')
    if any(isinstance(t, ast.Name) and t.id in ('decode_jwt', '_BearerAuth', '_auth_factory', 'time')
           for n in ast.walk(tree) if isinstance(n, (ast.Assign, ast.AugAssign, ast.AnnAssign))
           for t in (n.targets if isinstance(n, ast.Assign) else [n.target])):
        raise TranslateError('decode_jwt / _BearerAuth / _auth_factory / time are rebound by an assignment')
    a = fn.args
    if [x.arg for x in a.args] != ['token'] or a.defaults or a.vararg or a.kwarg or a.kwonlyargs or a.posonlyargs:
        raise TranslateError('decode_jwt: signature is not (token)')
    _no_hidden_state(fn, what, _DECODE_NAMES)
    memo = _memo_policy(fn, what)
    steps = []
    cmp_name = nseg = sep = None
    for s in _body(fn):
        src = ast.unparse(s)
        if isinstance(s, ast.Try) and len(s.body) == 1 and isinstance(s.body[0], ast.Assign) \
                and isinstance(s.body[0].value, ast.Call) and ast.unparse(s.body[0].value.func) == 'token.split':
            tg = s.body[0].targets
            if len(tg) != 1 or not isinstance(tg[0], ast.Tuple) or \
                    [ast.unparse(e) for e in tg[0].elts] != ['encoded_header', 'encoded_payload', 'encoded_signature']:
                raise TranslateError('decode_jwt: split targets are not header, payload, signature')
            sp = s.body[0].value
            if len(sp.args) != 1 or sp.keywords or not isinstance(sp.args[0], ast.Constant) or \
                    not isinstance(sp.args[0].value, str) or len(sp.args[0].value) != 1:
                raise TranslateError('decode_jwt: token.split has unexpected arguments')
            _handlers(s, 'decode_jwt split', [(['ValueError'], 'raise')])
            nseg, sep = len(tg[0].elts), ord(sp.args[0].value)
            steps.append('split')
        elif src == "token_without_sig = f'{encoded_header}.{encoded_payload}.'":
            steps.append('strip_sig')
        elif isinstance(s, ast.Try) and [ast.unparse(x) for x in s.body] == \
                ['header = jwt.get_unverified_header(token_without_sig)']:
            _handlers(s, 'decode_jwt header', [(['jwt.exceptions.DecodeError'], 'raise')])
            steps.append('header')
        elif isinstance(s, ast.If) and ast.unparse(s.test).startswith("header.get('alg') =="):
            # constants come from item_jwt; here: the shape `== alg` / `len_sig != N` and nothing else in the branch
            if s.orelse or not isinstance(s.test.ops[0], ast.Eq) or len(s.body) != 2 or \
                    ast.unparse(s.body[0]) != 'len_sig = len(encoded_signature)' or not isinstance(s.body[1], ast.If) or \
                    s.body[1].orelse or not isinstance(s.body[1].test, ast.Compare) or \
                    not isinstance(s.body[1].test.ops[0], ast.NotEq) or ast.unparse(s.body[1].test.left) != 'len_sig':
                raise TranslateError('decode_jwt: unexpected signature-length check')
            _raises_invalid(s.body[1].body, 'decode_jwt siglen')
            steps.append('siglen')
        elif isinstance(s, ast.Try) and [ast.unparse(x) for x in s.body] == \
                ["claims = jwt.decode(token, options={'verify_signature': False})"]:
            _handlers(s, 'decode_jwt claims', [(['jwt.exceptions.DecodeError'], 'raise'),
                                                (['jwt.exceptions.InvalidTokenError'], 'raise')])
            steps.append('claims')
        elif isinstance(s, ast.Try) and s.body and ast.unparse(s.body[0]) == "expiration_time = int(claims['exp'])":
            if len(s.body) != 2 or not ast.unparse(s.body[1]).startswith('exp_string = time.strftime('):
                raise TranslateError('decode_jwt: unexpected statements next to the exp claim')
            _handlers(s, 'decode_jwt exp', [(['KeyError'], 'assign'), (['ValueError', 'OverflowError'], 'raise')])
            if ast.unparse(s.handlers[0].body[0]) != 'expiration_time = np.inf':
                raise TranslateError('decode_jwt: a token without exp claim does not get expiry time np.inf')
            steps.append('exp')
        elif isinstance(s, ast.If) and 'expiration_time' in src.split('\n')[0]:
            t = s.test
            if s.orelse or not isinstance(t, ast.Compare) or len(t.ops) != 1 or type(t.ops[0]) not in _CMP or \
                    ast.unparse(t.left) != 'time.time()' or ast.unparse(t.comparators[0]) != 'expiration_time':
                raise TranslateError('decode_jwt: expected `if time.time() <op> expiration_time:`')
            _raises_invalid(s.body, 'decode_jwt expired')
            cmp_name = _CMP[type(t.ops[0])]
            steps.append('expired')
        elif src == 'return claims':
            steps.append('return')
        else:
            raise TranslateError('decode_jwt: unrecognised statement: %s' % src[:100])
    if len(set(steps)) != len(steps):
        raise TranslateError('decode_jwt: a check occurs twice: %s' % steps)
    if cmp_name is None or nseg is None:
        raise TranslateError('decode_jwt: segment check or expiry check missing')
    out.append('Definition jwt_decode_steps : list string := %s.' % coq_strings(steps))
    out.append('Definition jwt_nseg : Z := %s.' % coq_Z(nseg))
    out.append('Definition jwt_sep : Z := %s.' % coq_Z(sep))
    out.append('Definition jwt_exp_cmp : string := %s.' % coq_string(cmp_name))
    out.append('Definition jwt_decode_memo : option Z := %s.' % ('None' if memo is None else 'Some %s' % coq_Z(memo)))
    # _BearerAuth
    cls = _class(tree, '_BearerAuth', REL)
    if cls.decorator_list or cls.keywords or [ast.unparse(b) for b in cls.bases] != ['requests.auth.AuthBase']:
        raise TranslateError('_BearerAuth: unexpected bases / decorators')
    members = _body(cls)
    if [type(m).__name__ + ':' + getattr(m, 'name', '?') for m in members] != ['FunctionDef:__init__', 'FunctionDef:__call__']:
        raise TranslateError('_BearerAuth: expected exactly __init__ and __call__ (no class-level state)')
    init, call = members
    for f, argnames in ((init, ['self', 'token']), (call, ['self', 'r'])):
        a = f.args
        if f.decorator_list or [x.arg for x in a.args] != argnames or a.defaults or a.vararg or a.kwarg or a.kwonlyargs:
            raise TranslateError('_BearerAuth.%s: unexpected signature / decorator' % f.name)
    _no_hidden_state(init, '_BearerAuth.__init__', {'self', 'token', 'decode_jwt', 'InvalidToken'})
    _no_hidden_state(call, '_BearerAuth.__call__', {'self', 'r', 'decode_jwt', 'InvalidToken', 'urllib', 'path',
                                                     'valid_prefixes', 'prefix', 'any', 'allowed'})
    isteps = []
    for s in _body(init):
        src = ast.unparse(s)
        if src == 'self._claims = decode_jwt(token)':
            isteps.append('decode')
        elif isinstance(s, ast.If) and ast.unparse(s.test) == "'prefix' not in self._claims" and not s.orelse:
            _raises_invalid(s.body, '_BearerAuth.__init__')
            isteps.append('need_prefix')
        elif src == 'self._token = token':
            isteps.append('keep_token')
        else:
            raise TranslateError('_BearerAuth.__init__: unrecognised statement: %s' % src[:100])
    csteps = []
    for s in _body(call):
        src = ast.unparse(s)
        if src == 'decode_jwt(self._token)':
            csteps.append('decode')
        elif src == "path = urllib.parse.urlparse(r.url).path.lstrip('/')":
            csteps.append('path')
        elif src == "valid_prefixes = self._claims['prefix']":
            csteps.append('prefixes')
        elif isinstance(s, ast.If) and not s.orelse and \
                ast.unparse(s.test) == 'not any((path.startswith(prefix) for prefix in valid_prefixes))':
            _raises_invalid(s.body, '_BearerAuth.__call__')
            csteps.append('scope')
        elif src == "r.headers['Authorization'] = f'Bearer {self._token}'":
            csteps.append('set_header')
        elif src == 'return r':
            csteps.append('return')
        else:
            raise TranslateError('_BearerAuth.__call__: unrecognised statement: %s' % src[:100])
    for st, nm in ((isteps, '__init__'), (csteps, '__call__')):
        if len(set(st)) != len(st):
            raise TranslateError('_BearerAuth.%s: a statement occurs twice' % nm)
    out.append('Definition jwt_init_steps : list string := %s.' % coq_strings(isteps))
    out.append('Definition jwt_call_steps : list string := %s.' % coq_strings(csteps))
    # who keeps / constructs what: self._claims and self._token are written in __init__ only, a fresh _BearerAuth per
    # _auth_factory call, a fresh _auth_factory call per store, a fresh store per from_url
    for attr in ('_claims', '_token'):
        stores = [n for n in ast.walk(tree) if isinstance(n, ast.Attribute) and n.attr == attr
                  and isinstance(n.ctx, (ast.Store, ast.Del))]
        if len(stores) != 1:
            raise TranslateError('%s is assigned outside _BearerAuth.__init__' % attr)
    af = _func(tree, '_auth_factory', REL)
    want = ['if token is not None and credentials is not None:', 'if token is not None:']
    got = [ast.unparse(s).split('\n')[0] for s in _body(af)]
    if af.decorator_list:
        raise TranslateError('_auth_factory: unexpected decorator %s' % ast.unparse(af.decorator_list[0]))
    if got != want:
        raise TranslateError('_auth_factory: unexpected statements %s' % got)
    _no_hidden_state(af, '_auth_factory', {'url', 'token', 'credentials', 'AuthorisationFailed', 'parsed', 'urllib',
                                           '_BearerAuth', '_AWSAuth'})
    tb = _body(af)[1]
    tsrc = [ast.unparse(s).split('\n')[0] for s in tb.body]
    if len(tb.body) != 3 or tsrc[0] != 'parsed = urllib.parse.urlparse(url)' or not tsrc[1].startswith('if parsed.scheme') \
            or tsrc[2] != 'return _BearerAuth(token)' or tb.body[1].orelse:
        raise TranslateError('_auth_factory: token branch is not parse / https test / return _BearerAuth(token)')
    uses = [n for n in ast.walk(tree) if isinstance(n, ast.Name) and n.id == '_BearerAuth']
    if len(uses) != 1:
        raise TranslateError('_BearerAuth is used outside _auth_factory')
    store = _class(tree, 'S3ChunkStore', REL)
    sinit = _func(store, '__init__', REL)
    if [ast.unparse(s) for s in sinit.body].count('auth = _auth_factory(url, token, credentials)') != 1:
        raise TranslateError('S3ChunkStore.__init__: expected `auth = _auth_factory(url, token, credentials)` at top level')
    if len([n for n in ast.walk(tree) if isinstance(n, ast.Name) and n.id == '_auth_factory']) != 1:
        raise TranslateError('_auth_factory is used outside S3ChunkStore.__init__')
    sf = [n for n in sinit.body if isinstance(n, ast.FunctionDef) and n.name == 'session_factory']
    if len(sf) != 1 or 'session.auth = auth' not in [ast.unparse(s) for s in sf[0].body]:
        raise TranslateError('S3ChunkStore.__init__: session_factory does not install the auth handler')
    if len([n for n in ast.walk(sinit) if isinstance(n, ast.Name) and n.id == 'auth']) != 2:
        raise TranslateError('S3ChunkStore.__init__: auth handler used in unexpected places')
    rel = 'katdal/datasources.py'
    fu = _func(_class(_parse(repo, rel), 'TelstateDataSource', rel), 'from_url', rel)
    mk = [n for n in ast.walk(fu) if isinstance(n, ast.Assign) and ast.unparse(n.targets[0]) == 'rdb_store']
    if len(mk) != 1 or ast.unparse(mk[0].value) != 'S3ChunkStore(store_url, **kwargs)':
        raise TranslateError('from_url: expected one `rdb_store = S3ChunkStore(store_url, **kwargs)`')
    if 'url_kwargs = dict(urllib.parse.parse_qsl(url_parts.query))' not in ast.unparse(fu):
        raise TranslateError('from_url: the URL query is not merged into the keyword arguments')


def item_other_sites(repo, out):
    """The request sites of the public API besides get_chunk: put_chunk, is_complete, mark_complete / create_array."""
    tree = _parse(repo, REL)
    cls = _class(tree, 'S3ChunkStore', REL)
    derived = [n.name for n in tree.body if isinstance(n, ast.ClassDef)
               and 'ChunkNotFound' in [ast.unparse(b) for b in n.bases]]
    # request(): defaults of process / ignored_errors / retries
    req = _func(cls, 'request', REL)
    a = req.args
    names = [x.arg for x in a.args] + [x.arg for x in a.kwonlyargs]
    dflt = dict(zip([x.arg for x in a.args][len(a.args) - len(a.defaults):], a.defaults))
    dflt.update({k.arg: v for k, v in zip(a.kwonlyargs, a.kw_defaults) if v is not None})
    if names[:3] != ['self', 'method', 'url'] or ast.unparse(dflt.get('ignored_errors', ast.Constant(1))) != '()' \
            or ast.unparse(dflt.get('process', ast.Constant(1))) != 'lambda response: response' \
            or ast.unparse(dflt.get('retries', ast.Constant(1))) != 'None':
        raise TranslateError('request: unexpected defaults of process / ignored_errors / retries')
    # is_complete
    ic = _func(cls, 'is_complete', REL)
    args, kw = _request_call(ic, 'self', 'is_complete')
    body = _body(ic)
    if args != ["'GET'", 'url'] or set(kw) != {'chunk_name'} or len(body) != 4 or not isinstance(body[2], ast.Try) \
            or ast.unparse(body[0]) != "obj_name = self.join(array_name, 'complete')" \
            or ast.unparse(body[1]) != 'url = self.make_url(obj_name)' or ast.unparse(body[3]) != 'return True':
        raise TranslateError('is_complete: unexpected statements')
    tr = body[2]
    if tr.orelse or tr.finalbody or len(tr.handlers) != 1 or len(tr.body) != 1 or \
            [ast.unparse(x) for x in tr.handlers[0].body] != ['return False'] or tr.handlers[0].type is None:
        raise TranslateError('is_complete: expected try: request / except X: return False')
    out.append('Definition s3_is_complete_catches : string := %s.' % coq_string(_name(tr.handlers[0].type)))
    out.append('Definition s3_chunk_not_found : list string := %s.' % coq_strings(derived))
    # put_chunk
    pc = _func(cls, 'put_chunk', REL)
    args, kw = _request_call(pc, 'self', 'put_chunk')
    if args != ["'PUT'", 'url'] or set(kw) != {'chunk_name', 'headers', 'data'}:
        raise TranslateError('put_chunk: request is not PUT url with chunk_name / headers / data')
    if not isinstance(_body(pc)[-1], ast.Expr) or 'self.request(' not in ast.unparse(_body(pc)[-1]):
        raise TranslateError('put_chunk: the request is not the last statement')
    # mark_complete -> create_array -> _create_bucket
    mc = _func(cls, 'mark_complete', REL)
    src = [_without_retries(x) for x in _body(mc)]
    if src != ['self.create_array(array_name)', "obj_name = self.join(array_name, 'complete')",
               'url = self.make_url(obj_name)', "self.request('PUT', url, chunk_name=obj_name, data=b'')"]:
        raise TranslateError('mark_complete: unexpected statements %s' % src)
    ca = [ast.unparse(x) for x in _body(_func(cls, 'create_array', REL))]
    if ca != ['array_url = self.make_url(array_name)', 'bucket_url = _bucket_url(array_url)',
              'self._create_bucket(bucket_url)']:
        raise TranslateError('create_array: unexpected statements %s' % ca)
    cb = _body(_func(cls, '_create_bucket', REL))
    first = cb[0]
    if not (isinstance(first, ast.Expr) and isinstance(first.value, ast.Call)
            and ast.unparse(first.value.func) == 'self.request'
            and [ast.unparse(x) for x in first.value.args] == ["'PUT'", 'url']
            and [k.arg for k in first.value.keywords if k.arg != 'retries'] == ['ignored_errors']):
        raise TranslateError('_create_bucket: first statement is not self.request(PUT, url, ignored_errors=...)')
    ign = _const_eval([k.value for k in first.value.keywords if k.arg == 'ignored_errors'][0], {}, '_create_bucket')
    rest = [ast.unparse(x).split('\n')[0] for x in cb[1:]]
    if rest != ['if self.public_read:', 'if self.expiry_days > 0:']:
        raise TranslateError('_create_bucket: unexpected statements after the bucket request: %s' % rest)
    out.append('Definition s3_create_bucket_ignored : list Z := %s.' % _zlist(ign))
    # _connect_read_tuple: one value stands for both
    crt = [ast.unparse(x) for x in _body(_func(tree, '_connect_read_tuple', REL))]
    if crt != ['try:\n    connect, read = connect_and_or_read\nexcept TypeError:\n    connect = read = connect_and_or_read',
               'return (connect, read)']:
        raise TranslateError('_connect_read_tuple: unexpected body')


def item_urls(repo, out):
    """Which object a request asks for: make_url, _normalise_bucket_name, _CHUNK_EXTENSION."""
    tree = _parse(repo, REL)
    nb = _body(_func(tree, '_normalise_bucket_name', REL))
    src = [ast.unparse(x) for x in nb]
    if len(nb) != 5 or src[0] != 'split_url = urllib.parse.urlsplit(url)' or \
            src[4] != 'return split_url._replace(path=path).geturl()':
        raise TranslateError('_normalise_bucket_name: unexpected statements %s' % src)
    # path_components = split_url.path.lstrip(SEP).split(SEP, 1)
    v = nb[1].value if isinstance(nb[1], ast.Assign) else None
    ok = (v is not None and ast.unparse(nb[1].targets[0]) == 'path_components' and isinstance(v, ast.Call)
          and isinstance(v.func, ast.Attribute) and v.func.attr == 'split' and len(v.args) == 2 and not v.keywords
          and isinstance(v.func.value, ast.Call) and isinstance(v.func.value.func, ast.Attribute)
          and v.func.value.func.attr == 'lstrip' and ast.unparse(v.func.value.func.value) == 'split_url.path'
          and len(v.func.value.args) == 1)
    if not ok:
        raise TranslateError('_normalise_bucket_name: path is not split as path.lstrip(sep).split(sep, 1)')
    sep, maxsplit, strip = (_const_eval(v.args[0], {}, 'nb'), _const_eval(v.args[1], {}, 'nb'),
                            _const_eval(v.func.value.args[0], {}, 'nb'))
    if maxsplit != 1 or strip != sep or not isinstance(sep, str) or len(sep) != 1:
        raise TranslateError('_normalise_bucket_name: unexpected separator / maxsplit')
    # path_components[0] = path_components[0].replace(FROM, TO)
    r = nb[2]
    ok = (isinstance(r, ast.Assign) and ast.unparse(r.targets[0]) == 'path_components[0]' and isinstance(r.value, ast.Call)
          and ast.unparse(r.value.func) == 'path_components[0].replace' and len(r.value.args) == 2 and not r.value.keywords)
    if not ok:
        raise TranslateError('_normalise_bucket_name: only the first path component may be rewritten, by one replace')
    frm, to = _const_eval(r.value.args[0], {}, 'nb'), _const_eval(r.value.args[1], {}, 'nb')
    if not (isinstance(frm, str) and isinstance(to, str) and len(frm) == 1 and len(to) == 1):
        raise TranslateError('_normalise_bucket_name: replace arguments are not single characters')
    if src[3] != "path = %r + %r.join(path_components)" % (sep, sep):
        raise TranslateError('_normalise_bucket_name: path is not put together again with the separator: %s' % src[3])
    out.append('Definition s3_bucket_from : Z := %s.' % coq_Z(ord(frm)))
    out.append('Definition s3_bucket_to : Z := %s.' % coq_Z(ord(to)))
    out.append('Definition s3_path_sep : Z := %s.' % coq_Z(ord(sep)))
    ext = _const_eval(_module_assign(tree, '_CHUNK_EXTENSION', REL), {}, '_CHUNK_EXTENSION')
    if not isinstance(ext, str):
        raise TranslateError('_CHUNK_EXTENSION is not a string')
    out.append('Definition s3_chunk_extension : string := %s.' % coq_string(ext))
    cls = _class(tree, 'S3ChunkStore', REL)
    mu = [ast.unparse(x) for x in _body(_func(cls, 'make_url', REL))]
    if mu != ['relative_path = to_str(urllib.parse.quote(relative_path))',
              'url = urllib.parse.urljoin(self._url, relative_path)', 'return _normalise_bucket_name(url)']:
        raise TranslateError('make_url: unexpected statements %s' % mu)
    for fn in ('get_chunk', 'put_chunk'):
        if 'url = self.make_url(chunk_name + _CHUNK_EXTENSION)' not in [ast.unparse(x) for x in _func(cls, fn, REL).body]:
            raise TranslateError('%s: url is not make_url(chunk_name + _CHUNK_EXTENSION)' % fn)


# ---------------------------------------------------------------------------------------------------
# The retry budget in force at every request site = f(store-level `retries` argument, per-call `retries=` override)

_LOG_ROOTS = ('logger', 'logging', 'log', '_logger', 'warnings')


def _is_logging(stmt):
    """`logger.debug(...)`, `logging.info(...)`, `warnings.warn(...)`, `print(...)` as a statement of its own."""
    if not (isinstance(stmt, ast.Expr) and isinstance(stmt.value, ast.Call)):
        return False
    f = stmt.value.func
    while isinstance(f, ast.Attribute):
        f = f.value
    return isinstance(f, ast.Name) and (f.id in _LOG_ROOTS or f.id == 'print')


def _clean(fn):
    """Copy of a function without docstring and logging statements (anywhere in its body): what the templates of
    item_retry_budget are matched against.  A block emptied that way keeps a `pass`."""
    import copy
    fn = copy.deepcopy(fn)

    class Strip(ast.NodeTransformer):
        def generic_visit(self, node):
            super().generic_visit(node)
            for field in ('body', 'orelse', 'finalbody'):
                block = getattr(node, field, None)
                if isinstance(block, list) and block and all(isinstance(x, ast.stmt) for x in block):
                    kept = [x for x in block if not _is_logging(x)]
                    if field == 'body' and not kept:
                        kept = [ast.Pass()]
                    setattr(node, field, kept)
            return node
    fn = Strip().visit(fn)
    fn.body = _body(fn) or [ast.Pass()]
    return ast.fix_missing_locations(fn)


def _override_call(req):
    """The `_retry_object(retries, ...)` call of `retries = self.retries if retries is None else _retry_object(...)`."""
    hits = [s for s in _body(req) if isinstance(s, ast.Assign) and ast.unparse(s.targets[0]) == 'retries'
            and isinstance(s.value, ast.IfExp)]
    if len(hits) != 1:
        raise TranslateError('request: expected one `retries = self.retries if retries is None else ...`')
    e = hits[0].value
    if ast.unparse(e.test) != 'retries is None' or ast.unparse(e.body) != 'self.retries' or not (
            isinstance(e.orelse, ast.Call) and _name(e.orelse.func) == '_retry_object'
            and [ast.unparse(a) for a in e.orelse.args] == ['retries']):
        raise TranslateError('request: retries are not `self.retries if retries is None else _retry_object(retries, ..)`')
    return e.orelse


def _retries_literal(node, what):
    v = _const_eval(node, {}, what)
    if isinstance(v, int) and not isinstance(v, bool):
        return [v]
    if isinstance(v, tuple) and len(v) == 2 and all(isinstance(x, int) and not isinstance(x, bool) for x in v):
        return list(v)
    raise TranslateError('%s: `retries` literal is neither an int nor a pair of ints' % what)


def _site_override(call, fn, what, store_names, allow_kwargs):
    """(tag, numbers) for the `retries=` keyword of one <x>.request(...) call inside function fn."""
    kws = [k for k in call.keywords if k.arg == 'retries']
    if any(k.arg is None for k in call.keywords):
        src = [ast.unparse(k.value) for k in call.keywords if k.arg is None]
        raise TranslateError('%s: request is given **%s (may carry a retries override)' % (what, src))
    if not kws:
        return (0, [])
    if len(kws) != 1:
        raise TranslateError(what + ': more than one retries keyword')
    v = kws[0].value
    # a local name bound exactly once in the function stands for its value
    if isinstance(v, ast.Name):
        stores = [n for n in ast.walk(fn) if isinstance(n, ast.Name) and n.id == v.id
                  and isinstance(n.ctx, (ast.Store, ast.Del))]
        binds = [n for n in ast.walk(fn) if isinstance(n, ast.Assign) and len(n.targets) == 1
                 and isinstance(n.targets[0], ast.Name) and n.targets[0].id == v.id]
        if any(isinstance(n, ast.arg) and n.arg == v.id for n in ast.walk(fn)) or len(stores) != 1 or len(binds) != 1:
            raise TranslateError('%s: retries=%s is not a local name bound exactly once by a plain assignment'
                                 % (what, v.id))
        v = binds[0].value
    if isinstance(v, ast.Constant) and v.value is None:
        return (0, [])
    if isinstance(v, ast.Attribute) and v.attr == 'retries' and ast.unparse(v.value) in store_names:
        return (0, [])          # the store's own Retry object: _retry_object keeps it as it is
    if allow_kwargs and isinstance(v, ast.Call) and ast.unparse(v.func) == 'kwargs.get' and not v.keywords \
            and len(v.args) == 2 and isinstance(v.args[0], ast.Constant) and v.args[0].value == 'retries':
        return (2, _retries_literal(v.args[1], what))
    try:
        return (1, _retries_literal(v, what))
    except TranslateError:
        raise TranslateError('%s: unrecognised per-call retries override `%s`' % (what, ast.unparse(v)[:60]))


def _request_calls(fn, receivers):
    return [n for n in ast.walk(fn) if isinstance(n, ast.Call) and isinstance(n.func, ast.Attribute)
            and n.func.attr == 'request' and ast.unparse(n.func.value) in receivers]


def item_retry_budget(repo, out):
    """How S3ChunkStore.request / _retry_object combine the store-level `retries` with a per-call override, and the
    `retries=` keyword of every request site."""
    tree = _parse(repo, REL)
    cls = _class(tree, 'S3ChunkStore', REL)
    # _retry_object(retries, **defaults): a Retry object is kept, anything else becomes Retry(connect, read, **defaults)
    ro = [ast.unparse(x) for x in _clean(_func(tree, '_retry_object', REL)).body]
    if [a.arg for a in _func(tree, '_retry_object', REL).args.args] != ['retries'] or \
            _func(tree, '_retry_object', REL).args.kwarg is None or \
            _func(tree, '_retry_object', REL).args.kwarg.arg != 'defaults' or ro != [
            'if not isinstance(retries, Retry):\n    connect_retries, read_retries = _connect_read_tuple(retries)\n'
            '    retries = Retry(connect=connect_retries, read=read_retries, **defaults)', 'return retries']:
        raise TranslateError('_retry_object: unexpected statements %s' % ro)
    # request(): keywords completing a per-call override
    req = _func(cls, 'request', REL)
    call = _override_call(req)
    kw = {k.arg: k.value for k in call.keywords}
    if None in kw or not set(kw) <= {'status', 'backoff_factor', 'status_forcelist'}:
        raise TranslateError('request: unexpected keywords for _retry_object: %s' % sorted(map(str, kw)))
    status = 'None' if 'status' not in kw else '(Some %s)' % coq_Z(_const_eval(kw['status'], {}, 'request'))
    if 'status_forcelist' in kw and ast.unparse(kw['status_forcelist']) != '_DEFAULT_SERVER_GLITCHES':
        raise TranslateError('request: status_forcelist of a per-call override is not _DEFAULT_SERVER_GLITCHES')
    out.append('Definition s3_request_override_status : option Z := %s.' % status)
    out.append('Definition s3_request_override_forcelist_is_glitches : bool := %s.'
               % ('true' if 'status_forcelist' in kw else 'false'))
    # `retries` is not touched between the signature and that statement, nor `self.retries` swapped
    names = [ast.unparse(s.targets[0]) for s in _body(req) if isinstance(s, ast.Assign)]
    if names.count('retries') != 2 or [ast.unparse(s) for s in _body(req) if isinstance(s, ast.Assign)
                                       and ast.unparse(s.targets[0]) == 'retries'][1] != 'retries = retries.new()':
        raise TranslateError('request: `retries` is assigned otherwise than override-or-store followed by .new()')
    # every request site of the class
    sites = {}
    expect = {'get_chunk': ['chunk'], '_verify_bucket': ['listing'], 'put_chunk': ['put'],
              '_create_bucket': ['bucket', 'policy', 'lifecycle'], 'mark_complete': ['marker'], 'is_complete': ['complete']}
    for fn in [n for n in cls.body if isinstance(n, (ast.FunctionDef, ast.AsyncFunctionDef))]:
        calls = _request_calls(fn, ('self',))
        calls.sort(key=lambda c: (c.lineno, c.col_offset))
        if fn.name == 'request' or not calls:
            if fn.name == 'request' and calls:
                raise TranslateError('request calls itself')
            continue
        if fn.name not in expect or len(calls) != len(expect[fn.name]):
            raise TranslateError('S3ChunkStore.%s: %d request call(s), expected %s'
                                 % (fn.name, len(calls), expect.get(fn.name, 'none')))
        for nm, c in zip(expect[fn.name], calls):
            sites[nm] = _site_override(c, fn, 'S3ChunkStore.%s' % fn.name, ('self',), False)
    other = [n for n in ast.walk(tree) if isinstance(n, ast.Call) and isinstance(n.func, ast.Attribute)
             and n.func.attr == 'request' and n not in [c for f in cls.body if isinstance(f, ast.FunctionDef)
                                                        for c in _request_calls(f, ('self',))]]
    if [ast.unparse(c.func) for c in other] != ['session.request']:
        raise TranslateError('chunkstore_s3: request calls outside the known sites: %s'
                             % [ast.unparse(c.func) for c in other])
    for nm in ('policy', 'lifecycle'):
        if sites.pop(nm, (0, [])) != (0, []):
            raise TranslateError('_create_bucket: policy / lifecycle request carries a retries override')
    if set(sites) != {'chunk', 'listing', 'put', 'bucket', 'marker', 'complete'}:
        raise TranslateError('chunkstore_s3: request sites found: %s' % sorted(sites))
    # the RDB download of TelstateDataSource.from_url, and no other request in datasources.py
    rel = 'katdal/datasources.py'
    dtree = _parse(repo, rel)
    fu = _func(_class(dtree, 'TelstateDataSource', rel), 'from_url', rel)
    calls = [n for n in ast.walk(dtree) if isinstance(n, ast.Call) and isinstance(n.func, ast.Attribute)
             and n.func.attr == 'request']
    mine = _request_calls(fu, ('rdb_store',))
    if len(calls) != 1 or calls != mine:
        raise TranslateError('datasources: expected the single rdb_store.request(...) call of from_url')
    sites['rdb'] = _site_override(mine[0], fu, 'from_url', ('rdb_store',), True)
    # the store the RDB request goes through is built from the user's keyword arguments as they are
    mk = [n for n in ast.walk(fu) if isinstance(n, ast.Assign) and ast.unparse(n.targets[0]) == 'rdb_store']
    if len(mk) != 1 or ast.unparse(mk[0].value) != 'S3ChunkStore(store_url, **kwargs)':
        raise TranslateError('from_url: rdb_store is not S3ChunkStore(store_url, **kwargs)')
    for n in ast.walk(fu):
        if isinstance(n, ast.Subscript) and ast.unparse(n.value) == 'kwargs' and isinstance(n.ctx, (ast.Store, ast.Del)) \
                and 'retries' in ast.unparse(n.slice):
            raise TranslateError('from_url: kwargs[retries] is rewritten')
        if isinstance(n, ast.Call) and ast.unparse(n.func) in ('kwargs.pop', 'kwargs.setdefault', 'url_kwargs.pop',
                                                                'url_kwargs.setdefault') \
                and n.args and isinstance(n.args[0], ast.Constant) and n.args[0].value == 'retries':
            raise TranslateError('from_url: the retries keyword is popped / defaulted before the store is built')
    order = ['chunk', 'rdb', 'listing', 'put', 'bucket', 'marker', 'complete']
    out.append('Definition s3_site_overrides : list (string * (Z * list Z)) := [%s].'
               % '; '.join('(%s, (%s, %s))' % (coq_string(k), coq_Z(sites[k][0]), _zlist(sites[k][1])) for k in order))


ITEMS = [item_glitches, item_raise_for_status, item_store_init, item_request, item_jwt, item_streaming, item_store_state, item_jwt_flow, item_other_sites, item_urls, item_retry_budget]
