"""C09 translator items: constants, tables and small decision chains of katdal/chunkstore_s3.py.

Everything is looked up syntactically (Python ast) and must have exactly the expected shape; anything else raises
TranslateError (broken tie).  Generated definitions (all prefixed s3_ / jwt_):

  s3_server_glitches : list Z                      _DEFAULT_SERVER_GLITCHES
  s3_status_lo, s3_status_hi : Z                   `lo <= status < hi` guard of _raise_for_status
  s3_status_chain : list (list Z * string)         if/elif tests of _raise_for_status -> exception raised
  s3_status_else : string                          exception of the final else
  s3_error_map : list (string * string)            error_map dict of S3ChunkStore.__init__ (in dict order)
  s3_default_retries, s3_default_status : Z        default `retries=` of __init__, `status=` given to _retry_object
  s3_default_forcelist_is_glitches : bool          status_forcelist=_DEFAULT_SERVER_GLITCHES in __init__
  s3_request_converts : list (list string * string)   `except A/B/C as error: raise X(...)` clauses of _request
  s3_request_unwraps : list (string * list string)    ConnectionError handler of _request: isinstance(cause, T) [and
                                                      isinstance(cause.reason, (R...))] -> raise cause
  s3_loop_catches : list string                    exception tuple caught by the retry loop of S3ChunkStore.request
  s3_verify_steps : list string                    the statements of S3ChunkStore._verify_bucket IN SOURCE ORDER, each one of
                                                   "return_if_cached" (`if bucket in self._verified_buckets: return`),
                                                   "listing" (try: response = self.request('GET', bucket, ...) except
                                                   S3ObjectNotFound: raise <s3_verify_missing>), "raise_if_empty"
                                                   (`if b'<Contents>' not in response.content: raise <s3_verify_empty>`),
                                                   "add" (`self._verified_buckets.add(bucket)`); the model interprets them
  s3_verify_missing, s3_verify_empty : string      exceptions raised for a missing / an empty bucket
  jwt_sig_alg : string, jwt_sig_len : Z            signature-length check of decode_jwt
  jwt_scheme, jwt_host_exception : string          _auth_factory https rule
"""
import ast

from vh.translate import (TranslateError, _class, _const_eval, _func, _module_assign, _parse, coq_string,
                          coq_strings, coq_Z)

REL = 'katdal/chunkstore_s3.py'


def _name(node):
    """Dotted name of a Name / Attribute chain."""
    if isinstance(node, ast.Name):
        return node.id
    if isinstance(node, ast.Attribute):
        return _name(node.value) + '.' + node.attr
    raise TranslateError('%s: expected a dotted name, got %s' % (REL, ast.dump(node)[:80]))


def _names(node):
    if isinstance(node, ast.Tuple):
        return [_name(e) for e in node.elts]
    return [_name(node)]


def _raised(stmt, what):
    """Name of the exception class in `raise X(...)`."""
    if not (isinstance(stmt, ast.Raise) and isinstance(stmt.exc, ast.Call)):
        raise TranslateError('%s: expected `raise X(...)`' % what)
    return _name(stmt.exc.func)


def _zlist(t):
    return '[' + '; '.join(coq_Z(v) for v in t) + ']'


def item_glitches(repo, out):
    tree = _parse(repo, REL)
    g = _const_eval(_module_assign(tree, '_DEFAULT_SERVER_GLITCHES', REL), {}, '_DEFAULT_SERVER_GLITCHES')
    if not (isinstance(g, tuple) and all(isinstance(v, int) for v in g)):
        raise TranslateError('_DEFAULT_SERVER_GLITCHES is not a tuple of ints')
    out.append('Definition s3_server_glitches : list Z := %s.' % _zlist(g))


def item_raise_for_status(repo, out):
    tree = _parse(repo, REL)
    fn = _func(tree, '_raise_for_status', REL)
    what = '_raise_for_status'
    body = [s for s in fn.body if not (isinstance(s, ast.Expr) and isinstance(s.value, ast.Constant))]
    if not (len(body) == 2 and isinstance(body[0], ast.Assign) and ast.unparse(body[0]) == 'status = response.status_code'
            and isinstance(body[1], ast.If) and not body[1].orelse):
        raise TranslateError(what + ': expected `status = response.status_code` followed by one `if`')
    test = body[1].test
    ok = (isinstance(test, ast.BoolOp) and isinstance(test.op, ast.And) and len(test.values) == 2
          and ast.unparse(test.values[1]) == 'status not in ignored_errors')
    cmp = test.values[0] if ok else None
    ok = ok and (isinstance(cmp, ast.Compare) and len(cmp.ops) == 2 and isinstance(cmp.ops[0], ast.LtE)
                 and isinstance(cmp.ops[1], ast.Lt) and ast.unparse(cmp.comparators[0]) == 'status')
    if not ok:
        raise TranslateError(what + ': guard is not `lo <= status < hi and status not in ignored_errors`')
    lo = _const_eval(cmp.left, {}, what)
    hi = _const_eval(cmp.comparators[1], {}, what)
    stmts = body[1].body
    if not stmts or not isinstance(stmts[-1], ast.If):
        raise TranslateError(what + ': expected an if/elif/else chain of raises at the end')
    inner = [stmts[-1]]
    for s in stmts[:-1]:   # only message building is allowed before the chain
        if isinstance(s, (ast.Assign, ast.AugAssign)):
            continue
        if not (isinstance(s, ast.If) and 'content_type' in ast.unparse(s.test)
                and all(isinstance(b, ast.AugAssign) for b in s.body) and not s.orelse):
            raise TranslateError(what + ': unexpected statement ' + ast.unparse(s)[:60])
    chain = []
    node = inner[0]
    while True:
        t = node.test
        if not (isinstance(t, ast.Compare) and len(t.ops) == 1 and ast.unparse(t.left) == 'status'):
            raise TranslateError(what + ': chain test is not on `status`')
        if isinstance(t.ops[0], ast.In):
            vals = _const_eval(t.comparators[0], {}, what)
        elif isinstance(t.ops[0], ast.Eq):
            vals = (_const_eval(t.comparators[0], {}, what),)
        else:
            raise TranslateError(what + ': chain test must be `in (..)` or `==`')
        if len(node.body) != 1:
            raise TranslateError(what + ': chain branch must be a single raise')
        chain.append((vals, _raised(node.body[0], what)))
        if len(node.orelse) == 1 and isinstance(node.orelse[0], ast.If):
            node = node.orelse[0]
            continue
        if len(node.orelse) != 1:
            raise TranslateError(what + ': final else must be a single raise')
        els = _raised(node.orelse[0], what)
        break
    out.append('Definition s3_status_lo : Z := %s.' % coq_Z(lo))
    out.append('Definition s3_status_hi : Z := %s.' % coq_Z(hi))
    out.append('Definition s3_status_chain : list (list Z * string) := [%s].'
               % '; '.join('(%s, %s)' % (_zlist(v), coq_string(n)) for v, n in chain))
    out.append('Definition s3_status_else : string := %s.' % coq_string(els))


def item_store_init(repo, out):
    tree = _parse(repo, REL)
    cls = _class(tree, 'S3ChunkStore', REL)
    init = _func(cls, '__init__', REL)
    what = 'S3ChunkStore.__init__'
    em = [s for s in init.body if isinstance(s, ast.Assign) and ast.unparse(s.targets[0]) == 'error_map']
    if len(em) != 1 or not isinstance(em[0].value, ast.Dict):
        raise TranslateError(what + ': expected one `error_map = {...}`')
    pairs = [(_name(k), _name(v)) for k, v in zip(em[0].value.keys, em[0].value.values)]
    if 'super().__init__(error_map)' not in [ast.unparse(s) for s in init.body]:
        raise TranslateError(what + ': error_map is not handed to ChunkStore.__init__')
    out.append('Definition s3_error_map : list (string * string) := [%s].'
               % '; '.join('(%s, %s)' % (coq_string(k), coq_string(v)) for k, v in pairs))
    # default of the `retries` argument
    args = init.args
    names = [a.arg for a in args.args]
    defaults = dict(zip(names[len(names) - len(args.defaults):], args.defaults))
    if 'retries' not in defaults:
        raise TranslateError(what + ': no default for retries')
    out.append('Definition s3_default_retries : Z := %s.' % coq_Z(_const_eval(defaults['retries'], {}, what)))
    ro = [s for s in init.body if isinstance(s, ast.Assign) and ast.unparse(s.targets[0]) == 'self.retries']
    if len(ro) != 1 or not (isinstance(ro[0].value, ast.Call) and _name(ro[0].value.func) == '_retry_object'
                             and [ast.unparse(a) for a in ro[0].value.args] == ['retries']):
        raise TranslateError(what + ': expected self.retries = _retry_object(retries, ...)')
    kw = {k.arg: k.value for k in ro[0].value.keywords}
    if set(kw) != {'status', 'backoff_factor', 'status_forcelist'}:
        raise TranslateError(what + ': unexpected keywords for _retry_object: %s' % sorted(kw))
    out.append('Definition s3_default_status : Z := %s.' % coq_Z(_const_eval(kw['status'], {}, what)))
    out.append('Definition s3_default_forcelist_is_glitches : bool := %s.'
               % ('true' if ast.unparse(kw['status_forcelist']) == '_DEFAULT_SERVER_GLITCHES' else 'false'))
    # _retry_object: Retry(connect=connect_retries, read=read_retries, **defaults)
    fn = _func(tree, '_retry_object', REL)
    src = ast.unparse(fn)
    if 'Retry(connect=connect_retries, read=read_retries, **defaults)' not in src or \
            'connect_retries, read_retries = _connect_read_tuple(retries)' not in src:
        raise TranslateError('_retry_object: unexpected construction of the Retry object')


def item_request(repo, out):
    tree = _parse(repo, REL)
    fn = _func(tree, '_request', REL)
    what = '_request'
    tr = [s for s in fn.body if isinstance(s, ast.Try)]
    if len(tr) != 1 or tr[0].orelse or tr[0].finalbody:
        raise TranslateError(what + ': expected a single try statement')
    if 'with session.request(method, url, timeout=timeout, **kwargs) as response:\n    yield response' \
            not in ast.unparse(tr[0].body[0]):
        raise TranslateError(what + ': try body is not `with session.request(...) as response: yield response`')
    converts, unwraps = [], []
    for h in tr[0].handlers:
        types = _names(h.type)
        body = [s for s in h.body if not (isinstance(s, ast.Assign))]
        if len(body) == 1 and isinstance(body[0], ast.Raise) and isinstance(body[0].exc, ast.Call):
            converts.append((types, _raised(body[0], what)))
        elif types == ['requests.exceptions.ConnectionError']:
            if ast.unparse(h.body[0]) != 'cause = error.args[0] if error.args else None':
                raise TranslateError(what + ': ConnectionError handler must start by extracting the cause')
            for s in h.body[1:-1]:
                if not (isinstance(s, ast.If) and not s.orelse and len(s.body) == 1
                        and ast.unparse(s.body[0]) == 'raise cause from error'):
                    raise TranslateError(what + ': unexpected statement in ConnectionError handler')
                tests = s.test.values if isinstance(s.test, ast.BoolOp) and isinstance(s.test.op, ast.And) else [s.test]
                t0 = tests[0]
                if not (isinstance(t0, ast.Call) and _name(t0.func) == 'isinstance' and ast.unparse(t0.args[0]) == 'cause'):
                    raise TranslateError(what + ': expected isinstance(cause, ...)')
                reasons = []
                if len(tests) == 2:
                    t1 = tests[1]
                    if not (isinstance(t1, ast.Call) and _name(t1.func) == 'isinstance'
                            and ast.unparse(t1.args[0]) == 'cause.reason'):
                        raise TranslateError(what + ': expected isinstance(cause.reason, ...)')
                    reasons = _names(t1.args[1])
                elif len(tests) != 1:
                    raise TranslateError(what + ': too many conjuncts in ConnectionError handler')
                unwraps.append((_name(t0.args[1]), reasons))
            if ast.unparse(h.body[-1]) != 'raise':
                raise TranslateError(what + ': ConnectionError handler must end with a bare raise')
        else:
            raise TranslateError(what + ': unrecognised handler for %s' % types)
    out.append('Definition s3_request_converts : list (list string * string) := [%s].'
               % '; '.join('(%s, %s)' % (coq_strings(t), coq_string(r)) for t, r in converts))
    out.append('Definition s3_request_unwraps : list (string * list string) := [%s].'
               % '; '.join('(%s, %s)' % (coq_string(t), coq_strings(r)) for t, r in unwraps))
    # the retry loop of S3ChunkStore.request
    cls = _class(tree, 'S3ChunkStore', REL)
    req = _func(cls, 'request', REL)
    loops = [n for n in ast.walk(req) if isinstance(n, ast.While)]
    if len(loops) != 1 or ast.unparse(loops[0].test) != 'True':
        raise TranslateError('request: expected one `while True` loop')
    trs = [s for s in loops[0].body if isinstance(s, ast.Try)]
    if len(trs) != 1 or len(trs[0].handlers) != 1:
        raise TranslateError('request: expected one try with one handler in the loop')
    h = trs[0].handlers[0]
    hb = [ast.unparse(s) for s in h.body]
    if hb != ['retries = retries.increment(method, url, error=error)', 'retries.sleep()']:
        raise TranslateError('request: loop handler is not increment + sleep: %s' % hb)
    tb = ast.unparse(trs[0].body[0])
    for frag in ('with _request(session, method, url, timeout, **kwargs) as response:',
                 '_raise_for_status(response, chunk_name, ignored_errors)',
                 'retries = response.raw.retries.new()', 'return process(response)'):
        if frag not in tb:
            raise TranslateError('request: loop body lacks `%s`' % frag)
    pre = [ast.unparse(s) for s in loops[0].body if not isinstance(s, ast.Try)]
    if pre != ['adapter.max_retries = retries']:
        raise TranslateError('request: loop must set adapter.max_retries = retries: %s' % pre)
    if 'retries = retries.new()' not in [ast.unparse(s) for s in req.body]:
        raise TranslateError('request: retries are not renewed per request')
    out.append('Definition s3_loop_catches : list string := %s.' % coq_strings(_names(h.type)))


def item_jwt(repo, out):
    tree = _parse(repo, REL)
    fn = _func(tree, 'decode_jwt', REL)
    found = None
    for n in ast.walk(fn):
        if isinstance(n, ast.If) and ast.unparse(n.test).startswith("header.get('alg') =="):
            alg = _const_eval(n.test.comparators[0], {}, 'decode_jwt')
            inner = [s for s in n.body if isinstance(s, ast.If)]
            if len(inner) != 1 or not ast.unparse(inner[0].test).startswith('len_sig != '):
                raise TranslateError('decode_jwt: expected `if len_sig != N` inside the alg test')
            if ast.unparse(n.body[0]) != 'len_sig = len(encoded_signature)':
                raise TranslateError('decode_jwt: len_sig is not len(encoded_signature)')
            if not isinstance(inner[0].body[-1], ast.Raise):
                raise TranslateError('decode_jwt: signature length check does not raise')
            found = (alg, _const_eval(inner[0].test.comparators[0], {}, 'decode_jwt'))
    if found is None or not isinstance(found[0], str) or not isinstance(found[1], int):
        raise TranslateError('decode_jwt: signature length check not found')
    out.append('Definition jwt_sig_alg : string := %s.' % coq_string(found[0]))
    out.append('Definition jwt_sig_len : Z := %s.' % coq_Z(found[1]))
    af = _func(tree, '_auth_factory', REL)
    tests = [n for n in ast.walk(af) if isinstance(n, ast.If) and 'parsed.scheme' in ast.unparse(n.test)]
    if len(tests) != 1:
        raise TranslateError('_auth_factory: scheme test not found')
    t = tests[0].test
    ok = (isinstance(t, ast.BoolOp) and isinstance(t.op, ast.And) and len(t.values) == 2
          and all(isinstance(v, ast.Compare) and len(v.ops) == 1 and isinstance(v.ops[0], ast.NotEq) for v in t.values)
          and ast.unparse(t.values[0].left) == 'parsed.scheme' and ast.unparse(t.values[1].left) == 'parsed.hostname'
          and isinstance(tests[0].body[0], ast.Raise))
    if not ok:
        raise TranslateError("_auth_factory: expected `parsed.scheme != S and parsed.hostname != H` -> raise")
    out.append('Definition jwt_scheme : string := %s.' % coq_string(_const_eval(t.values[0].comparators[0], {}, 'af')))
    out.append('Definition jwt_host_exception : string := %s.'
               % coq_string(_const_eval(t.values[1].comparators[0], {}, 'af')))


def _request_call(fn, receiver, what):
    """The single `<receiver>.request(...)` call inside fn: (positional sources, keyword dict)."""
    calls = [n for n in ast.walk(fn) if isinstance(n, ast.Call) and isinstance(n.func, ast.Attribute)
             and n.func.attr == 'request' and ast.unparse(n.func.value) == receiver]
    if len(calls) != 1:
        raise TranslateError('%s: expected exactly one %s.request(...) call, found %d' % (what, receiver, len(calls)))
    return [ast.unparse(a) for a in calls[0].args], {k.arg: ast.unparse(k.value) for k in calls[0].keywords}


def item_streaming(repo, out):
    """Which requests are streamed (body read by `process` inside the retry loop) and with which `process`."""
    tree = _parse(repo, REL)
    cls = _class(tree, 'S3ChunkStore', REL)
    args, kw = _request_call(_func(cls, 'get_chunk', REL), 'self', 'get_chunk')
    if args[:3] != ["'GET'", 'url', '_read_chunk']:
        raise TranslateError('get_chunk: request is not GET url _read_chunk')
    out.append('Definition s3_chunk_streamed : bool := %s.' % ('true' if kw.get('stream') == 'True' else 'false'))
    args, kw = _request_call(_func(cls, '_verify_bucket', REL), 'self', '_verify_bucket')
    if args != ["'GET'", 'bucket'] or 'process' in kw:
        raise TranslateError('_verify_bucket: request is not GET bucket with the default process')
    out.append('Definition s3_listing_streamed : bool := %s.' % ('true' if kw.get('stream') == 'True' else 'false'))
    rel = 'katdal/datasources.py'
    dtree = _parse(repo, rel)
    fn = _func(_class(dtree, 'TelstateDataSource', rel), 'from_url', rel)
    args, kw = _request_call(fn, 'rdb_store', 'from_url')
    if args != ["'GET'", 'rdb_url'] or kw.get('process') != '_read_object':
        raise TranslateError('from_url: RDB request is not GET rdb_url with process=_read_object')
    out.append('Definition s3_rdb_streamed : bool := %s.' % ('true' if kw.get('stream') == 'True' else 'false'))
    src = ast.unparse(fn)
    if 'except ChunkStoreError as e:\n' not in src or 'raise DataSourceNotFound(str(e)) from e' not in src:
        raise TranslateError('from_url: ChunkStoreError is not turned into DataSourceNotFound')


def _attr_uses(node, attr):
    return [n for n in ast.walk(node) if isinstance(n, ast.Attribute) and n.attr == attr
            and isinstance(n.value, ast.Name) and n.value.id == 'self']


def item_store_state(repo, out):
    """State an S3ChunkStore object carries from one request to the next: the verified-bucket cache (who reads it, who
    adds to it, and WHEN relative to the checks), the per-store Retry template, the session pool."""
    tree = _parse(repo, REL)
    cls = _class(tree, 'S3ChunkStore', REL)
    what = '_verify_bucket'
    fn = _func(cls, '_verify_bucket', REL)
    if [a.arg for a in fn.args.args] != ['self', 'url', 'chunk_error']:
        raise TranslateError(what + ': unexpected signature')
    body = [s for s in fn.body if not (isinstance(s, ast.Expr) and isinstance(s.value, ast.Constant))]
    if not body or ast.unparse(body[0]) != 'bucket = _bucket_url(url)':
        raise TranslateError(what + ': must start with `bucket = _bucket_url(url)`')
    steps, missing, empty = [], None, None
    for s in body[1:]:
        src = ast.unparse(s)
        if src == 'if bucket in self._verified_buckets:\n    return':
            steps.append('return_if_cached')
        elif src == 'self._verified_buckets.add(bucket)':
            steps.append('add')
        elif isinstance(s, ast.Try):
            if not (len(s.body) == 1 and not s.orelse and not s.finalbody and len(s.handlers) == 1
                    and ast.unparse(s.body[0]) == "response = self.request('GET', bucket, params={'max-keys': 1})"):
                raise TranslateError(what + ': try body is not the single bucket-listing request')
            h = s.handlers[0]
            if not (h.type is not None and _names(h.type) == ['S3ObjectNotFound'] and len(h.body) == 1
                    and isinstance(h.body[0], ast.Raise) and h.body[0].cause is not None
                    and ast.unparse(h.body[0].cause) == 'chunk_error'):
                raise TranslateError(what + ': listing handler is not `except S3ObjectNotFound: raise X(..) from chunk_error`')
            missing = _raised(h.body[0], what)
            steps.append('listing')
        elif isinstance(s, ast.Assert):
            if not (src == 'assert response.ok' or src.startswith('assert response.ok,')):    # message normalised away
                raise TranslateError(what + ': unexpected assert')
            if 'listing' not in steps:
                raise TranslateError(what + ': response used before the listing request')
        elif isinstance(s, ast.If):
            if not (ast.unparse(s.test) == "b'<Contents>' not in response.content" and not s.orelse and len(s.body) == 2
                    and isinstance(s.body[0], ast.Assign) and ast.unparse(s.body[0].targets[0]) == 'msg'
                    and isinstance(s.body[1], ast.Raise) and s.body[1].cause is not None):
                raise TranslateError(what + ': unrecognised if statement: ' + src[:60])
            empty = _raised(s.body[1], what)
            steps.append('raise_if_empty')
        else:
            raise TranslateError(what + ': unrecognised statement: ' + src[:60])
    for k in ('return_if_cached', 'listing', 'raise_if_empty', 'add'):
        if steps.count(k) > 1:
            raise TranslateError(what + ': statement %s occurs %d times' % (k, steps.count(k)))
    if missing is None or empty is None:
        raise TranslateError(what + ': the listing request or the empty-bucket test is gone')
    # nobody else reads or writes the cache; it starts empty
    init = _func(cls, '__init__', REL)
    uses = _attr_uses(cls, '_verified_buckets')
    inside = _attr_uses(fn, '_verified_buckets')
    in_init = _attr_uses(init, '_verified_buckets')
    if 'self._verified_buckets = set()' not in [ast.unparse(s) for s in init.body] or len(in_init) != 1:
        raise TranslateError('__init__: the verified-bucket cache does not start as an empty set')
    if len(uses) != len(inside) + 1 or len(inside) != steps.count('return_if_cached') + steps.count('add'):
        raise TranslateError('_verified_buckets is used outside __init__ / the recognised statements of _verify_bucket')
    if any('_verified_buckets' in ast.unparse(n) for n in tree.body if n is not cls):
        raise TranslateError('_verified_buckets is used outside S3ChunkStore')
    # the cache key: first path component of the (normalised) chunk URL
    bu = _func(tree, '_bucket_url', REL)
    bsrc = [ast.unparse(s) for s in bu.body if not (isinstance(s, ast.Expr) and isinstance(s.value, ast.Constant))]
    if bsrc != ['split_url = urllib.parse.urlsplit(url)', "bucket_name = split_url.path.lstrip('/').split('/')[0]",
                'return split_url._replace(path=bucket_name).geturl()']:
        raise TranslateError('_bucket_url: unexpected body')
    # get_chunk: the 404 handler verifies the bucket of THIS chunk URL and re-raises
    gc = _func(cls, 'get_chunk', REL)
    trs = [s for s in gc.body if isinstance(s, ast.Try)]
    if len(trs) != 1 or len(trs[0].handlers) != 1 or trs[0].orelse or trs[0].finalbody or len(trs[0].body) != 1:
        raise TranslateError('get_chunk: expected one try with one handler around the request')
    h = trs[0].handlers[0]
    if _names(h.type) != ['S3ObjectNotFound'] or [ast.unparse(s) for s in h.body] != ['self._verify_bucket(url, err)', 'raise']:
        raise TranslateError('get_chunk: 404 handler is not `self._verify_bucket(url, err); raise`')
    if not ast.unparse(trs[0].body[0]).startswith("chunk = self.request('GET', url, _read_chunk,"):
        raise TranslateError('get_chunk: try body is not the chunk request')
    if 'url = self.make_url(chunk_name + _CHUNK_EXTENSION)' not in [ast.unparse(s) for s in gc.body]:
        raise TranslateError('get_chunk: url is not make_url(chunk_name + _CHUNK_EXTENSION)')
    # per-store request parameters and the session pool are set once, in __init__
    for attr in ('retries', 'timeout', '_session_pool', '_url'):
        stores = [n for n in _attr_uses(cls, attr) if isinstance(n.ctx, (ast.Store, ast.Del))]
        if len(stores) != 1 or stores[0] not in list(ast.walk(init)):
            raise TranslateError('self.%s is assigned outside __init__ (or more than once)' % attr)
    req = _func(cls, 'request', REL)
    rb = [ast.unparse(s) for s in req.body]
    if 'retries = self.retries if retries is None else _retry_object(retries)' not in rb:
        raise TranslateError('request: retries do not start from self.retries')
    out.append('Definition s3_verify_steps : list string := %s.' % coq_strings(steps))
    out.append('Definition s3_verify_missing : string := %s.' % coq_string(missing))
    out.append('Definition s3_verify_empty : string := %s.' % coq_string(empty))


ITEMS = [item_glitches, item_raise_for_status, item_store_init, item_request, item_jwt, item_streaming, item_store_state]
