"""Translator items for C19: the decision constants of ConcatenatedDataSet.__init__ the Coq model hard-wires.

Model/Concat.v assumes: the parts are sorted by plain ascending `.sort()` of `(d.start_time, d)` tuples; more than ONE
distinct dump period raises ConcatenationError; the sensors merged by value and partitioned back into the parts are
Observation/subarray, spw and target (each followed by an index sensor CategoricalData(x.indices, x.events)); the
scan and compscan index sensors of every part are shifted by a counter that starts at 0 and grows by
len(unique_values); the constructor ends with select(spw=0, subarray=0); and concatenate_categorical keeps repeats
exactly for the sensors whose entry in dataset.DEFAULT_SENSOR_PROPS says allow_repeats (label, scan_state).
Each fact is re-read from the source (Python ast, fail-closed) into Gen/Generated.v; Proofs/ConcatP.v
(`concat_constants_ok`) proves they have the values the model assumes."""
import ast

from vh.translate import TranslateError, _class, _func, _parse, coq_string, coq_strings

REL = 'katdal/concatdata.py'


def _src(n):
    return ast.unparse(n).replace(' ', '')


def item_concat_init(repo, out):
    tree = _parse(repo, REL)
    init = _func(_class(tree, 'ConcatenatedDataSet', REL), '__init__', REL)
    lines = [_src(n) for n in init.body]
    b = lambda x: 'true' if x else 'false'   # noqa: E731

    def need(text, what):
        if text not in lines:
            raise TranslateError('ConcatenatedDataSet.__init__: expected `%s` (%s)' % (text, what))
        return lines.index(text)

    # chronological sort: decorate, plain ascending sort, undecorate
    i1 = need('decorated_datasets=[(d.start_time,d)fordindatasets]', 'decorate with start_time')
    i2 = need('decorated_datasets.sort()', 'plain ascending sort')
    i3 = need('self.datasets=datasets=[d[-1]fordindecorated_datasets]', 'undecorate')
    if not i1 < i2 < i3:
        raise TranslateError('ConcatenatedDataSet.__init__: sort statements out of order')
    out.append('Definition concat_sort_ascending_by_start : bool := true.')
    # dump-period check
    i4 = need('dump_periods=unique_in_order([d.dump_periodfordindatasets])', 'distinct dump periods')
    ifs = [n for n in init.body if isinstance(n, ast.If) and _src(n.test).startswith('len(dump_periods)')]
    if len(ifs) != 1:
        raise TranslateError('ConcatenatedDataSet.__init__: dump period test not found')
    t = ifs[0].test
    if not (isinstance(t, ast.Compare) and len(t.ops) == 1 and isinstance(t.ops[0], ast.Gt)
            and isinstance(t.comparators[0], ast.Constant) and isinstance(t.comparators[0].value, int)):
        raise TranslateError('ConcatenatedDataSet.__init__: dump period test is not len(dump_periods) > <int>')
    if not (len(ifs[0].body) == 1 and isinstance(ifs[0].body[0], ast.Raise)
            and _src(ifs[0].body[0].exc).startswith('ConcatenationError(') and not ifs[0].orelse):
        raise TranslateError('ConcatenatedDataSet.__init__: dump period test does not raise ConcatenationError')
    if not i3 < i4 < init.body.index(ifs[0]):
        raise TranslateError('ConcatenatedDataSet.__init__: dump period test must follow the sort')
    out.append('Definition concat_max_dump_periods : nat := %d%%nat.' % t.comparators[0].value)
    need('self._segments=np.cumsum([0]+[len(d.sensor.timestamps)fordindatasets])', 'segments')
    # sensors merged by value and partitioned back
    merged = []
    for var, name in (('subarray', 'Observation/subarray'), ('spw', 'Observation/spw'), ('target', 'Observation/target')):
        need("%s=self.sensor.get('%s')" % (var, name), 'merged sensor')
        merged.append(name)
    need('self.subarrays=subarray.unique_values', 'merged subarrays')
    need('self.spectral_windows=spw.unique_values', 'merged spectral windows')
    need('self.catalogue.add(target.unique_values)', 'merged catalogue')
    for var, short in (('subarray', 'sub'), ('spw', 'spw'), ('target', 'target')):
        need('split_%s=%s.partition(self._segments)' % (short, var), 'partition')
    out.append('Definition concat_merged_sensors : list string := %s.' % coq_strings(merged))
    # the loop over the parts
    i5 = need('scan_start,compscan_start=(0,0)', 'running counters start at zero')
    loops = [n for n in init.body if isinstance(n, ast.For) and _src(n.iter) == 'enumerate(datasets)']
    if len(loops) != 1 or init.body.index(loops[0]) < i5:
        raise TranslateError('ConcatenatedDataSet.__init__: loop over the parts not found')
    body = [_src(n) for n in loops[0].body]
    expect = []
    for short, name in (('sub', 'subarray'), ('spw', 'spw'), ('target', 'target')):
        expect.append("d.sensor['Observation/%s']=split_%s[n]" % (name, short))
        expect.append("d.sensor['Observation/%s_index']=CategoricalData(split_%s[n].indices,split_%s[n].events)"
                      % (name, short, short))
    running = []
    for var in ('scan', 'compscan'):
        expect += ["%s_index=d.sensor.get('Observation/%s_index')" % (var, var),
                   '%s_index.unique_values=[index+%s_startforindexin%s_index.unique_values]' % (var, var, var),
                   '%s_start+=len(%s_index.unique_values)' % (var, var),
                   "d.sensor['Observation/%s_index']=%s_index" % (var, var)]
        running.append('Observation/%s_index' % var)
    if body != expect:
        bad = [x for x in body if x not in expect] + [x for x in expect if x not in body]
        raise TranslateError('ConcatenatedDataSet.__init__: part loop differs from the modelled one at: %s' % bad[:2])
    out.append('Definition concat_running_sensors : list string := %s.' % coq_strings(running))
    out.append('Definition concat_running_start : nat := 0%nat.')
    out.append('Definition concat_running_step_is_num_unique : bool := true.')
    # default selection
    if lines[-1] != 'self.select(spw=0,subarray=0)':
        raise TranslateError('ConcatenatedDataSet.__init__: does not end with select(spw=0, subarray=0)')
    out.append('Definition concat_default_selection : list (string * Z) := [(%s, 0%%Z); (%s, 0%%Z)].'
               % (coq_string('spw'), coq_string('subarray')))
    # _set_keep hands every part its own slice of the global time mask
    sk = _func(_class(tree, 'ConcatenatedDataSet', REL), '_set_keep', REL)
    want = 'time_keep=self._time_keep[self._segments[n]:self._segments[n+1]]'
    if want not in _src(sk):
        raise TranslateError('ConcatenatedDataSet._set_keep: parts do not get slices of the global time mask')
    out.append('Definition concat_parts_get_mask_slices : bool := true.')
    # allow_repeats per sensor (dataset.DEFAULT_SENSOR_PROPS)
    dtree = _parse(repo, 'katdal/dataset.py')
    found = [n for n in dtree.body if isinstance(n, ast.Assign) and len(n.targets) == 1
             and isinstance(n.targets[0], ast.Name) and n.targets[0].id == 'DEFAULT_SENSOR_PROPS']
    if len(found) != 1 or not isinstance(found[0].value, ast.Dict):
        raise TranslateError('dataset.DEFAULT_SENSOR_PROPS is not a dict literal')
    props = {}
    for k, v in zip(found[0].value.keys, found[0].value.values):
        if not (isinstance(k, ast.Constant) and isinstance(k.value, str) and isinstance(v, ast.Dict)):
            raise TranslateError('dataset.DEFAULT_SENSOR_PROPS: entry not of the form "name": {...}')
        ar = False
        for kk, vv in zip(v.keys, v.values):
            if isinstance(kk, ast.Constant) and kk.value == 'allow_repeats':
                if not (isinstance(vv, ast.Constant) and isinstance(vv.value, bool)):
                    raise TranslateError('dataset.DEFAULT_SENSOR_PROPS: allow_repeats not a literal')
                ar = vv.value
        props[k.value] = ar
    wild = [k for k in props if '*' in k and props[k]]
    if wild:
        raise TranslateError('dataset.DEFAULT_SENSOR_PROPS: wildcard entry with allow_repeats: %s' % wild)
    out.append('Definition obs_label_allow_repeats : bool := %s.' % b(props.get('Observation/label', False)))
    out.append('Definition obs_scan_state_allow_repeats : bool := %s.' % b(props.get('Observation/scan_state', False)))
    others = sorted(k for k in props if props[k] and k not in ('Observation/label', 'Observation/scan_state'))
    out.append('Definition obs_other_allow_repeats : list string := %s.' % coq_strings(others))


ITEMS = [item_concat_init]
