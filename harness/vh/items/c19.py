"""Translator items for C19: the decision constants of ConcatenatedDataSet.__init__ the Coq model hard-wires.

Model/Concat.v assumes: the parts are sorted by plain ascending `.sort()` of `(d.start_time, d)` tuples; more than ONE
distinct dump period raises ConcatenationError; the sensors merged by value and partitioned back into the parts are
Observation/subarray, spw and target (each followed by an index sensor CategoricalData(x.indices, x.events)); the
scan and compscan index sensors of every part are shifted by a counter that starts at 0 and grows by
len(unique_values); the constructor ends with select(spw=0, subarray=0); and concatenate_categorical keeps repeats
exactly for the sensors whose entry in dataset.DEFAULT_SENSOR_PROPS says allow_repeats (label, scan_state).
Each fact is re-read from the source (Python ast, fail-closed) into Gen/Generated.v; Proofs/ConcatP.v
(`concat_constants_ok`) proves they have the values the model assumes."""
import ast
import re

from vh.translate import TranslateError, _class, _func, _parse, coq_string, coq_strings, coq_Z

REL = 'katdal/concatdata.py'


def _src(n):
    return ast.unparse(n).replace(' ', '')


def item_concat_init(repo, out):
    tree = _parse(repo, REL)
    init = _func(_class(tree, 'ConcatenatedDataSet', REL), '__init__', REL)
    lines = [_src(n) for n in init.body]
    b = lambda x: 'true' if x else 'false'   # noqa: E731

    def need(text, what):
        if text not in lines:
            raise TranslateError('ConcatenatedDataSet.__init__: expected `%s` (%s)' % (text, what))
        return lines.index(text)

    # chronological sort: decorate, plain ascending sort, undecorate
    i1 = need('decorated_datasets=[(d.start_time,d)fordindatasets]', 'decorate with start_time')
    i2 = need('decorated_datasets.sort()', 'plain ascending sort')
    i3 = need('self.datasets=datasets=[d[-1]fordindecorated_datasets]', 'undecorate')
    if not i1 < i2 < i3:
        raise TranslateError('ConcatenatedDataSet.__init__: sort statements out of order')
    out.append('Definition concat_sort_ascending_by_start : bool := true.')
    # dump-period check
    i4 = need('dump_periods=unique_in_order([d.dump_periodfordindatasets])', 'distinct dump periods')
    ifs = [n for n in init.body if isinstance(n, ast.If) and _src(n.test).startswith('len(dump_periods)')]
    if len(ifs) != 1:
        raise TranslateError('ConcatenatedDataSet.__init__: dump period test not found')
    t = ifs[0].test
    if not (isinstance(t, ast.Compare) and len(t.ops) == 1 and isinstance(t.ops[0], ast.Gt)
            and isinstance(t.comparators[0], ast.Constant) and isinstance(t.comparators[0].value, int)):
        raise TranslateError('ConcatenatedDataSet.__init__: dump period test is not len(dump_periods) > <int>')
    if not (len(ifs[0].body) == 1 and isinstance(ifs[0].body[0], ast.Raise)
            and _src(ifs[0].body[0].exc).startswith('ConcatenationError(') and not ifs[0].orelse):
        raise TranslateError('ConcatenatedDataSet.__init__: dump period test does not raise ConcatenationError')
    if not i3 < i4 < init.body.index(ifs[0]):
        raise TranslateError('ConcatenatedDataSet.__init__: dump period test must follow the sort')
    out.append('Definition concat_max_dump_periods : nat := %d%%nat.' % t.comparators[0].value)
    need('self._segments=np.cumsum([0]+[len(d.sensor.timestamps)fordindatasets])', 'segments')
    # sensors merged by value and partitioned back
    merged = []
    for var, name in (('subarray', 'Observation/subarray'), ('spw', 'Observation/spw'), ('target', 'Observation/target')):
        need("%s=self.sensor.get('%s')" % (var, name), 'merged sensor')
        merged.append(name)
    need('self.subarrays=subarray.unique_values', 'merged subarrays')
    need('self.spectral_windows=spw.unique_values', 'merged spectral windows')
    need('self.catalogue.add(target.unique_values)', 'merged catalogue')
    for var, short in (('subarray', 'sub'), ('spw', 'spw'), ('target', 'target')):
        need('split_%s=%s.partition(self._segments)' % (short, var), 'partition')
    out.append('Definition concat_merged_sensors : list string := %s.' % coq_strings(merged))
    # the loop over the parts
    i5 = need('scan_start,compscan_start=(0,0)', 'running counters start at zero')
    loops = [n for n in init.body if isinstance(n, ast.For) and _src(n.iter) == 'enumerate(datasets)']
    if len(loops) != 1 or init.body.index(loops[0]) < i5:
        raise TranslateError('ConcatenatedDataSet.__init__: loop over the parts not found')
    body = [_src(n) for n in loops[0].body]
    expect = []
    for short, name in (('sub', 'subarray'), ('spw', 'spw'), ('target', 'target')):
        expect.append("d.sensor['Observation/%s']=split_%s[n]" % (name, short))
        expect.append("d.sensor['Observation/%s_index']=CategoricalData(split_%s[n].indices,split_%s[n].events)"
                      % (name, short, short))
    running = []
    for var in ('scan', 'compscan'):
        expect += ["%s_index=d.sensor.get('Observation/%s_index')" % (var, var),
                   '%s_index.unique_values=[index+%s_startforindexin%s_index.unique_values]' % (var, var, var),
                   '%s_start+=len(%s_index.unique_values)' % (var, var),
                   "d.sensor['Observation/%s_index']=%s_index" % (var, var)]
        running.append('Observation/%s_index' % var)
    if body != expect:
        bad = [x for x in body if x not in expect] + [x for x in expect if x not in body]
        raise TranslateError('ConcatenatedDataSet.__init__: part loop differs from the modelled one at: %s' % bad[:2])
    out.append('Definition concat_running_sensors : list string := %s.' % coq_strings(running))
    out.append('Definition concat_running_start : nat := 0%nat.')
    out.append('Definition concat_running_step_is_num_unique : bool := true.')
    # default selection
    if lines[-1] != 'self.select(spw=0,subarray=0)':
        raise TranslateError('ConcatenatedDataSet.__init__: does not end with select(spw=0, subarray=0)')
    out.append('Definition concat_default_selection : list (string * Z) := [(%s, 0%%Z); (%s, 0%%Z)].'
               % (coq_string('spw'), coq_string('subarray')))
    # _set_keep hands every part its own slice of the global time mask
    sk = _func(_class(tree, 'ConcatenatedDataSet', REL), '_set_keep', REL)
    want = 'time_keep=self._time_keep[self._segments[n]:self._segments[n+1]]'
    if want not in _src(sk):
        raise TranslateError('ConcatenatedDataSet._set_keep: parts do not get slices of the global time mask')
    out.append('Definition concat_parts_get_mask_slices : bool := true.')
    # allow_repeats per sensor (dataset.DEFAULT_SENSOR_PROPS)
    dtree = _parse(repo, 'katdal/dataset.py')
    found = [n for n in dtree.body if isinstance(n, ast.Assign) and len(n.targets) == 1
             and isinstance(n.targets[0], ast.Name) and n.targets[0].id == 'DEFAULT_SENSOR_PROPS']
    if len(found) != 1 or not isinstance(found[0].value, ast.Dict):
        raise TranslateError('dataset.DEFAULT_SENSOR_PROPS is not a dict literal')
    props = {}
    for k, v in zip(found[0].value.keys, found[0].value.values):
        if not (isinstance(k, ast.Constant) and isinstance(k.value, str) and isinstance(v, ast.Dict)):
            raise TranslateError('dataset.DEFAULT_SENSOR_PROPS: entry not of the form "name": {...}')
        ar = False
        for kk, vv in zip(v.keys, v.values):
            if isinstance(kk, ast.Constant) and kk.value == 'allow_repeats':
                if not (isinstance(vv, ast.Constant) and isinstance(vv.value, bool)):
                    raise TranslateError('dataset.DEFAULT_SENSOR_PROPS: allow_repeats not a literal')
                ar = vv.value
        props[k.value] = ar
    wild = [k for k in props if '*' in k and props[k]]
    if wild:
        raise TranslateError('dataset.DEFAULT_SENSOR_PROPS: wildcard entry with allow_repeats: %s' % wild)
    out.append('Definition obs_label_allow_repeats : bool := %s.' % b(props.get('Observation/label', False)))
    out.append('Definition obs_scan_state_allow_repeats : bool := %s.' % b(props.get('Observation/scan_state', False)))
    others = sorted(k for k in props if props[k] and k not in ('Observation/label', 'Observation/scan_state'))
    out.append('Definition obs_other_allow_repeats : list string := %s.' % coq_strings(others))




# ---------------------------------------------------------------------------------------------------------------
# what makes two subarrays / spectral windows "identical" (the values concatenate_categorical merges)

def _prop_returns(cls, name, rel):
    fn = _func(cls, name, rel)
    body = [n for n in fn.body if not (isinstance(n, ast.Expr) and isinstance(n.value, ast.Constant))]
    return fn, body


def _check_eq_hash(cls, cname, rel):
    """__eq__ / __hash__ / __ne__ go through _description and nothing else."""
    _, eq = _prop_returns(cls, '__eq__', rel)
    want = 'returnself._description==(other._descriptionifisinstance(other,%s)elseother)' % cname
    if len(eq) != 1 or _src(eq[0]) != want:
        raise TranslateError('%s.__eq__ is not the comparison of _description' % cname)
    _, hs = _prop_returns(cls, '__hash__', rel)
    if len(hs) != 1 or _src(hs[0]) != 'returnhash(self._description)':
        raise TranslateError('%s.__hash__ is not hash(self._description)' % cname)
    _, ne = _prop_returns(cls, '__ne__', rel)
    if len(ne) != 1 or _src(ne[0]) != 'returnnot self==other'.replace(' ', '') and _src(ne[0]) != 'returnnot(self==other)':
        raise TranslateError('%s.__ne__ is not the negation of __eq__' % cname)


def item_identity(repo, out):
    """Subarray._description = (descriptions of the antennas in order, the correlation products in order);
    SpectralWindow._description = a tuple of attributes: the field lists are what Model/ConcatIdent.v compares."""
    rel = 'katdal/dataset.py'
    sub = _class(_parse(repo, rel), 'Subarray', rel)
    _check_eq_hash(sub, 'Subarray', rel)
    _, body = _prop_returns(sub, '_description', rel)
    if len(body) != 3 or not isinstance(body[2], ast.Return):
        raise TranslateError('Subarray._description: expected two assignments and a return')
    parts = []
    for stmt, var, sep, attr in ((body[0], 'ants', '\n', 'ants'), (body[1], 'corrprods', ' ', 'corr_products')):
        if not (isinstance(stmt, ast.Assign) and len(stmt.targets) == 1 and isinstance(stmt.targets[0], ast.Name)
                and stmt.targets[0].id == var):
            raise TranslateError('Subarray._description: expected an assignment to `%s`' % var)
        call = stmt.value
        if not (isinstance(call, ast.Call) and isinstance(call.func, ast.Attribute) and call.func.attr == 'join'
                and isinstance(call.func.value, ast.Constant) and call.func.value.value == sep
                and len(call.args) == 1 and not call.keywords and isinstance(call.args[0], ast.GeneratorExp)):
            raise TranslateError('Subarray._description: `%s` is not <sep>.join(<generator over self.%s>) '
                                 '(the elements in their own order)' % (var, attr))
        gen = call.args[0]
        if not (len(gen.generators) == 1 and not gen.generators[0].ifs
                and _src(gen.generators[0].iter) == 'self.' + attr):
            raise TranslateError('Subarray._description: `%s` does not run over self.%s in order' % (var, attr))
        elt = _src(gen.elt)
        tgt = _src(gen.generators[0].target)
        if attr == 'ants':
            if not (tgt == 'ant' and elt == 'ant.description'):
                raise TranslateError('Subarray._description: antennas are not compared by their full description')
            parts.append(('ants', 'description'))
        else:
            if not (tgt == '(inpA,inpB)' and elt == "f'{inpA},{inpB}'"):
                raise TranslateError('Subarray._description: products are not compared as the pair of input labels')
            parts.append(('corr_products', 'inpA,inpB'))
    if _src(body[2]) != "return'\\n'.join((ants,corrprods))":
        raise TranslateError('Subarray._description: does not return the antennas followed by the products')
    out.append('Definition subarray_description_parts : list (string * string) := [%s].'
               % '; '.join('(%s, %s)' % (coq_string(a), coq_string(b)) for a, b in parts))
    # the constructor keeps the products in the given order (lower-cased) and the antennas in the given order
    init = [_src(n) for n in _func(sub, '__init__', rel).body]
    for text, what in (('self.corr_products=np.array([(inpA.lower(),inpB.lower())forinpA,inpBincorr_products])', 'products in order'),
                       ('self.ants=[antforantinantsifant.nameininput_ants]', 'antennas in order')):
        if text not in init:
            raise TranslateError('Subarray.__init__: expected `%s` (%s)' % (text, what))
    out.append('Definition subarray_keeps_given_order : bool := true.')
    rel2 = 'katdal/spectral_window.py'
    spw = _class(_parse(repo, rel2), 'SpectralWindow', rel2)
    _check_eq_hash(spw, 'SpectralWindow', rel2)
    _, body = _prop_returns(spw, '_description', rel2)
    if not (len(body) == 1 and isinstance(body[0], ast.Return) and isinstance(body[0].value, ast.Tuple)):
        raise TranslateError('SpectralWindow._description: does not return a tuple')
    fields = []
    for e in body[0].value.elts:
        if isinstance(e, ast.UnaryOp) and isinstance(e.op, ast.USub):
            e = e.operand           # the sign only matters for the ordering of windows, not for their identity
        if not (isinstance(e, ast.Attribute) and isinstance(e.value, ast.Name) and e.value.id == 'self'):
            raise TranslateError('SpectralWindow._description: element %s is not (-)self.<attribute>' % _src(e))
        fields.append(e.attr)
    out.append('Definition spw_description_fields : list string := %s.' % coq_strings(fields))


# ---------------------------------------------------------------------------------------------------------------
# the dummy value per type (sensordata.dummy_sensor_getter), the filler of ConcatenatedSensorCache.get

def _cast_int_filler(node):
    """np.array(<int literal>).astype(dtype)[()] -> the int; anything else -> None"""
    if not (isinstance(node, ast.Subscript) and isinstance(node.slice, ast.Tuple) and not node.slice.elts):
        return None
    call = node.value
    if not (isinstance(call, ast.Call) and isinstance(call.func, ast.Attribute) and call.func.attr == 'astype'
            and len(call.args) == 1 and not call.keywords and _src(call.args[0]) == 'dtype'):
        return None
    inner = call.func.value
    if not (isinstance(inner, ast.Call) and _src(inner.func) == 'np.array' and len(inner.args) == 1 and not inner.keywords):
        return None
    a = inner.args[0]
    neg = isinstance(a, ast.UnaryOp) and isinstance(a.op, ast.USub)
    if neg:
        a = a.operand
    if not (isinstance(a, ast.Constant) and isinstance(a.value, int) and not isinstance(a.value, bool)):
        return None
    return -a.value if neg else a.value


def _c12_constants_fallback(repo, out, int_dummy):
    """Model/SensorCache.v (in C19's cone: Concat.dummy_code = SensorCache.dummy_value) uses two constants that C12's
    whole-function item `item_sensor_api_shape` regenerates: sensor_dummy_int and sensor_offset_default.  That item
    matches dummy_sensor_getter against a pattern of its own; while the pattern does not accept the current source
    (e.g. between a repair of dummy_sensor_getter and the update of C12's pattern) the item emits NOTHING and
    SensorCache.v would not compile.  Only in that case the two constants are emitted here, read from the same source
    lines (never twice: when C12's item translates, this function emits nothing)."""
    from vh.items import c12
    try:
        c12.item_sensor_api_shape(repo, [])
        return
    except TranslateError:
        pass
    rel = 'katdal/sensordata.py'
    ex = _func(_class(_parse(repo, rel), 'SensorCache', rel), '_extract', rel)
    offs = []
    for n in ast.walk(ex):
        if isinstance(n, ast.Call) and _src(n.func) == 'props.get' and len(n.args) == 2 \
                and isinstance(n.args[0], ast.Constant) and n.args[0].value == 'time_offset':
            offs.append(n.args[1])
    if len(offs) != 1 or not (isinstance(offs[0], ast.Constant) and isinstance(offs[0].value, (int, float))
                              and not isinstance(offs[0].value, bool) and offs[0].value == int(offs[0].value)):
        raise TranslateError("SensorCache._extract: expected exactly one props.get('time_offset', <integral number>)")
    out.append('(* the next two: C12\'s item_sensor_api_shape does not translate this tree; emitted by C19 for Model/SensorCache.v *)')
    out.append('Definition sensor_dummy_int : Z := %s.' % coq_Z(int_dummy))
    out.append('Definition sensor_offset_default : Z := %s.' % coq_Z(int(offs[0].value)))


def item_dummy(repo, out):
    """The if-chain `if np.issubdtype(dtype, np.<abstract type>): value = ...` as a table (type class, filler)."""
    rel = 'katdal/sensordata.py'
    fn = _func(_parse(repo, rel), 'dummy_sensor_getter', rel)
    args = [a.arg for a in fn.args.args]
    defaults = [_src(d) for d in fn.args.defaults]
    if args != ['name', 'value', 'dtype', 'timestamp'] or defaults != ['None', 'np.float64', '0.0']:
        raise TranslateError('dummy_sensor_getter: signature changed')
    ifs = [n for n in fn.body if isinstance(n, ast.If)]
    if not ifs or _src(ifs[0].test) != 'valueisNone':
        raise TranslateError('dummy_sensor_getter: `if value is None:` not found')
    node = ifs[0].body
    if len(node) != 1 or not isinstance(node[0], ast.If):
        raise TranslateError('dummy_sensor_getter: the branch for value=None is not a single if-chain on the dtype')
    table = []
    cur = node[0]
    fillers = {'np.dtype(dtype).type(np.nan)': 'nan', "''": 'empty', 'False': 'False'}
    int_dummy = []
    while True:
        classes = []
        tests = cur.test.values if isinstance(cur.test, ast.BoolOp) and isinstance(cur.test.op, ast.Or) else [cur.test]
        for t in tests:
            src = _src(t)
            if not (src.startswith('np.issubdtype(dtype,np.') and src.endswith(')')):
                raise TranslateError('dummy_sensor_getter: test `%s` is not np.issubdtype(dtype, np.<class>)' % src)
            classes.append(src[len('np.issubdtype(dtype,np.'):-1])
        if not (len(cur.body) == 1 and isinstance(cur.body[0], ast.Assign) and _src(cur.body[0].targets[0]) == 'value'):
            raise TranslateError('dummy_sensor_getter: a branch does not just assign `value`')
        val = _src(cur.body[0].value)
        k = _cast_int_filler(cur.body[0].value)
        if k is not None:
            # np.array(<k>).astype(dtype)[()]: the integer k CAST into the type (k itself for a signed type, k modulo
            # 2^bits for an unsigned one) - Model/Concat.v int_dummy
            int_dummy.append(k)
            fillers[val] = str(k)
        elif re.fullmatch(r'np\.dtype\(dtype\)\.type\(-?\d+\)', val):
            raise TranslateError('dummy_sensor_getter: the integer dummy is CONSTRUCTED in the type (`%s`), which raises '
                                 'OverflowError for an unsigned integer type under NumPy >= 2: regression of the repair '
                                 'of finding C19-F4 (expected np.array(<int>).astype(dtype)[()])' % val)
        if val not in fillers:
            raise TranslateError('dummy_sensor_getter: unknown filler expression `%s`' % val)
        for c in classes:
            table.append((c, fillers[val]))
        if not cur.orelse:
            break
        if len(cur.orelse) != 1 or not isinstance(cur.orelse[0], ast.If):
            raise TranslateError('dummy_sensor_getter: the chain ends with an else branch')
        cur = cur.orelse[0]
    out.append('Definition dummy_value_table : list (string * string) := [%s].'
               % '; '.join('(%s, %s)' % (coq_string(a), coq_string(b)) for a, b in table))
    if len(int_dummy) != 1 or [c for c, f in table if f == str(int_dummy[0])] != ['integer']:
        raise TranslateError('dummy_sensor_getter: expected exactly one branch np.issubdtype(dtype, np.integer) whose '
                             'filler is np.array(<int>).astype(dtype)[()]')
    out.append('Definition dummy_int_is_cast_into_type : bool := true.')
    out.append('Definition dummy_int_before_cast : Z := %s.' % coq_Z(int_dummy[0]))
    _c12_constants_fallback(repo, out, int_dummy[0])
    # ConcatenatedSensorCache.get hands it the initial_value property and the common dtype of the parts that have the sensor
    tree = _parse(repo, REL)
    get = _src(_func(_class(tree, 'ConcatenatedSensorCache', REL), 'get', REL))
    for text in ("dtype=common_dtype(split_data2)", "dummy=dummy_sensor_getter(name,value=props.get('initial_value'),dtype=dtype)",
                 "filler=self._extract(dummy,cache.timestamps,cache.dump_period,**props)"):
        if text not in get:
            raise TranslateError('ConcatenatedSensorCache.get: expected `%s`' % text)
    out.append('Definition concat_filler_is_dummy_of_common_dtype : bool := true.')


# ---------------------------------------------------------------------------------------------------------------
# DataSet.select: what Model/ConcatMulti.v assumes about spw= / subarray=

def item_select_sw(repo, out):
    """select(): spw / subarray default to the current ones, indices beyond the lists raise IndexError, the time mask
    is reset to (spw_index == spw) & (subarray_index == subarray), the channel / product masks get the size of THAT
    window / subarray, and every product criterion and the derived corr_products read subarrays[self.subarray]."""
    rel = 'katdal/dataset.py'
    fn = _func(_class(_parse(repo, rel), 'DataSet', rel), 'select', rel)
    lines = [_src(n) for n in fn.body]

    def need(text, what):
        if text not in lines:
            raise TranslateError('DataSet.select: expected `%s` (%s)' % (text, what))
        return lines.index(text)
    i1 = need("kwargs['spw']=spw=kwargs.get('spw',self.spw)", 'spw defaults to the current one')
    i2 = need("kwargs['subarray']=subarray=kwargs.get('subarray',self.subarray)", 'subarray defaults to the current one')
    # (since katdal fix b2702b1 the guards also reject negative indices: `not 0 <= spw < len(...)`; both forms raise
    # IndexError for an index beyond the list, which is all Model/ConcatMulti.v assumes)
    guards = [n for n in fn.body if isinstance(n, ast.If) and _src(n.test) in (
        'spw>=len(self.spectral_windows)', 'subarray>=len(self.subarrays)',
        'not0<=spw<len(self.spectral_windows)', 'not0<=subarray<len(self.subarrays)')]
    if len(guards) != 2 or not all(len(g.body) == 1 and isinstance(g.body[0], ast.Raise) and _src(g.body[0].exc).startswith('IndexError(')
                                   for g in guards):
        raise TranslateError('DataSet.select: spw / subarray beyond the lists do not raise IndexError')
    switches = {}
    for n in fn.body:
        if isinstance(n, ast.If) and _src(n.test) in ('spw!=self.spw', 'subarray!=self.subarray'):
            switches[_src(n.test)] = [_src(x) for x in n.body]
    if switches.get('spw!=self.spw') != ["reset+='TF'", 'self.spw=spw'] \
            or switches.get('subarray!=self.subarray') != ["reset+='TB'", 'self.subarray=subarray']:
        raise TranslateError('DataSet.select: switching spw / subarray does not reset TF / TB and store the new index')
    resets = {}
    for n in fn.body:
        if isinstance(n, ast.If) and _src(n.test) in ("'T'inreset", "'F'inreset", "'B'inreset"):
            resets[_src(n.test)[1]] = [_src(x) for x in n.body if not isinstance(x, ast.For)]
    if resets.get('T') != ['self._time_keep[:]=True', "self._time_keep&=self.sensor.get('Observation/spw_index')==spw",
                           "self._time_keep&=self.sensor.get('Observation/subarray_index')==subarray"]:
        raise TranslateError('DataSet.select: the time mask is not reset to (spw_index == spw) & (subarray_index == subarray)')
    if resets.get('F') != ['self._freq_keep=np.ones(self.spectral_windows[self.spw].num_chans,dtype=bool)']:
        raise TranslateError('DataSet.select: the channel mask is not reset to the size of spectral_windows[self.spw]')
    if resets.get('B') != ['self._corrprod_keep=np.ones(len(self.subarrays[self.subarray].corr_products),dtype=bool)']:
        raise TranslateError('DataSet.select: the product mask is not reset to the size of subarrays[self.subarray]')
    if not i1 < i2:
        raise TranslateError('DataSet.select: spw / subarray statements out of order')
    out.append('Definition select_time_reset_sensors : list string := %s.'
               % coq_strings(['Observation/spw_index', 'Observation/subarray_index']))
    # every read of a product list / channel grid goes through the CURRENT subarray / window
    src = _src(fn)
    import re
    subs = re.findall(r'self\.subarrays\[([^\]]*)\]', src)
    spws = re.findall(r'self\.spectral_windows\[([^\]]*)\]', src)
    if not subs or any(x != 'self.subarray' for x in subs):
        raise TranslateError('DataSet.select: a subarray other than subarrays[self.subarray] is read: %s' % sorted(set(subs)))
    if not spws or any(x != 'self.spw' for x in spws):
        raise TranslateError('DataSet.select: a window other than spectral_windows[self.spw] is read: %s' % sorted(set(spws)))
    need('self.corr_products=self.subarrays[self.subarray].corr_products[self._corrprod_keep]', 'derived corr_products')
    out.append('Definition select_reads_only_current_subarray : bool := true.')
    out.append('Definition select_reads_only_current_spw : bool := true.')
    out.append('Definition select_sw_out_of_range_raises_indexerror : bool := true.')


# ---------------------------------------------------------------------------------------------------------------
# ConcatenatedDataSet.__init__: the metadata merge (Model/ConcatMeta.v)

def item_concat_meta(repo, out):
    """ref_ant / time_offset from the head of the INPUT list (before the sort); after the sort the six joined strings
    (separator per field), obs_params and receivers (keys in order of first appearance, `.get(key, '')`, one value iff
    itertools.groupby finds one run), start_time = min, end_time = max."""
    tree = _parse(repo, REL)
    init = _func(_class(tree, 'ConcatenatedDataSet', REL), '__init__', REL)
    body = [n for n in init.body if not (isinstance(n, ast.Expr) and isinstance(n.value, ast.Constant))]
    lines = [_src(n) for n in body]
    if [a.arg for a in init.args.args] != ['self', 'datasets'] or init.args.defaults:
        raise TranslateError('ConcatenatedDataSet.__init__: signature changed')

    def need(text, what):
        if lines.count(text) != 1:
            raise TranslateError('ConcatenatedDataSet.__init__: expected exactly one `%s` (%s)' % (text, what))
        return lines.index(text)
    if lines[0] != "DataSet.__init__(self,'',datasets[0].ref_ant,datasets[0].time_offset)":
        raise TranslateError('ConcatenatedDataSet.__init__: does not start with DataSet.__init__(self, \'\', '
                             'datasets[0].ref_ant, datasets[0].time_offset) (ref_ant / time_offset of the first INPUT data set)')
    isort = need('self.datasets=datasets=[d[-1]fordindecorated_datasets]', 'undecorate')
    for n in body[:isort]:
        for t in ast.walk(n):
            if isinstance(t, ast.Attribute) and isinstance(t.value, ast.Name) and t.value.id == 'self' \
                    and isinstance(t.ctx, ast.Store) and t.attr != 'datasets':
                raise TranslateError('ConcatenatedDataSet.__init__: self.%s is set before the parts are sorted' % t.attr)
    out.append('Definition concat_meta_ref_from_input_head : bool := true.')
    joins = []
    last = isort
    for field, sep in (('name', ','), ('url', ' | '), ('version', ','), ('observer', ','), ('description', ' | '),
                       ('experiment_id', ',')):
        found = [i for i, n in enumerate(body) if isinstance(n, ast.Assign) and _src(n.targets[0]) == 'self.' + field]
        if len(found) != 1:
            raise TranslateError('ConcatenatedDataSet.__init__: expected exactly one assignment to self.%s' % field)
        v = body[found[0]].value
        if not (isinstance(v, ast.Call) and isinstance(v.func, ast.Attribute) and v.func.attr == 'join'
                and isinstance(v.func.value, ast.Constant) and isinstance(v.func.value.value, str) and len(v.args) == 1
                and _src(v.args[0]) == 'unique_in_order([d.%sfordindatasets])' % field):
            raise TranslateError('ConcatenatedDataSet.__init__: self.%s is not <sep>.join(unique_in_order([d.%s for d in '
                                 'datasets]))' % (field, field))
        if found[0] < isort:
            raise TranslateError('ConcatenatedDataSet.__init__: self.%s is merged before the parts are sorted' % field)
        joins.append((field, v.func.value.value))
        last = max(last, found[0])
    out.append('Definition concat_meta_joins : list (string * string) := [%s].'
               % '; '.join('(%s, %s)' % (coq_string(a), coq_string(b)) for a, b in joins))
    dicts = []
    for var, attr, key, vals in (('obs_params', 'obs_params', 'param', 'values'), ('rx_ants', 'receivers', 'ant', 'rx')):
        i = need('%s=unique_in_order(reduce(lambdax,y:x+y,[list(d.%s.keys())fordindatasets]))' % (var, attr),
                 'keys in order of first appearance')
        loop = body[i + 1] if i + 1 < len(body) else None
        if not (isinstance(loop, ast.For) and _src(loop.target) == key and _src(loop.iter) == var and not loop.orelse):
            raise TranslateError('ConcatenatedDataSet.__init__: `for %s in %s:` does not follow the key list' % (key, var))
        want = ["%s=[d.%s.get(%s,'')fordindatasets]" % (vals, attr, key),
                'self.%s[%s]=%s[0]iflen([kforkinitertools.groupby(%s)])==1else%s' % (attr, key, vals, vals, vals)]
        if [_src(n) for n in loop.body] != want:
            raise TranslateError('ConcatenatedDataSet.__init__: the merge loop of %s differs from the modelled one: %s'
                                 % (attr, [_src(n) for n in loop.body][:2]))
        if i < isort:
            raise TranslateError('ConcatenatedDataSet.__init__: %s merged before the parts are sorted' % attr)
        dicts.append(attr)
    out.append('Definition concat_meta_dicts : list string := %s.' % coq_strings(dicts))
    out.append('Definition concat_meta_missing_value : string := %s.' % coq_string(''))
    out.append('Definition concat_meta_one_value_iff_one_group : bool := true.')
    i1 = need('self.start_time=min([d.start_timefordindatasets])', 'start time')
    i2 = need('self.end_time=max([d.end_timefordindatasets])', 'end time')
    if min(i1, i2) < isort:
        raise TranslateError('ConcatenatedDataSet.__init__: start / end time set before the sort')
    out.append('Definition concat_start_is_min_end_is_max : bool := true.')
    # nothing else in the constructor assigns these attributes
    watched = {'name', 'url', 'version', 'observer', 'description', 'experiment_id', 'start_time', 'end_time', 'ref_ant',
               'time_offset', 'obs_params', 'receivers'}
    count = {}
    for n in ast.walk(init):
        if isinstance(n, ast.Attribute) and isinstance(n.value, ast.Name) and n.value.id == 'self' \
                and isinstance(n.ctx, ast.Store) and n.attr in watched:
            count[n.attr] = count.get(n.attr, 0) + 1
    extra = sorted(k for k, v in count.items() if v > 1 or k in ('ref_ant', 'time_offset', 'obs_params', 'receivers'))
    if extra:
        raise TranslateError('ConcatenatedDataSet.__init__: %s assigned more than once / directly' % extra)


ITEMS = [item_concat_init, item_identity, item_dummy, item_select_sw, item_concat_meta]
