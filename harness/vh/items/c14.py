"""C14 translator items: the calibration product types katdal knows (applycal.CAL_PRODUCT_TYPES) and the products
applied by applycal='default' (visdatav4.DEFAULT_CAL_PRODUCTS).  Fail-closed on any other shape."""
from vh.translate import TranslateError, _parse, _module_assign, _const_eval, coq_strings


def _string_tuple(repo, rel, name):
    tree = _parse(repo, rel)
    v = _const_eval(_module_assign(tree, name, rel), {}, name)
    if not (isinstance(v, tuple) and v and all(isinstance(s, str) and s for s in v)):
        raise TranslateError('%s:%s is not a non-empty tuple of non-empty strings' % (rel, name))
    return v


def item_cal_products(repo, out):
    types = _string_tuple(repo, 'katdal/applycal.py', 'CAL_PRODUCT_TYPES')
    default = _string_tuple(repo, 'katdal/visdatav4.py', 'DEFAULT_CAL_PRODUCTS')
    out.append('(* katdal/applycal.py CAL_PRODUCT_TYPES, katdal/visdatav4.py DEFAULT_CAL_PRODUCTS *)')
    out.append('Definition cal_product_types : list string := %s.' % coq_strings(types))
    out.append('Definition default_cal_products : list string := %s.' % coq_strings(default))


ITEMS = [item_cal_products]


# ---------------------------------------------------------------------------
# decision expressions of applycal.py / visdatav4.py that the model is built on (fail-closed on any other shape)
import ast   # noqa: E402

from vh.translate import coq_string   # noqa: E402


def _norm(node):
    return ast.unparse(node).replace(' ', '').replace('\n', '')


def _top_func(tree, name, rel):
    found = [n for n in tree.body if isinstance(n, ast.FunctionDef) and n.name == name]
    if len(found) != 1:
        raise TranslateError('%s: expected exactly one function %s' % (rel, name))
    return found[0]


def _coq_bool(b):
    return 'true' if b else 'false'


def _interp_call(fn, rel, args):
    """the one complex_interp(...) call of fn: positional arguments must be `args`; returns (left, right) where each is
    True (INVALID_GAIN passed) or False (argument absent = np.interp holds the end value)"""
    calls = [n for n in ast.walk(fn) if isinstance(n, ast.Call) and isinstance(n.func, ast.Name)
             and n.func.id == 'complex_interp']
    if len(calls) != 1:
        raise TranslateError('%s:%s: expected exactly one complex_interp call, found %d' % (rel, fn.name, len(calls)))
    c = calls[0]
    if [_norm(a) for a in c.args] != args:
        raise TranslateError('%s:%s: complex_interp arguments are %s, expected %s' % (
            rel, fn.name, [_norm(a) for a in c.args], args))
    edge = {'left': False, 'right': False}
    for kw in c.keywords:
        if kw.arg not in edge or not (isinstance(kw.value, ast.Name) and kw.value.id == 'INVALID_GAIN'):
            raise TranslateError('%s:%s: complex_interp keyword %s=%s not understood' % (
                rel, fn.name, kw.arg, _norm(kw.value)))
        edge[kw.arg] = True
    return edge['left'], edge['right']


def _assigned(fn, name, rel):
    found = [n for n in ast.walk(fn) if isinstance(n, ast.Assign) and len(n.targets) == 1
             and isinstance(n.targets[0], ast.Name) and n.targets[0].id == name]
    if len(found) != 1:
        raise TranslateError('%s:%s: expected exactly one assignment to %s, found %d' % (rel, fn.name, name, len(found)))
    return _norm(found[0].value)


def item_interp_edges(repo, out):
    """how calc_bandpass_correction / calc_gain_correction call complex_interp (what happens beyond the outermost
    valid node) and which solutions they call valid"""
    rel = 'katdal/applycal.py'
    tree = _parse(repo, rel)
    fn = _top_func(tree, 'calc_bandpass_correction', rel)
    bl, br = _interp_call(fn, rel, ['data_freqs', 'cal_freqs[valid]', 'bp[valid]'])
    if _assigned(fn, 'valid', rel) != 'np.isfinite(bp)':
        raise TranslateError('%s: calc_bandpass_correction valid mask is not np.isfinite(bp)' % rel)
    fn = _top_func(tree, 'calc_gain_correction', rel)
    gl, gr = _interp_call(fn, rel, ['dumps[on_target]', 'events[valid]', 'gains_per_chan[valid]'])
    valid = _assigned(fn, 'valid', rel)
    if valid == 'np.isfinite(gains_per_chan)&on_target[events]':
        on_target = True
    elif valid == 'np.isfinite(gains_per_chan)':
        on_target = False
    else:
        raise TranslateError('%s: calc_gain_correction valid mask %s not understood' % (rel, valid))
    if _assigned(fn, 'on_target', rel) != 'targets==target':
        raise TranslateError('%s: calc_gain_correction on_target is not (targets == target)' % rel)
    out.append('(* katdal/applycal.py: complex_interp(..., left=INVALID_GAIN, right=INVALID_GAIN) in '
               'calc_bandpass_correction, no left/right in calc_gain_correction; the valid masks *)')
    out.append('Definition bandpass_left_invalid : bool := %s.' % _coq_bool(bl))
    out.append('Definition bandpass_right_invalid : bool := %s.' % _coq_bool(br))
    out.append('Definition gain_left_invalid : bool := %s.' % _coq_bool(gl))
    out.append('Definition gain_right_invalid : bool := %s.' % _coq_bool(gr))
    out.append('Definition gain_valid_needs_on_target : bool := %s.' % _coq_bool(on_target))


_DISPATCH_BODIES = {
    ('correction_sensor=calc_delay_correction(product_sensor,index,data_freqs)',): (0, False, False),
    ('correction_sensor=calc_bandpass_correction(product_sensor,index,data_freqs,cal_freqs)',): (1, False, False),
    ('correction_sensor=calc_gain_correction(product_sensor,index)',): (2, False, False),
    ('correction_sensor=calc_gain_correction(product_sensor,index,targets)',): (2, False, True),
    ('product_sensor=calibrate_flux(product_sensor,targets,gaincal_flux)',
     'correction_sensor=calc_gain_correction(product_sensor,index)'): (2, True, False),
    ('product_sensor=calibrate_flux(product_sensor,targets,gaincal_flux)',
     'correction_sensor=calc_gain_correction(product_sensor,index,targets)'): (2, True, True),
}


def item_cal_dispatch(repo, out):
    """calc_correction_per_input: product type -> (calculator, flux calibrated first?, interpolated per target?)"""
    rel = 'katdal/applycal.py'
    tree = _parse(repo, rel)
    outer = _top_func(tree, 'add_applycal_sensors', rel)
    inner = [n for n in outer.body if isinstance(n, ast.FunctionDef) and n.name == 'calc_correction_per_input']
    if len(inner) != 1:
        raise TranslateError('%s: calc_correction_per_input not found in add_applycal_sensors' % rel)
    fn = inner[0]
    first = [_norm(s) for s in fn.body if isinstance(s, ast.Assign)][:1]
    if first != ['product_sensor=get_cal_product(cache,cal_stream,product_type)']:
        raise TranslateError('%s: calc_correction_per_input does not start from get_cal_product(cache, cal_stream, '
                             'product_type)' % rel)
    chains = [s for s in fn.body if isinstance(s, ast.If)]
    if len(chains) != 1:
        raise TranslateError('%s: calc_correction_per_input: expected one if/elif chain on product_type' % rel)
    node, table = chains[0], []
    while True:
        t = node.test
        if not (isinstance(t, ast.Compare) and isinstance(t.left, ast.Name) and t.left.id == 'product_type'
                and len(t.ops) == 1 and len(t.comparators) == 1):
            raise TranslateError('%s: dispatch test %s not understood' % (rel, _norm(t)))
        if isinstance(t.ops[0], ast.Eq) and isinstance(t.comparators[0], ast.Constant):
            types = (t.comparators[0].value,)
        elif isinstance(t.ops[0], ast.In) and isinstance(t.comparators[0], (ast.Tuple, ast.List)):
            types = tuple(e.value if isinstance(e, ast.Constant) else None for e in t.comparators[0].elts)
        else:
            raise TranslateError('%s: dispatch test %s not understood' % (rel, _norm(t)))
        if not types or not all(isinstance(x, str) and x for x in types):
            raise TranslateError('%s: dispatch test %s not understood' % (rel, _norm(t)))
        body = tuple(_norm(s) for s in node.body)
        if body not in _DISPATCH_BODIES:
            raise TranslateError('%s: dispatch branch for %s not understood: %s' % (rel, types, body))
        for x in types:
            if x in [n for n, _ in table]:
                raise TranslateError('%s: product type %s dispatched twice' % (rel, x))
            table.append((x, _DISPATCH_BODIES[body]))
        if len(node.orelse) == 1 and isinstance(node.orelse[0], ast.If):
            node = node.orelse[0]
            continue
        last = node.orelse
        if not (len(last) == 1 and isinstance(last[0], ast.Raise) and isinstance(last[0].exc, ast.Call)
                and _norm(last[0].exc.func) == 'KeyError'):
            raise TranslateError('%s: unknown product types do not raise KeyError' % rel)
        break
    tail = [_norm(s) for s in fn.body[fn.body.index(chains[0]) + 1:]]
    if tail != ['cache[name]=correction_sensor', 'returncorrection_sensor']:
        raise TranslateError('%s: calc_correction_per_input tail is %s' % (rel, tail))
    out.append('(* katdal/applycal.py calc_correction_per_input: type -> (0 delay | 1 bandpass | 2 gain, '
               '(calibrate_flux first, interpolate per target)) *)')
    out.append('Definition cal_dispatch : list (string * (Z * (bool * bool))) := [%s].' % '; '.join(
        '(%s, ((%d)%%Z, (%s, %s)))' % (coq_string(n), k, _coq_bool(f), _coq_bool(t)) for n, (k, f, t) in table))


def item_skip_rule(repo, out):
    """_normalise_cal_products: skip_missing_products = products in (<groups>) or any('.' not in p for p in requested),
    requested = _selection_to_list(products, all=cal_streams, default=DEFAULT_CAL_PRODUCTS)"""
    rel = 'katdal/visdatav4.py'
    tree = _parse(repo, rel)
    fn = _top_func(tree, '_normalise_cal_products', rel)
    if [a.arg for a in fn.args.args] != ['products', 'cal_streams']:
        raise TranslateError('%s: _normalise_cal_products signature changed' % rel)
    req = _assigned(fn, 'requested_cal_products', rel)
    if req != '_selection_to_list(products,all=cal_streams,default=DEFAULT_CAL_PRODUCTS)':
        raise TranslateError('%s: requested_cal_products = %s' % (rel, req))
    found = [n for n in ast.walk(fn) if isinstance(n, ast.Assign) and len(n.targets) == 1
             and isinstance(n.targets[0], ast.Name) and n.targets[0].id == 'skip_missing_products']
    if len(found) != 1:
        raise TranslateError('%s: expected one assignment to skip_missing_products' % rel)
    v = found[0].value
    ok = (isinstance(v, ast.BoolOp) and isinstance(v.op, ast.Or) and len(v.values) == 2
          and isinstance(v.values[0], ast.Compare) and _norm(v.values[0].left) == 'products'
          and len(v.values[0].ops) == 1 and isinstance(v.values[0].ops[0], ast.In)
          and isinstance(v.values[0].comparators[0], (ast.Tuple, ast.List))
          and _norm(v.values[1]) == "any(('.'notinproductforproductinrequested_cal_products))")
    if not ok:
        raise TranslateError('%s: skip_missing_products = %s not understood' % (rel, _norm(v)))
    groups = [e.value if isinstance(e, ast.Constant) else None for e in v.values[0].comparators[0].elts]
    if not all(isinstance(g, str) and g for g in groups):
        raise TranslateError('%s: skip groups %s' % (rel, groups))
    if _norm(fn.body[-1]) != 'return(normalised_cal_products,skip_missing_products)':
        raise TranslateError('%s: _normalise_cal_products returns %s' % (rel, _norm(fn.body[-1])))
    out.append('(* katdal/visdatav4.py _normalise_cal_products: requests that always skip missing products *)')
    out.append('Definition skip_group_names : list string := %s.' % coq_strings(groups))


def item_product_loop(repo, out):
    """calc_correction: the shape of the loop that decides which products are applied (Model/CalSelect.v `select`)"""
    rel = 'katdal/applycal.py'
    tree = _parse(repo, rel)
    fn = _top_func(tree, 'calc_correction', rel)
    loops = [s for s in fn.body if isinstance(s, ast.For) and _norm(s.iter) == 'cal_products'
             and _norm(s.target) == 'cal_product']
    if len(loops) != 1:
        raise TranslateError('%s: calc_correction: expected one `for cal_product in cal_products` loop' % rel)
    inner = [s for s in loops[0].body if isinstance(s, ast.For)]
    if len(inner) != 1 or _norm(inner[0].iter) not in ('enumerate(inputs)', 'inputs'):
        raise TranslateError('%s: calc_correction: expected one inner loop over the inputs' % rel)
    inner = inner[0]
    tries = [s for s in inner.body if isinstance(s, ast.Try)]
    if not (len(tries) == 1 and inner.body[0] is tries[0]
            and [_norm(s) for s in tries[0].body] == ['sensor=cache.get(sensor_prefix+inp)']
            and len(tries[0].handlers) == 1 and _norm(tries[0].handlers[0].type) == 'KeyError'
            and not tries[0].orelse and not tries[0].finalbody):
        raise TranslateError('%s: calc_correction: the sensor lookup is not `try: sensor = cache.get(sensor_prefix '
                             '+ inp) except KeyError:` at the top of the input loop' % rel)
    h = tries[0].handlers[0].body
    if not (len(h) == 1 and isinstance(h[0], ast.If) and _norm(h[0].test) == 'skip_missing_products'
            and [_norm(s) for s in h[0].body] == ['break'] and [_norm(s) for s in h[0].orelse] == ['raise']):
        raise TranslateError('%s: calc_correction: a missing sensor is not handled by `if skip_missing_products: '
                             'break (out of the INPUT loop) else: raise`' % rel)
    if any(isinstance(n, (ast.Break, ast.Continue, ast.Return)) for s in inner.body[1:] for n in ast.walk(s)):
        raise TranslateError('%s: calc_correction: extra break / continue / return in the input loop' % rel)
    if not (inner.orelse and _norm(inner.orelse[0]) == 'corrections[cal_product]=corrections_per_product'):
        raise TranslateError('%s: calc_correction: the product is not registered in the `else:` of the input loop' % rel)
    if any(isinstance(n, (ast.Break, ast.Continue, ast.Return)) for s in inner.orelse for n in ast.walk(s)
           if not isinstance(n, ast.Lambda)):
        raise TranslateError('%s: calc_correction: break / continue / return while registering a product' % rel)
    if any(isinstance(n, (ast.Break, ast.Continue, ast.Return)) for s in loops[0].body if s is not inner
           for n in ast.walk(s)):
        raise TranslateError('%s: calc_correction: break / continue / return in the product loop' % rel)
    if _assigned(fn, 'final_cal_products', rel) != 'list(corrections.keys())':
        raise TranslateError('%s: calc_correction: final_cal_products is not list(corrections.keys())' % rel)
    if _assigned(fn, 'corrections', rel) != '{}':
        raise TranslateError('%s: calc_correction: corrections is not an (insertion-ordered) dict' % rel)
    out.append('(* katdal/applycal.py calc_correction: product loop has the shape modelled by Model/CalSelect.v select *)')
    out.append('Definition product_loop_shape_checked : bool := true.')


ITEMS += [item_interp_edges, item_cal_dispatch, item_skip_rule, item_product_loop]


# ---------------------------------------------------------------------------
# stream discovery: VisibilityDataV4._register_standard_cal_streams (Model/CalSelect.v `discover` / `registered`)
_DISCOVERY_TEMPLATE = '''
def _register_standard_cal_streams(self, gaincal_flux):
    attrs = self.source.metadata.attrs
    l1_stream = ''
    l2_streams = []
    archived_streams = attrs.get('sdp_archived_streams', [])
    for stream in archived_streams:
        stream_attrs = _relative_view(attrs, stream)
        stream_type = stream_attrs.get('stream_type')
        if %(g1)sstream_type == %(cal)r:
            l1_stream = stream
        %(second)s %(g2)sstream_type == %(img)r:
            targets = stream_attrs.get('targets', {})
            l2_streams = [attrs.join(stream, target + %(suffix)r) for target in targets.values()]
    if not l1_stream:
        l1_stream = %(default)r
    freqs = self.spectral_windows[0].channel_freqs
    cal_freqs = {}
    l1_attrs = _relative_view(attrs, l1_stream)
    l1_freqs = add_applycal_sensors(self.sensor, l1_attrs, freqs, cal_stream='l1',
                                    cal_substreams=[l1_stream], gaincal_flux=gaincal_flux)
    if l1_freqs is not None:
        cal_freqs['l1'] = l1_freqs
    if l2_streams:
        l2_attrs = _relative_view(attrs, l2_streams[0])
        l2_freqs = add_applycal_sensors(self.sensor, l2_attrs, freqs, cal_stream='l2',
                                        cal_substreams=l2_streams, gaincal_flux=None)
        if l2_freqs is not None:
            cal_freqs['l2'] = l2_freqs
    return cal_freqs
'''


def _type_test(test, guard_name, rel):
    """`[not <guard_name> and] stream_type == '<type>'` -> (guarded?, type)"""
    guarded = False
    if isinstance(test, ast.BoolOp) and isinstance(test.op, ast.And) and len(test.values) == 2:
        # both conjuncts are free of effects: `<type test> and not <guard>` is put into the template's order
        if isinstance(test.values[0], ast.Compare) and isinstance(test.values[1], ast.UnaryOp):
            test.values.reverse()
        g, test = test.values
        if not (isinstance(g, ast.UnaryOp) and isinstance(g.op, ast.Not) and isinstance(g.operand, ast.Name)
                and g.operand.id == guard_name):
            raise TranslateError('%s: stream discovery: guard %s not understood (expected `not %s`)' % (
                rel, _norm(g), guard_name))
        guarded = True
    if not (isinstance(test, ast.Compare) and isinstance(test.left, ast.Name) and test.left.id == 'stream_type'
            and len(test.ops) == 1 and isinstance(test.ops[0], ast.Eq) and isinstance(test.comparators[0], ast.Constant)
            and isinstance(test.comparators[0].value, str) and test.comparators[0].value):
        raise TranslateError('%s: stream discovery: test %s not understood' % (rel, _norm(test)))
    return guarded, test.comparators[0].value


def item_stream_discovery(repo, out):
    """_register_standard_cal_streams: the decisions of the walk over sdp_archived_streams (which stream types count, is
    the FIRST sdp.cal stream kept, is an imager WITHOUT self-cal targets passed over, the default L1 stream, the
    substream suffix); everything else of the method must be the template above, compared in the translator's normal
    form (docstrings, comments, logging, message texts do not matter)"""
    from vh.translate import _class, _func, normalise_source
    rel = 'katdal/visdatav4.py'
    tree = _parse(repo, rel)
    fn = _func(_class(tree, 'VisibilityDataV4', rel), '_register_standard_cal_streams', rel)
    loops = [s for s in fn.body if isinstance(s, ast.For)]
    if len(loops) != 1 or _norm(loops[0].iter) != 'archived_streams' or _norm(loops[0].target) != 'stream':
        raise TranslateError('%s: _register_standard_cal_streams: expected one `for stream in archived_streams` loop '
                             '(stream discovery is modelled as ONE walk over the archived streams)' % rel)
    ifs = [s for s in loops[0].body if isinstance(s, ast.If)]
    if len(ifs) == 1 and len(ifs[0].orelse) == 1 and isinstance(ifs[0].orelse[0], ast.If) and not ifs[0].orelse[0].orelse:
        first, second, form = ifs[0], ifs[0].orelse[0], 'elif'
    elif len(ifs) == 2 and not ifs[0].orelse and not ifs[1].orelse:
        first, second, form = ifs[0], ifs[1], 'if'
    else:
        raise TranslateError('%s: _register_standard_cal_streams: the loop body is not `if <cal test>: .. elif <imager '
                             'test>: ..`' % rel)
    g1, cal = _type_test(first.test, 'l1_stream', rel)
    g2, img = _type_test(second.test, 'l2_streams', rel)
    if cal == img:
        raise TranslateError('%s: stream discovery: L1 and L2 use the same stream type %r' % (rel, cal))
    suffix = [n.right.value for n in ast.walk(second) if isinstance(n, ast.BinOp) and isinstance(n.op, ast.Add)
              and isinstance(n.left, ast.Name) and n.left.id == 'target' and isinstance(n.right, ast.Constant)
              and isinstance(n.right.value, str)]
    tail = [s for s in fn.body[fn.body.index(loops[0]) + 1:] if isinstance(s, ast.If)]
    default = [s.value.value for s in (tail[0].body if tail else []) if isinstance(s, ast.Assign)
               and isinstance(s.value, ast.Constant) and isinstance(s.value.value, str)]
    if len(suffix) != 1 or len(default) != 1 or not default[0]:
        raise TranslateError('%s: stream discovery: substream suffix / default L1 stream not found' % rel)
    want = normalise_source(_DISCOVERY_TEMPLATE % dict(
        g1='not l1_stream and ' if g1 else '', g2='not l2_streams and ' if g2 else '', cal=cal, img=img,
        second=form, suffix=suffix[0], default=default[0])).strip().split('\n')
    got = ast.unparse(ast.FunctionDef(name=fn.name, args=fn.args, body=fn.body, decorator_list=[], returns=None,
                                      type_comment=None, lineno=0, col_offset=0)).strip().split('\n')
    if got != want:
        k = next((i for i, (a, b) in enumerate(zip(got, want)) if a != b), min(len(got), len(want)))
        raise TranslateError('%s: _register_standard_cal_streams differs from the modelled method at statement line %d: '
                             'found %r, modelled %r' % (rel, k, got[k].strip() if k < len(got) else '<end>',
                                                        want[k].strip() if k < len(want) else '<end>'))
    out.append('(* katdal/visdatav4.py _register_standard_cal_streams: the walk over sdp_archived_streams *)')
    out.append('Definition disc_cal_type : string := %s.' % coq_string(cal))
    out.append('Definition disc_image_type : string := %s.' % coq_string(img))
    out.append('Definition disc_l1_default : string := %s.' % coq_string(default[0]))
    out.append('Definition disc_selfcal_suffix : string := %s.' % coq_string(suffix[0]))
    out.append('(* `not l1_stream and ..`: the first sdp.cal stream is kept; `not l2_streams and ..`: an imager is '
               'taken only while no self-cal substream has been found, i.e. one without targets is passed over *)')
    out.append('Definition disc_l1_guarded : bool := %s.' % _coq_bool(g1))
    out.append('Definition disc_l2_guarded : bool := %s.' % _coq_bool(g2))


ITEMS += [item_stream_discovery]
