"""C14 translator items: the calibration product types katdal knows (applycal.CAL_PRODUCT_TYPES) and the products
applied by applycal='default' (visdatav4.DEFAULT_CAL_PRODUCTS).  Fail-closed on any other shape."""
from vh.translate import TranslateError, _parse, _module_assign, _const_eval, coq_strings


def _string_tuple(repo, rel, name):
    tree = _parse(repo, rel)
    v = _const_eval(_module_assign(tree, name, rel), {}, name)
    if not (isinstance(v, tuple) and v and all(isinstance(s, str) and s for s in v)):
        raise TranslateError('%s:%s is not a non-empty tuple of non-empty strings' % (rel, name))
    return v


def item_cal_products(repo, out):
    types = _string_tuple(repo, 'katdal/applycal.py', 'CAL_PRODUCT_TYPES')
    default = _string_tuple(repo, 'katdal/visdatav4.py', 'DEFAULT_CAL_PRODUCTS')
    out.append('(* katdal/applycal.py CAL_PRODUCT_TYPES, katdal/visdatav4.py DEFAULT_CAL_PRODUCTS *)')
    out.append('Definition cal_product_types : list string := %s.' % coq_strings(types))
    out.append('Definition default_cal_products : list string := %s.' % coq_strings(default))


ITEMS = [item_cal_products]


# ---------------------------------------------------------------------------
# decision expressions of applycal.py / visdatav4.py that the model is built on (fail-closed on any other shape)
import ast   # noqa: E402

from vh.translate import coq_string   # noqa: E402


def _norm(node):
    return ast.unparse(node).replace(' ', '').replace('\n', '')


def _top_func(tree, name, rel):
    found = [n for n in tree.body if isinstance(n, ast.FunctionDef) and n.name == name]
    if len(found) != 1:
        raise TranslateError('%s: expected exactly one function %s' % (rel, name))
    return found[0]


def _coq_bool(b):
    return 'true' if b else 'false'


def _interp_call(fn, rel, args):
    """the one complex_interp(...) call of fn: positional arguments must be `args`; returns (left, right) where each is
    True (INVALID_GAIN passed) or False (argument absent = np.interp holds the end value)"""
    calls = [n for n in ast.walk(fn) if isinstance(n, ast.Call) and isinstance(n.func, ast.Name)
             and n.func.id == 'complex_interp']
    if len(calls) != 1:
        raise TranslateError('%s:%s: expected exactly one complex_interp call, found %d' % (rel, fn.name, len(calls)))
    c = calls[0]
    if [_norm(a) for a in c.args] != args:
        raise TranslateError('%s:%s: complex_interp arguments are %s, expected %s' % (
            rel, fn.name, [_norm(a) for a in c.args], args))
    edge = {'left': False, 'right': False}
    for kw in c.keywords:
        if kw.arg not in edge or not (isinstance(kw.value, ast.Name) and kw.value.id == 'INVALID_GAIN'):
            raise TranslateError('%s:%s: complex_interp keyword %s=%s not understood' % (
                rel, fn.name, kw.arg, _norm(kw.value)))
        edge[kw.arg] = True
    return edge['left'], edge['right']


def _assigned(fn, name, rel):
    found = [n for n in ast.walk(fn) if isinstance(n, ast.Assign) and len(n.targets) == 1
             and isinstance(n.targets[0], ast.Name) and n.targets[0].id == name]
    if len(found) != 1:
        raise TranslateError('%s:%s: expected exactly one assignment to %s, found %d' % (rel, fn.name, name, len(found)))
    return _norm(found[0].value)


def item_interp_edges(repo, out):
    """how calc_bandpass_correction / calc_gain_correction call complex_interp (what happens beyond the outermost
    valid node) and which solutions they call valid"""
    rel = 'katdal/applycal.py'
    tree = _parse(repo, rel)
    fn = _top_func(tree, 'calc_bandpass_correction', rel)
    bl, br = _interp_call(fn, rel, ['data_freqs', 'cal_freqs[valid]', 'bp[valid]'])
    if _assigned(fn, 'valid', rel) != 'np.isfinite(bp)':
        raise TranslateError('%s: calc_bandpass_correction valid mask is not np.isfinite(bp)' % rel)
    fn = _top_func(tree, 'calc_gain_correction', rel)
    gl, gr = _interp_call(fn, rel, ['dumps[on_target]', 'events[valid]', 'gains_per_chan[valid]'])
    valid = _assigned(fn, 'valid', rel)
    if valid == 'np.isfinite(gains_per_chan)&on_target[events]':
        on_target = True
    elif valid == 'np.isfinite(gains_per_chan)':
        on_target = False
    else:
        raise TranslateError('%s: calc_gain_correction valid mask %s not understood' % (rel, valid))
    if _assigned(fn, 'on_target', rel) != 'targets==target':
        raise TranslateError('%s: calc_gain_correction on_target is not (targets == target)' % rel)
    out.append('(* katdal/applycal.py: complex_interp(..., left=INVALID_GAIN, right=INVALID_GAIN) in '
               'calc_bandpass_correction, no left/right in calc_gain_correction; the valid masks *)')
    out.append('Definition bandpass_left_invalid : bool := %s.' % _coq_bool(bl))
    out.append('Definition bandpass_right_invalid : bool := %s.' % _coq_bool(br))
    out.append('Definition gain_left_invalid : bool := %s.' % _coq_bool(gl))
    out.append('Definition gain_right_invalid : bool := %s.' % _coq_bool(gr))
    out.append('Definition gain_valid_needs_on_target : bool := %s.' % _coq_bool(on_target))


_DISPATCH_BODIES = {
    ('correction_sensor=calc_delay_correction(product_sensor,index,data_freqs)',): (0, False, False),
    ('correction_sensor=calc_bandpass_correction(product_sensor,index,data_freqs,cal_freqs)',): (1, False, False),
    ('correction_sensor=calc_gain_correction(product_sensor,index)',): (2, False, False),
    ('correction_sensor=calc_gain_correction(product_sensor,index,targets)',): (2, False, True),
    ('product_sensor=calibrate_flux(product_sensor,targets,gaincal_flux)',
     'correction_sensor=calc_gain_correction(product_sensor,index)'): (2, True, False),
    ('product_sensor=calibrate_flux(product_sensor,targets,gaincal_flux)',
     'correction_sensor=calc_gain_correction(product_sensor,index,targets)'): (2, True, True),
}


def item_cal_dispatch(repo, out):
    """calc_correction_per_input: product type -> (calculator, flux calibrated first?, interpolated per target?)"""
    rel = 'katdal/applycal.py'
    tree = _parse(repo, rel)
    outer = _top_func(tree, 'add_applycal_sensors', rel)
    inner = [n for n in outer.body if isinstance(n, ast.FunctionDef) and n.name == 'calc_correction_per_input']
    if len(inner) != 1:
        raise TranslateError('%s: calc_correction_per_input not found in add_applycal_sensors' % rel)
    fn = inner[0]
    first = [_norm(s) for s in fn.body if isinstance(s, ast.Assign)][:1]
    if first != ['product_sensor=get_cal_product(cache,cal_stream,product_type)']:
        raise TranslateError('%s: calc_correction_per_input does not start from get_cal_product(cache, cal_stream, '
                             'product_type)' % rel)
    chains = [s for s in fn.body if isinstance(s, ast.If)]
    if len(chains) != 1:
        raise TranslateError('%s: calc_correction_per_input: expected one if/elif chain on product_type' % rel)
    node, table = chains[0], []
    while True:
        t = node.test
        if not (isinstance(t, ast.Compare) and isinstance(t.left, ast.Name) and t.left.id == 'product_type'
                and len(t.ops) == 1 and len(t.comparators) == 1):
            raise TranslateError('%s: dispatch test %s not understood' % (rel, _norm(t)))
        if isinstance(t.ops[0], ast.Eq) and isinstance(t.comparators[0], ast.Constant):
            types = (t.comparators[0].value,)
        elif isinstance(t.ops[0], ast.In) and isinstance(t.comparators[0], (ast.Tuple, ast.List)):
            types = tuple(e.value if isinstance(e, ast.Constant) else None for e in t.comparators[0].elts)
        else:
            raise TranslateError('%s: dispatch test %s not understood' % (rel, _norm(t)))
        if not types or not all(isinstance(x, str) and x for x in types):
            raise TranslateError('%s: dispatch test %s not understood' % (rel, _norm(t)))
        body = tuple(_norm(s) for s in node.body)
        if body not in _DISPATCH_BODIES:
            raise TranslateError('%s: dispatch branch for %s not understood: %s' % (rel, types, body))
        for x in types:
            if x in [n for n, _ in table]:
                raise TranslateError('%s: product type %s dispatched twice' % (rel, x))
            table.append((x, _DISPATCH_BODIES[body]))
        if len(node.orelse) == 1 and isinstance(node.orelse[0], ast.If):
            node = node.orelse[0]
            continue
        last = node.orelse
        if not (len(last) == 1 and isinstance(last[0], ast.Raise) and isinstance(last[0].exc, ast.Call)
                and _norm(last[0].exc.func) == 'KeyError'):
            raise TranslateError('%s: unknown product types do not raise KeyError' % rel)
        break
    tail = [_norm(s) for s in fn.body[fn.body.index(chains[0]) + 1:]]
    if tail != ['cache[name]=correction_sensor', 'returncorrection_sensor']:
        raise TranslateError('%s: calc_correction_per_input tail is %s' % (rel, tail))
    out.append('(* katdal/applycal.py calc_correction_per_input: type -> (0 delay | 1 bandpass | 2 gain, '
               '(calibrate_flux first, interpolate per target)) *)')
    out.append('Definition cal_dispatch : list (string * (Z * (bool * bool))) := [%s].' % '; '.join(
        '(%s, ((%d)%%Z, (%s, %s)))' % (coq_string(n), k, _coq_bool(f), _coq_bool(t)) for n, (k, f, t) in table))


def item_skip_rule(repo, out):
    """_normalise_cal_products: skip_missing_products = products in (<groups>) or any('.' not in p for p in requested),
    requested = _selection_to_list(products, all=cal_streams, default=DEFAULT_CAL_PRODUCTS)"""
    rel = 'katdal/visdatav4.py'
    tree = _parse(repo, rel)
    fn = _top_func(tree, '_normalise_cal_products', rel)
    if [a.arg for a in fn.args.args] != ['products', 'cal_streams']:
        raise TranslateError('%s: _normalise_cal_products signature changed' % rel)
    req = _assigned(fn, 'requested_cal_products', rel)
    if req != '_selection_to_list(products,all=cal_streams,default=DEFAULT_CAL_PRODUCTS)':
        raise TranslateError('%s: requested_cal_products = %s' % (rel, req))
    found = [n for n in ast.walk(fn) if isinstance(n, ast.Assign) and len(n.targets) == 1
             and isinstance(n.targets[0], ast.Name) and n.targets[0].id == 'skip_missing_products']
    if len(found) != 1:
        raise TranslateError('%s: expected one assignment to skip_missing_products' % rel)
    v = found[0].value
    ok = (isinstance(v, ast.BoolOp) and isinstance(v.op, ast.Or) and len(v.values) == 2
          and isinstance(v.values[0], ast.Compare) and _norm(v.values[0].left) == 'products'
          and len(v.values[0].ops) == 1 and isinstance(v.values[0].ops[0], ast.In)
          and isinstance(v.values[0].comparators[0], (ast.Tuple, ast.List))
          and _norm(v.values[1]) == "any(('.'notinproductforproductinrequested_cal_products))")
    if not ok:
        raise TranslateError('%s: skip_missing_products = %s not understood' % (rel, _norm(v)))
    groups = [e.value if isinstance(e, ast.Constant) else None for e in v.values[0].comparators[0].elts]
    if not all(isinstance(g, str) and g for g in groups):
        raise TranslateError('%s: skip groups %s' % (rel, groups))
    if _norm(fn.body[-1]) != 'return(normalised_cal_products,skip_missing_products)':
        raise TranslateError('%s: _normalise_cal_products returns %s' % (rel, _norm(fn.body[-1])))
    out.append('(* katdal/visdatav4.py _normalise_cal_products: requests that always skip missing products *)')
    out.append('Definition skip_group_names : list string := %s.' % coq_strings(groups))


def item_product_loop(repo, out):
    """calc_correction: the shape of the loop that decides which products are applied (Model/CalSelect.v `select`)"""
    rel = 'katdal/applycal.py'
    tree = _parse(repo, rel)
    fn = _top_func(tree, 'calc_correction', rel)
    loops = [s for s in fn.body if isinstance(s, ast.For) and _norm(s.iter) == 'cal_products'
             and _norm(s.target) == 'cal_product']
    if len(loops) != 1:
        raise TranslateError('%s: calc_correction: expected one `for cal_product in cal_products` loop' % rel)
    inner = [s for s in loops[0].body if isinstance(s, ast.For)]
    if len(inner) != 1 or _norm(inner[0].iter) not in ('enumerate(inputs)', 'inputs'):
        raise TranslateError('%s: calc_correction: expected one inner loop over the inputs' % rel)
    inner = inner[0]
    tries = [s for s in inner.body if isinstance(s, ast.Try)]
    if not (len(tries) == 1 and inner.body[0] is tries[0]
            and [_norm(s) for s in tries[0].body] == ['sensor=cache.get(sensor_prefix+inp)']
            and len(tries[0].handlers) == 1 and _norm(tries[0].handlers[0].type) == 'KeyError'
            and not tries[0].orelse and not tries[0].finalbody):
        raise TranslateError('%s: calc_correction: the sensor lookup is not `try: sensor = cache.get(sensor_prefix '
                             '+ inp) except KeyError:` at the top of the input loop' % rel)
    h = tries[0].handlers[0].body
    if not (len(h) == 1 and isinstance(h[0], ast.If) and _norm(h[0].test) == 'skip_missing_products'
            and [_norm(s) for s in h[0].body] == ['break'] and [_norm(s) for s in h[0].orelse] == ['raise']):
        raise TranslateError('%s: calc_correction: a missing sensor is not handled by `if skip_missing_products: '
                             'break (out of the INPUT loop) else: raise`' % rel)
    if any(isinstance(n, (ast.Break, ast.Continue, ast.Return)) for s in inner.body[1:] for n in ast.walk(s)):
        raise TranslateError('%s: calc_correction: extra break / continue / return in the input loop' % rel)
    if not (inner.orelse and _norm(inner.orelse[0]) == 'corrections[cal_product]=corrections_per_product'):
        raise TranslateError('%s: calc_correction: the product is not registered in the `else:` of the input loop' % rel)
    if any(isinstance(n, (ast.Break, ast.Continue, ast.Return)) for s in inner.orelse for n in ast.walk(s)
           if not isinstance(n, ast.Lambda)):
        raise TranslateError('%s: calc_correction: break / continue / return while registering a product' % rel)
    if any(isinstance(n, (ast.Break, ast.Continue, ast.Return)) for s in loops[0].body if s is not inner
           for n in ast.walk(s)):
        raise TranslateError('%s: calc_correction: break / continue / return in the product loop' % rel)
    if _assigned(fn, 'final_cal_products', rel) != 'list(corrections.keys())':
        raise TranslateError('%s: calc_correction: final_cal_products is not list(corrections.keys())' % rel)
    if _assigned(fn, 'corrections', rel) != '{}':
        raise TranslateError('%s: calc_correction: corrections is not an (insertion-ordered) dict' % rel)
    out.append('(* katdal/applycal.py calc_correction: product loop has the shape modelled by Model/CalSelect.v select *)')
    out.append('Definition product_loop_shape_checked : bool := true.')


ITEMS += [item_interp_edges, item_cal_dispatch, item_skip_rule, item_product_loop]


# ---------------------------------------------------------------------------
# stream discovery: VisibilityDataV4._register_standard_cal_streams (Model/CalSelect.v `discover` / `registered`)
_DISCOVERY_TEMPLATE = '''
def _register_standard_cal_streams(self, gaincal_flux):
    attrs = self.source.metadata.attrs
    l1_stream = ''
    l2_streams = []
    archived_streams = attrs.get('sdp_archived_streams', [])
    for stream in archived_streams:
        stream_attrs = _relative_view(attrs, stream)
        stream_type = stream_attrs.get('stream_type')
        if %(g1)sstream_type == %(cal)r:
            l1_stream = stream
        %(second)s %(g2)sstream_type == %(img)r:
            targets = stream_attrs.get('targets', {})
            l2_streams = [attrs.join(stream, target + %(suffix)r) for target in targets.values()]
    if not l1_stream:
        l1_stream = %(default)r
    freqs = self.spectral_windows[0].channel_freqs
    cal_freqs = {}
    l1_attrs = _relative_view(attrs, l1_stream)
    l1_freqs = add_applycal_sensors(self.sensor, l1_attrs, freqs, cal_stream='l1',
                                    cal_substreams=[l1_stream], gaincal_flux=gaincal_flux)
    if l1_freqs is not None:
        cal_freqs['l1'] = l1_freqs
    if l2_streams:
        l2_attrs = _relative_view(attrs, l2_streams[0])
        l2_freqs = add_applycal_sensors(self.sensor, l2_attrs, freqs, cal_stream='l2',
                                        cal_substreams=l2_streams, gaincal_flux=None)
        if l2_freqs is not None:
            cal_freqs['l2'] = l2_freqs
    return cal_freqs
'''


def _type_test(test, guard_name, rel):
    """`[not <guard_name> and] stream_type == '<type>'` -> (guarded?, type)"""
    guarded = False
    if isinstance(test, ast.BoolOp) and isinstance(test.op, ast.And) and len(test.values) == 2:
        # both conjuncts are free of effects: `<type test> and not <guard>` is put into the template's order
        if isinstance(test.values[0], ast.Compare) and isinstance(test.values[1], ast.UnaryOp):
            test.values.reverse()
        g, test = test.values
        if not (isinstance(g, ast.UnaryOp) and isinstance(g.op, ast.Not) and isinstance(g.operand, ast.Name)
                and g.operand.id == guard_name):
            raise TranslateError('%s: stream discovery: guard %s not understood (expected `not %s`)' % (
                rel, _norm(g), guard_name))
        guarded = True
    if not (isinstance(test, ast.Compare) and isinstance(test.left, ast.Name) and test.left.id == 'stream_type'
            and len(test.ops) == 1 and isinstance(test.ops[0], ast.Eq) and isinstance(test.comparators[0], ast.Constant)
            and isinstance(test.comparators[0].value, str) and test.comparators[0].value):
        raise TranslateError('%s: stream discovery: test %s not understood' % (rel, _norm(test)))
    return guarded, test.comparators[0].value


def item_stream_discovery(repo, out):
    """_register_standard_cal_streams: the decisions of the walk over sdp_archived_streams (which stream types count, is
    the FIRST sdp.cal stream kept, is an imager WITHOUT self-cal targets passed over, the default L1 stream, the
    substream suffix); everything else of the method must be the template above, compared in the translator's normal
    form (docstrings, comments, logging, message texts do not matter)"""
    from vh.translate import _class, _func, normalise_source
    rel = 'katdal/visdatav4.py'
    tree = _parse(repo, rel)
    fn = _func(_class(tree, 'VisibilityDataV4', rel), '_register_standard_cal_streams', rel)
    loops = [s for s in fn.body if isinstance(s, ast.For)]
    if len(loops) != 1 or _norm(loops[0].iter) != 'archived_streams' or _norm(loops[0].target) != 'stream':
        raise TranslateError('%s: _register_standard_cal_streams: expected one `for stream in archived_streams` loop '
                             '(stream discovery is modelled as ONE walk over the archived streams)' % rel)
    ifs = [s for s in loops[0].body if isinstance(s, ast.If)]
    if len(ifs) == 1 and len(ifs[0].orelse) == 1 and isinstance(ifs[0].orelse[0], ast.If) and not ifs[0].orelse[0].orelse:
        first, second, form = ifs[0], ifs[0].orelse[0], 'elif'
    elif len(ifs) == 2 and not ifs[0].orelse and not ifs[1].orelse:
        first, second, form = ifs[0], ifs[1], 'if'
    else:
        raise TranslateError('%s: _register_standard_cal_streams: the loop body is not `if <cal test>: .. elif <imager '
                             'test>: ..`' % rel)
    g1, cal = _type_test(first.test, 'l1_stream', rel)
    g2, img = _type_test(second.test, 'l2_streams', rel)
    if cal == img:
        raise TranslateError('%s: stream discovery: L1 and L2 use the same stream type %r' % (rel, cal))
    suffix = [n.right.value for n in ast.walk(second) if isinstance(n, ast.BinOp) and isinstance(n.op, ast.Add)
              and isinstance(n.left, ast.Name) and n.left.id == 'target' and isinstance(n.right, ast.Constant)
              and isinstance(n.right.value, str)]
    tail = [s for s in fn.body[fn.body.index(loops[0]) + 1:] if isinstance(s, ast.If)]
    default = [s.value.value for s in (tail[0].body if tail else []) if isinstance(s, ast.Assign)
               and isinstance(s.value, ast.Constant) and isinstance(s.value.value, str)]
    if len(suffix) != 1 or len(default) != 1 or not default[0]:
        raise TranslateError('%s: stream discovery: substream suffix / default L1 stream not found' % rel)
    want = normalise_source(_DISCOVERY_TEMPLATE % dict(
        g1='not l1_stream and ' if g1 else '', g2='not l2_streams and ' if g2 else '', cal=cal, img=img,
        second=form, suffix=suffix[0], default=default[0])).strip().split('\n')
    got = ast.unparse(ast.FunctionDef(name=fn.name, args=fn.args, body=fn.body, decorator_list=[], returns=None,
                                      type_comment=None, lineno=0, col_offset=0)).strip().split('\n')
    if got != want:
        k = next((i for i, (a, b) in enumerate(zip(got, want)) if a != b), min(len(got), len(want)))
        raise TranslateError('%s: _register_standard_cal_streams differs from the modelled method at statement line %d: '
                             'found %r, modelled %r' % (rel, k, got[k].strip() if k < len(got) else '<end>',
                                                        want[k].strip() if k < len(want) else '<end>'))
    out.append('(* katdal/visdatav4.py _register_standard_cal_streams: the walk over sdp_archived_streams *)')
    out.append('Definition disc_cal_type : string := %s.' % coq_string(cal))
    out.append('Definition disc_image_type : string := %s.' % coq_string(img))
    out.append('Definition disc_l1_default : string := %s.' % coq_string(default[0]))
    out.append('Definition disc_selfcal_suffix : string := %s.' % coq_string(suffix[0]))
    out.append('(* `not l1_stream and ..`: the first sdp.cal stream is kept; `not l2_streams and ..`: an imager is '
               'taken only while no self-cal substream has been found, i.e. one without targets is passed over *)')
    out.append('Definition disc_l1_guarded : bool := %s.' % _coq_bool(g1))
    out.append('Definition disc_l2_guarded : bool := %s.' % _coq_bool(g2))


ITEMS += [item_stream_discovery]


# ---------------------------------------------------------------------------
# fourth round: sensor properties of the cal products, flux table merge, multi-part products, request parsing.
# Whole functions are compared with templates IN THE TRANSLATOR'S NORMAL FORM (docstrings, comments, logging calls and
# exception message texts do not matter); the decisions the model reads are extracted first and rendered into the template.
def _unparse_fn(fn):
    return ast.unparse(ast.FunctionDef(name=fn.name, args=fn.args, body=fn.body, decorator_list=[], returns=None,
                                       type_comment=None, lineno=0, col_offset=0)).strip().split('\n')


def _compare_fn(fn, template, rel, what):
    from vh.translate import normalise_source
    want = normalise_source(template).strip().split('\n')
    got = _unparse_fn(fn)
    if got != want:
        k = next((i for i, (a, b) in enumerate(zip(got, want)) if a != b), min(len(got), len(want)))
        raise TranslateError('%s: %s differs from the modelled code at statement line %d: found %r, modelled %r' % (
            rel, what, k, got[k].strip() if k < len(got) else '<end>', want[k].strip() if k < len(want) else '<end>'))


def item_cal_sensor_props(repo, out):
    """visdatav4.SENSOR_PROPS: how 'Calibration/Products/<stream>/<type>' is turned into a categorical sensor -
    which types start from the INVALID_GAIN placeholder (initial_value) and keep repeated solutions (allow_repeats)"""
    rel = 'katdal/visdatav4.py'
    tree = _parse(repo, rel)
    types = _string_tuple(repo, 'katdal/applycal.py', 'CAL_PRODUCT_TYPES')
    if _norm(_module_assign(tree, 'SENSOR_PROPS', rel)) != 'dict(DEFAULT_SENSOR_PROPS)':
        raise TranslateError('%s: SENSOR_PROPS is not dict(DEFAULT_SENSOR_PROPS)' % rel)
    ups = [n.value for n in tree.body if isinstance(n, ast.Expr) and isinstance(n.value, ast.Call)
           and _norm(n.value.func) == 'SENSOR_PROPS.update']
    others = [n for n in ast.walk(tree) if isinstance(n, (ast.Subscript, ast.Attribute)) and isinstance(n.value, ast.Name)
              and n.value.id == 'SENSOR_PROPS' and isinstance(getattr(n, 'ctx', None), (ast.Store, ast.Del))]
    if len(ups) != 1 or others or len(ups[0].args) != 1 or not isinstance(ups[0].args[0], ast.Dict) or ups[0].keywords:
        raise TranslateError('%s: SENSOR_PROPS is not built by exactly one SENSOR_PROPS.update({...})' % rel)
    d = ups[0].args[0]
    table = {}
    for k, v in zip(d.keys, d.values):
        if not (isinstance(k, ast.Constant) and isinstance(k.value, str)):
            raise TranslateError('%s: SENSOR_PROPS key %s is not a string' % (rel, _norm(k)))
        table[k.value] = v
    # the default props of dataset.py must not touch cal products
    dtree = _parse(repo, 'katdal/dataset.py')
    dd = _module_assign(dtree, 'DEFAULT_SENSOR_PROPS', 'katdal/dataset.py')
    dkeys = [k.value for k in dd.keys if isinstance(k, ast.Constant)] if isinstance(dd, ast.Dict) else None
    if dkeys is None or len(dkeys) != len(dd.keys):
        raise TranslateError('katdal/dataset.py: DEFAULT_SENSOR_PROPS is not a dict with string keys')
    import re as _re
    init, repeats = [], []
    for t in types:
        names = ['Calibration/Products/l1/' + t, 'cal_product_' + t]
        seen = []
        for name in names:
            hits = [k for k in list(table) + dkeys
                    if k == name or ('*' in k and _re.match('^' + '.*'.join(_re.escape(p) for p in k.split('*')) + '$', name))]
            if any(k in dkeys for k in hits) or len(hits) > 1:
                raise TranslateError('%s: several sensor property entries match %s: %s' % (rel, name, hits))
            props = {}
            if hits:
                v = table[hits[0]]
                if not isinstance(v, ast.Dict):
                    raise TranslateError('%s: SENSOR_PROPS[%r] is not a dict display' % (rel, hits[0]))
                for pk, pv in zip(v.keys, v.values):
                    key = pk.value if isinstance(pk, ast.Constant) else None
                    if key == 'initial_value' and isinstance(pv, ast.Name) and pv.id == 'INVALID_GAIN':
                        props['init'] = True
                    elif key == 'allow_repeats' and isinstance(pv, ast.Constant) and isinstance(pv.value, bool):
                        props['repeats'] = pv.value
                    else:
                        raise TranslateError('%s: SENSOR_PROPS[%r]: property %s=%s not understood for a cal product '
                                             '(only initial_value=INVALID_GAIN and allow_repeats=<bool> are modelled)' % (
                                                 rel, hits[0], _norm(pk), _norm(pv)))
            seen.append((props.get('init', False), props.get('repeats', False)))
        if seen[0] != seen[1]:
            raise TranslateError('%s: the raw sensor *_product_%s and Calibration/Products/*/%s have different '
                                 'properties' % (rel, t, t))
        if seen[0][0]:
            init.append(t)
        if seen[0][1]:
            repeats.append(t)
    if _norm(_module_assign(_parse(repo, 'katdal/applycal.py'), 'INVALID_GAIN', 'katdal/applycal.py')) != \
            'np.complex64(complex(np.nan,np.nan))':
        raise TranslateError('katdal/applycal.py: INVALID_GAIN is not np.complex64(complex(nan, nan))')
    out.append('(* katdal/visdatav4.py SENSOR_PROPS: cal product types whose categorical sensor starts from the INVALID_GAIN '
               'placeholder / keeps repeated solutions *)')
    out.append('Definition cal_initial_invalid : list string := %s.' % coq_strings(init))
    out.append('Definition cal_allow_repeats : list string := %s.' % coq_strings(repeats))


_FLUX_MERGE = {
    ('measured_flux=attrs.get(\'measured_flux\',{}).copy()', 'measured_flux.update(gaincal_flux)',
     'gaincal_flux=measured_flux'): True,
}

_CALIBRATE_FLUX_TEMPLATE = '''
def calibrate_flux(sensor, targets, gaincal_flux):
    if not gaincal_flux:
        return sensor
    calibrated_gains = []
    for segment, gains in sensor.segments():
        if gains is INVALID_GAIN:
            calibrated_gains.append(ComparableArrayWrapper(gains))
            continue
        target = targets[segment.start]
        for name in [target.name] + target.aliases:
            flux = gaincal_flux.get(name, np.nan)
            if flux > 0.0:
                calibrated_gains.append(ComparableArrayWrapper(gains / np.sqrt(flux)))
                break
        else:
            calibrated_gains.append(ComparableArrayWrapper(gains))
    return CategoricalData(calibrated_gains, sensor.events)
'''


def item_flux_merge(repo, out):
    """add_applycal_sensors: `gaincal_flux is None` disables flux calibration, otherwise the user's table UPDATES a copy
    of the pipeline's measured_flux (a partial override keeps the other calibrators); calibrate_flux as modelled"""
    rel = 'katdal/applycal.py'
    tree = _parse(repo, rel)
    outer = _top_func(tree, 'add_applycal_sensors', rel)
    defaults = dict(zip([a.arg for a in outer.args.args][-len(outer.args.defaults):], outer.args.defaults))
    if [a.arg for a in outer.args.args] != ['cache', 'attrs', 'data_freqs', 'cal_stream', 'cal_substreams', 'gaincal_flux'] \
            or _norm(defaults['gaincal_flux']) != '{}' or _norm(defaults['cal_substreams']) != 'None':
        raise TranslateError('%s: add_applycal_sensors signature / defaults changed' % rel)
    ifs = [s for s in outer.body if isinstance(s, ast.If) and _norm(s.test) == 'gaincal_fluxisNone']
    touching = [s for s in outer.body if not isinstance(s, ast.FunctionDef) and any(
        isinstance(n, ast.Name) and n.id in ('gaincal_flux', 'measured_flux') and isinstance(n.ctx, ast.Store)
        for n in ast.walk(s))]
    if len(ifs) != 1 or touching != ifs:
        raise TranslateError('%s: add_applycal_sensors: the flux table is not prepared by exactly one '
                             '`if gaincal_flux is None: .. else: ..`' % rel)
    if [_norm(s) for s in ifs[0].body] != ['gaincal_flux={}']:
        raise TranslateError('%s: gaincal_flux=None does not disable flux calibration (gaincal_flux = {})' % rel)
    key = tuple(_norm(s) for s in ifs[0].orelse)
    if key not in _FLUX_MERGE:
        raise TranslateError('%s: flux table merge not understood: %s' % (rel, list(key)))
    _compare_fn(_top_func(tree, 'calibrate_flux', rel), _CALIBRATE_FLUX_TEMPLATE, rel, 'calibrate_flux')
    out.append('(* katdal/applycal.py add_applycal_sensors: measured_flux.copy().update(gaincal_flux); None -> {} *)')
    out.append('Definition flux_none_disables : bool := true.')
    out.append('Definition flux_override_wins : bool := %s.' % _coq_bool(_FLUX_MERGE[key]))


_RAW_TEMPLATE = '''
def indirect_cal_product_raw(cache, name, product_type):
    product_str = '_product_' + product_type
    raw_products = []
    for stream in cal_substreams:
        sensor_name = stream + product_str
        raw_product = cache.get(sensor_name, extract=False)
        assert isinstance(raw_product, SensorGetter), sensor_name + ' is already extracted'
        raw_products.append(raw_product)
    if len(raw_products) == 1:
        return raw_products[0]
    else:
        raw_products = [raw.get() for raw in raw_products]
        timestamps = np.concatenate([raw_product.timestamp for raw_product in raw_products])
        values = np.concatenate([raw_product.value for raw_product in raw_products])
        ordered = timestamps.argsort()
        timestamps = timestamps[ordered]
        values = values[ordered]
        return SimpleSensorGetter(indirect_cal_product_name(name, product_type), timestamps, values)
'''

_PARTS_TEMPLATE = '''
def indirect_cal_product(cache, name, product_type):
    try:
        n_parts = int(attrs[f'product_{product_type}_parts'])
    except KeyError:
        return indirect_cal_product_raw(cache, name, product_type)
    parts = []
    for n in range(n_parts):
        try:
            part = indirect_cal_product_raw(cache, name + str(n), product_type + str(n))
        except KeyError:
            part = SimpleSensorGetter(name + str(n), np.array([]), np.array([]))
        parts.append(part)
    parts = [part.get() for part in parts]
    timestamps = []
    values = []
    part_indices = [0] * n_parts
    part_timestamps = [part.timestamp[0] if len(part.timestamp) else np.inf for part in parts]
    while True:
        next_timestamp = min(part_timestamps)
        if next_timestamp == np.inf:
            break
        pieces = []
        for ts, ind, part in zip(part_timestamps, part_indices, parts):
            if ts == next_timestamp:
                piece = ComparableArrayWrapper.unwrap(part.value[ind])
                pieces.append(piece)
            else:
                pieces.append(None)
        if any(piece is None for piece in pieces):
            invalid = np.full_like(piece, INVALID_GAIN)
            pieces = [piece if piece is not None else invalid for piece in pieces]
        timestamps.append(next_timestamp)
        value = np.concatenate(pieces, axis=0)
        values.append(ComparableArrayWrapper(value))
        for i, part in enumerate(parts):
            if part_timestamps[i] == next_timestamp:
                ts = part.timestamp
                part_indices[i] += 1
                part_timestamps[i] = ts[part_indices[i]] if part_indices[i] < len(ts) else np.inf
    if not timestamps:
        raise KeyError(f"No cal product '{name}' parts found (expected {n_parts})")
    return SimpleSensorGetter(indirect_cal_product_name(name, product_type), np.array(timestamps), np.array(values))
'''


def _inner_func(outer, name, rel):
    found = [n for n in outer.body if isinstance(n, ast.FunctionDef) and n.name == name]
    if len(found) != 1:
        raise TranslateError('%s: %s not found in %s' % (rel, name, outer.name))
    return found[0]


def item_parts(repo, out):
    """indirect_cal_product / indirect_cal_product_raw: a product with the attribute product_<type>_parts = n is read from
    the n sensors <substream>_product_<type><i>, i = 0 .. n-1 (ALSO for n = 1), one without from <substream>_product_<type>"""
    rel = 'katdal/applycal.py'
    tree = _parse(repo, rel)
    outer = _top_func(tree, 'add_applycal_sensors', rel)
    _compare_fn(_inner_func(outer, 'indirect_cal_product_raw', rel), _RAW_TEMPLATE, rel, 'indirect_cal_product_raw')
    _compare_fn(_inner_func(outer, 'indirect_cal_product', rel), _PARTS_TEMPLATE, rel, 'indirect_cal_product')
    regs = [_norm(s) for s in outer.body if isinstance(s, ast.Assign) and 'cache.virtual' in _norm(s)]
    if regs != ['cache.virtual[template]=indirect_cal_product', 'cache.virtual[template]=calc_correction_per_input']:
        raise TranslateError('%s: add_applycal_sensors registers %s' % (rel, regs))
    out.append('(* katdal/applycal.py indirect_cal_product: parts are numbered from 0 and suffixed to the product type; the '
               'unsuffixed sensor is read only when there is no product_<type>_parts attribute *)')
    out.append('Definition parts_first_index : nat := 0%nat.')
    out.append('Definition parts_shape_checked : bool := true.')


_NORMALISE_TEMPLATE = '''
def _normalise_cal_products(products, cal_streams):
    requested_cal_products = _selection_to_list(products, all=cal_streams, default=DEFAULT_CAL_PRODUCTS)
    skip_missing_products = products in %(groups)s or any(('.' not in product for product in requested_cal_products))
    normalised_cal_products = []
    for product in requested_cal_products:
        if '.' in product:
            normalised_cal_products.append(product)
        elif product in cal_streams:
            normalised_cal_products.extend(['.'.join((product, product_type)) for product_type in CAL_PRODUCT_TYPES])
        elif product in CAL_PRODUCT_TYPES:
            normalised_cal_products.extend(['.'.join((stream, product)) for stream in cal_streams])
        else:
            streams = ','.join(cal_streams)
            streams = f' (one of {streams})' if streams else ' (none found)'
            product_types = ','.join(CAL_PRODUCT_TYPES)
            raise ValueError(f"Unknown calibration product '{product}'")
    return (normalised_cal_products, skip_missing_products)
'''

_PARSE_TEMPLATE = '''
def _parse_cal_product(cal_product):
    fields = cal_product.%(split)s('.', 1)
    if len(fields) != 2:
        raise ValueError(f'not <cal_stream>.<product_type>')
    return (fields[0], fields[1])
'''

_SELECTION_TEMPLATE = '''
def _selection_to_list(names, **groups):
    if isinstance(names, str):
        if not names:
            return []
        elif names in groups:
            return list(groups[names])
        else:
            return [name.strip() for name in names.split(',')]
    elif is_iterable(names):
        return list(names)
    else:
        return [names]
'''


def item_request_parsing(repo, out):
    """_normalise_cal_products (whole function: exact membership tests in this order: dotted, stream, product type,
    else ValueError), dataset._selection_to_list, applycal._parse_cal_product (split at the LAST dot) and the two uses
    of its result in calc_correction"""
    rel = 'katdal/visdatav4.py'
    tree = _parse(repo, rel)
    fn = _top_func(tree, '_normalise_cal_products', rel)
    found = [n for n in ast.walk(fn) if isinstance(n, ast.Assign) and _norm(n.targets[0]) == 'skip_missing_products']
    groups = "('all', 'default')"
    if len(found) == 1 and isinstance(found[0].value, ast.BoolOp) and isinstance(found[0].value.values[0], ast.Compare):
        groups = ast.unparse(found[0].value.values[0].comparators[0])     # decision read by item_skip_rule
    _compare_fn(fn, _NORMALISE_TEMPLATE % dict(groups=groups), rel, '_normalise_cal_products')
    imports = [n for n in tree.body if isinstance(n, ast.ImportFrom) and any(a.name == '_selection_to_list' for a in n.names)]
    if len(imports) != 1 or imports[0].module != 'dataset' or imports[0].level != 1:
        raise TranslateError('%s: _selection_to_list is not imported from .dataset' % rel)
    _compare_fn(_top_func(_parse(repo, 'katdal/dataset.py'), '_selection_to_list', 'katdal/dataset.py'),
                _SELECTION_TEMPLATE, 'katdal/dataset.py', '_selection_to_list')
    rel = 'katdal/applycal.py'
    atree = _parse(repo, rel)
    pf = _top_func(atree, '_parse_cal_product', rel)
    calls = [n for n in ast.walk(pf) if isinstance(n, ast.Call) and isinstance(n.func, ast.Attribute)
             and n.func.attr in ('split', 'rsplit')]
    if len(calls) != 1:
        raise TranslateError('%s: _parse_cal_product: expected one split / rsplit call' % rel)
    split = calls[0].func.attr
    _compare_fn(pf, _PARSE_TEMPLATE % dict(split=split), rel, '_parse_cal_product')
    cc = _top_func(atree, 'calc_correction', rel)
    loop = [s for s in cc.body if isinstance(s, ast.For) and _norm(s.target) == 'cal_product'][0]
    head = [_norm(s) for s in loop.body[:2]]
    if head != ['cal_stream,product_type=_parse_cal_product(cal_product)',
                "sensor_prefix=f'Calibration/Corrections/{cal_stream}/{product_type}/'"]:
        raise TranslateError('%s: calc_correction does not build the sensor name from _parse_cal_product: %s' % (rel, head))
    out.append('(* katdal/applycal.py _parse_cal_product: str.rsplit(".", 1) (true) or str.split(".", 1) (false); '
               '_normalise_cal_products / _selection_to_list compared with the modelled text *)')
    out.append('Definition parse_splits_at_last_dot : bool := %s.' % _coq_bool(split == 'rsplit'))
    out.append('Definition request_parsing_shape_checked : bool := true.')


ITEMS += [item_cal_sensor_props, item_flux_merge, item_parts, item_request_parsing]
