"""C14 translator items: the calibration product types katdal knows (applycal.CAL_PRODUCT_TYPES) and the products
applied by applycal='default' (visdatav4.DEFAULT_CAL_PRODUCTS).  Fail-closed on any other shape."""
from vh.translate import TranslateError, _parse, _module_assign, _const_eval, coq_strings


def _string_tuple(repo, rel, name):
    tree = _parse(repo, rel)
    v = _const_eval(_module_assign(tree, name, rel), {}, name)
    if not (isinstance(v, tuple) and v and all(isinstance(s, str) and s for s in v)):
        raise TranslateError('%s:%s is not a non-empty tuple of non-empty strings' % (rel, name))
    return v


def item_cal_products(repo, out):
    types = _string_tuple(repo, 'katdal/applycal.py', 'CAL_PRODUCT_TYPES')
    default = _string_tuple(repo, 'katdal/visdatav4.py', 'DEFAULT_CAL_PRODUCTS')
    out.append('(* katdal/applycal.py CAL_PRODUCT_TYPES, katdal/visdatav4.py DEFAULT_CAL_PRODUCTS *)')
    out.append('Definition cal_product_types : list string := %s.' % coq_strings(types))
    out.append('Definition default_cal_products : list string := %s.' % coq_strings(default))


ITEMS = [item_cal_products]
