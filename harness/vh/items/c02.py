"""Translator items for C02: the keyword tables and the reset skeleton of DataSet.select (katdal/dataset.py).

Everything is looked up by shape in the current source; any deviation raises TranslateError (broken tie).
Emitted into coq/Gen/Generated.v:
  sel_time_selectors / sel_freq_selectors / sel_corrprod_selectors / sel_other_kwargs : list string
  sel_valid_kwargs      := the concatenation written in the source (checked to be exactly that sum)
  sel_strict_default    : bool      (kwargs.get('strict', <default>))
  sel_noarg_reset, sel_default_reset : string   ('TFB' if not kwargs else kwargs.pop('reset', 'auto'))
  sel_auto_table        : list (string * list string)            letter appended when kwargs hit the group
  sel_clear_table       : list (string * (string * list string)) letter, mask attribute re-created, group popped
  sel_loop_table        : list (list string * string)            keys tested by each branch of the re-application
                                                                 loop and the attribute it `&=`s ("=attr": assigns)
"""
import ast

from vh.translate import TranslateError, _parse, _class, _func, coq_string, coq_strings, coq_Z
from vh.translate import parse_template      # templates in the same normal form as the parsed katdal files

REL = 'katdal/dataset.py'
GROUPS = ('time_selectors', 'freq_selectors', 'corrprod_selectors')


def _strlist(node, what):
    if not (isinstance(node, ast.List) and all(isinstance(e, ast.Constant) and isinstance(e.value, str) for e in node.elts)):
        raise TranslateError('%s: expected a list of string literals' % what)
    return [e.value for e in node.elts]


def _is_name(node, name):
    return isinstance(node, ast.Name) and node.id == name


def _self_attr(node):
    if isinstance(node, ast.Attribute) and _is_name(node.value, 'self'):
        return node.attr
    return None


def _flatten_add(node):
    if isinstance(node, ast.BinOp) and isinstance(node.op, ast.Add):
        return _flatten_add(node.left) + _flatten_add(node.right)
    return [node]


def _kw_hits(node):
    """set(kwargs.keys()).intersection(<group>) -> group name"""
    if (isinstance(node, ast.Call) and isinstance(node.func, ast.Attribute) and node.func.attr == 'intersection'
            and len(node.args) == 1 and isinstance(node.args[0], ast.Name) and node.args[0].id in GROUPS):
        inner = node.func.value
        if (isinstance(inner, ast.Call) and _is_name(inner.func, 'set') and len(inner.args) == 1
                and isinstance(inner.args[0], ast.Call) and isinstance(inner.args[0].func, ast.Attribute)
                and inner.args[0].func.attr == 'keys' and _is_name(inner.args[0].func.value, 'kwargs')):
            return node.args[0].id
    raise TranslateError('select: auto-reset test has an unexpected shape: %s' % ast.dump(node)[:160])


def _auto_row(value):
    if not (isinstance(value, ast.IfExp) and isinstance(value.body, ast.Constant) and isinstance(value.body.value, str)
            and len(value.body.value) == 1 and isinstance(value.orelse, ast.Constant) and value.orelse.value == ''):
        raise TranslateError('select: auto-reset term has an unexpected shape')
    return value.body.value, _kw_hits(value.test)


def item_select_tables(repo, out):
    tree = _parse(repo, REL)
    fn = _func(_class(tree, 'DataSet', REL), 'select', REL)
    body = [n for n in fn.body if not (isinstance(n, ast.Expr) and isinstance(n.value, ast.Constant))]
    groups = {}
    other = None
    strict_default = None
    noarg = default_reset = None
    auto_rows = None
    clear_rows = []
    loop_rows = None
    pos = {}
    for i, n in enumerate(body):
        if isinstance(n, ast.Assign) and len(n.targets) == 1 and isinstance(n.targets[0], ast.Name):
            nm = n.targets[0].id
            if nm in GROUPS:
                if nm in groups:
                    raise TranslateError('select: %s assigned twice' % nm)
                groups[nm] = _strlist(n.value, nm)
            elif nm == 'valid_kwargs':
                parts = _flatten_add(n.value)
                if not (len(parts) == 4 and all(_is_name(p, g) for p, g in zip(parts[:3], GROUPS))):
                    raise TranslateError('select: valid_kwargs is not time + freq + corrprod selectors + [...]')
                other = _strlist(parts[3], 'valid_kwargs tail')
            elif nm == 'strict':
                v = n.value
                if not (isinstance(v, ast.Call) and isinstance(v.func, ast.Attribute) and v.func.attr == 'get'
                        and _is_name(v.func.value, 'kwargs') and len(v.args) == 2
                        and isinstance(v.args[0], ast.Constant) and v.args[0].value == 'strict'
                        and isinstance(v.args[1], ast.Constant) and isinstance(v.args[1].value, bool)):
                    raise TranslateError('select: strict = kwargs.get(\'strict\', <bool>) not found in that shape')
                strict_default = v.args[1].value
                pos['strict'] = i
            elif nm == 'reset':
                v = n.value
                if not (isinstance(v, ast.IfExp) and isinstance(v.test, ast.UnaryOp) and isinstance(v.test.op, ast.Not)
                        and _is_name(v.test.operand, 'kwargs') and isinstance(v.body, ast.Constant)
                        and isinstance(v.body.value, str) and isinstance(v.orelse, ast.Call)
                        and isinstance(v.orelse.func, ast.Attribute) and v.orelse.func.attr == 'pop'
                        and _is_name(v.orelse.func.value, 'kwargs') and len(v.orelse.args) == 2
                        and v.orelse.args[0].value == 'reset' and isinstance(v.orelse.args[1], ast.Constant)
                        and isinstance(v.orelse.args[1].value, str)):
                    raise TranslateError('select: reset = <s> if not kwargs else kwargs.pop(\'reset\', <s>) not found')
                noarg, default_reset = v.body.value, v.orelse.args[1].value
                pos['reset'] = i
        elif isinstance(n, ast.If):
            t = n.test
            # strict check
            if (isinstance(t, ast.BoolOp) and isinstance(t.op, ast.And) and len(t.values) == 2
                    and _is_name(t.values[0], 'strict')):
                d = t.values[1]
                ok = (isinstance(d, ast.BinOp) and isinstance(d.op, ast.Sub)
                      and ast.dump(d.left) == ast.dump(ast.parse('set(kwargs.keys())', mode='eval').body)
                      and ast.dump(d.right) == ast.dump(ast.parse('set(valid_kwargs)', mode='eval').body)
                      and len(n.body) == 1 and isinstance(n.body[0], ast.Raise)
                      and isinstance(n.body[0].exc, ast.Call) and _is_name(n.body[0].exc.func, 'TypeError')
                      and not n.orelse)
                if not ok:
                    raise TranslateError('select: strict check is not `if strict and set(kwargs.keys()) - '
                                         'set(valid_kwargs): raise TypeError(...)`')
                pos['strict_check'] = i
            # if reset == 'auto':
            elif (isinstance(t, ast.Compare) and _is_name(t.left, 'reset') and len(t.ops) == 1
                  and isinstance(t.ops[0], ast.Eq) and isinstance(t.comparators[0], ast.Constant)):
                if t.comparators[0].value != default_reset:
                    raise TranslateError('select: auto block does not test the default reset value')
                rows = []
                for j, st in enumerate(n.body):
                    if j == 0 and isinstance(st, ast.Assign) and _is_name(st.targets[0], 'reset'):
                        rows.append(_auto_row(st.value))
                    elif j > 0 and isinstance(st, ast.AugAssign) and isinstance(st.op, ast.Add) and _is_name(st.target, 'reset'):
                        rows.append(_auto_row(st.value))
                    else:
                        raise TranslateError('select: unexpected statement in the auto-reset block')
                if n.orelse:
                    raise TranslateError('select: auto-reset block has an else')
                auto_rows = rows
                pos['auto'] = i
            # if 'T' in reset:
            elif (isinstance(t, ast.Compare) and isinstance(t.left, ast.Constant) and isinstance(t.left.value, str)
                  and len(t.left.value) == 1 and len(t.ops) == 1 and isinstance(t.ops[0], ast.In)
                  and _is_name(t.comparators[0], 'reset')):
                letter = t.left.value
                attrs = []
                popped = []
                for st in n.body:
                    if isinstance(st, ast.Assign):
                        tg = st.targets[0]
                        a = _self_attr(tg.value) if isinstance(tg, ast.Subscript) else _self_attr(tg)
                        if a is None:
                            raise TranslateError('select: unexpected assignment in reset block %s' % letter)
                        if isinstance(tg, ast.Subscript):
                            if not (isinstance(st.value, ast.Constant) and st.value.value is True):
                                raise TranslateError('select: mask not reset to True in block %s' % letter)
                        else:
                            v = st.value
                            if not (isinstance(v, ast.Call) and isinstance(v.func, ast.Attribute) and v.func.attr == 'ones'):
                                raise TranslateError('select: mask not re-created with np.ones in block %s' % letter)
                        attrs.append(a)
                    elif isinstance(st, ast.AugAssign):
                        # the spw / subarray sensor masks ANDed onto the fresh time mask (single-window model)
                        if not (isinstance(st.op, ast.BitAnd) and _self_attr(st.target) in attrs):
                            raise TranslateError('select: unexpected augmented assignment in reset block %s' % letter)
                    elif isinstance(st, ast.For):
                        if not (_is_name(st.target, 'key') and isinstance(st.iter, ast.Name) and st.iter.id in GROUPS
                                and len(st.body) == 1
                                and ast.dump(st.body[0]) == ast.dump(ast.parse('self._selection.pop(key, None)').body[0])):
                            raise TranslateError('select: unexpected pop loop in reset block %s' % letter)
                        popped.append(st.iter.id)
                    else:
                        raise TranslateError('select: unexpected statement in reset block %s' % letter)
                if len(attrs) != 1 or len(popped) != 1 or n.orelse:
                    raise TranslateError('select: reset block %s must re-create one mask and pop one group' % letter)
                clear_rows.append((letter, attrs[0], popped[0]))
                pos.setdefault('clear', i)
        elif isinstance(n, ast.Expr) and ast.dump(n) == ast.dump(ast.parse('self._selection.update(kwargs)').body[0]):
            if 'update' in pos:
                raise TranslateError('select: two _selection.update calls')
            pos['update'] = i
        elif isinstance(n, ast.For) and ast.dump(n.iter) == ast.dump(ast.parse('self._selection.items()', mode='eval').body):
            if loop_rows is not None:
                raise TranslateError('select: two re-application loops')
            if not (isinstance(n.target, ast.Tuple) and [getattr(e, 'id', None) for e in n.target.elts] == ['k', 'v']
                    and len(n.body) == 1 and isinstance(n.body[0], ast.If)):
                raise TranslateError('select: re-application loop is not a single if/elif chain over (k, v)')
            loop_rows = []
            node = n.body[0]
            while True:
                t = node.test
                if (isinstance(t, ast.Compare) and _is_name(t.left, 'k') and len(t.ops) == 1):
                    if isinstance(t.ops[0], ast.Eq) and isinstance(t.comparators[0], ast.Constant):
                        keys = [t.comparators[0].value]
                    elif isinstance(t.ops[0], ast.In) and isinstance(t.comparators[0], (ast.Tuple, ast.List)):
                        keys = [e.value for e in t.comparators[0].elts]
                    else:
                        raise TranslateError('select: unexpected key test in loop')
                else:
                    raise TranslateError('select: unexpected key test in loop')
                anded = set()
                assigned = set()
                for sub in node.body:
                    for w in ast.walk(sub):
                        if isinstance(w, ast.AugAssign) and _self_attr(w.target):
                            if not isinstance(w.op, ast.BitAnd):
                                raise TranslateError('select: a branch combines a mask with something else than &=')
                            anded.add(_self_attr(w.target))
                        elif isinstance(w, ast.Assign) and any(_self_attr(tg) for tg in w.targets):
                            assigned |= {_self_attr(tg) for tg in w.targets}
                if len(anded) + len(assigned) != 1:
                    raise TranslateError('select: branch %s must update exactly one attribute' % keys)
                loop_rows.append((keys, list(anded)[0] if anded else '=' + list(assigned)[0]))
                if len(node.orelse) == 1 and isinstance(node.orelse[0], ast.If):
                    node = node.orelse[0]
                elif not node.orelse:
                    break
                else:
                    raise TranslateError('select: loop chain ends with an else branch')
            pos['loop'] = i
    missing = [g for g in GROUPS if g not in groups]
    if missing or other is None or strict_default is None or noarg is None or auto_rows is None \
            or len(clear_rows) == 0 or loop_rows is None or 'update' not in pos or 'strict_check' not in pos:
        raise TranslateError('select: construct(s) not found: groups=%s other=%s strict=%s reset=%s auto=%s clear=%d loop=%s'
                             % (missing, other is not None, strict_default, noarg, auto_rows is not None,
                                len(clear_rows), loop_rows is not None))
    order = ['strict', 'strict_check', 'reset', 'auto', 'clear', 'update', 'loop']
    if [pos[k] for k in order] != sorted(pos[k] for k in order):
        raise TranslateError('select: statements are not in the order strict check, reset, auto, clear, update, loop')
    for g in GROUPS:
        out.append('Definition sel_%s : list string := %s.' % (g, coq_strings(groups[g])))
    out.append('Definition sel_other_kwargs : list string := %s.' % coq_strings(other))
    out.append('Definition sel_valid_kwargs : list string := sel_time_selectors ++ sel_freq_selectors ++ '
               'sel_corrprod_selectors ++ sel_other_kwargs.')
    out.append('Definition sel_strict_default : bool := %s.' % ('true' if strict_default else 'false'))
    out.append('Definition sel_noarg_reset : string := %s.' % coq_string(noarg))
    out.append('Definition sel_default_reset : string := %s.' % coq_string(default_reset))
    out.append('Definition sel_auto_table : list (string * list string) := [%s].'
               % '; '.join('(%s, sel_%s)' % (coq_string(l), g) for l, g in auto_rows))
    out.append('Definition sel_clear_table : list (string * (string * list string)) := [%s].'
               % '; '.join('(%s, (%s, sel_%s))' % (coq_string(l), coq_string(a), g) for l, a, g in clear_rows))
    out.append('Definition sel_loop_table : list (list string * string) := [%s].'
               % '; '.join('(%s, %s)' % (coq_strings(ks), coq_string(a)) for ks, a in loop_rows))




# ---------------------------------------------------------------------------------------------------------------
# item_select_decisions: the decision code of DataSet.select outside the keyword tables - range checks of spw /
# subarray, what a change of spw / subarray resets, the time base mask, every branch of the re-application loop,
# the derivation of the public attributes, and the helpers _selection_to_list / _is_deselection.
#
# Each piece of code must match a TEMPLATE (Python source with holes) exactly, statement by statement; the holes
# bind constants and operators that are emitted into Generated.v and used by Model/SelectX.v and its theorems:
#   __K_name__                         any literal constant                      -> binds name to its value
#   __cmp__('name', a, b)              a <op> b, one comparison operator         -> binds name to the ast class name
#   __chain__('name', a, b, c)         a <op1> b <op2> c                         -> binds name to (op1, op2)
#   __bool__('name', a, b)             a and b / a or b                          -> 'And' / 'Or'
#   __bin__('name', a, b)              a + b, a - b, ...                         -> 'Add', 'Sub', ...
#   __ANY__                            any expression (used for exception messages only)

class _Holes(dict):
    def bind(self, name, value, where):
        if name in self and self[name] != value:
            raise TranslateError('%s: hole %s bound twice with different values' % (where, name))
        self[name] = value


def _hole_call(t):
    if isinstance(t, ast.Call) and isinstance(t.func, ast.Name) and t.func.id in ('__cmp__', '__chain__', '__bool__', '__bin__'):
        return t.func.id
    return None


def _unify(node, tmpl, holes, where):
    """Structural equality of two ast nodes up to the holes of the template."""
    if isinstance(tmpl, ast.Name) and tmpl.id == '__ANY__':
        if not isinstance(node, ast.expr):
            raise TranslateError('%s: expression expected' % where)
        return
    if isinstance(tmpl, ast.Name) and tmpl.id.startswith('__K_') and tmpl.id.endswith('__'):
        if not (isinstance(node, ast.Constant) and isinstance(node.value, (int, float, str, bool))):
            raise TranslateError('%s: literal constant expected for %s, found %s' % (where, tmpl.id, ast.dump(node)[:80]))
        holes.bind(tmpl.id[4:-2], node.value, where)
        return
    hc = _hole_call(tmpl)
    if hc:
        name = tmpl.args[0].value
        if hc == '__cmp__':
            if not (isinstance(node, ast.Compare) and len(node.ops) == 1):
                raise TranslateError('%s: single comparison expected for %s' % (where, name))
            holes.bind(name, type(node.ops[0]).__name__, where)
            _unify(node.left, tmpl.args[1], holes, where)
            _unify(node.comparators[0], tmpl.args[2], holes, where)
        elif hc == '__chain__':
            if not (isinstance(node, ast.Compare) and len(node.ops) == 2):
                raise TranslateError('%s: chained comparison expected for %s' % (where, name))
            holes.bind(name, (type(node.ops[0]).__name__, type(node.ops[1]).__name__), where)
            _unify(node.left, tmpl.args[1], holes, where)
            _unify(node.comparators[0], tmpl.args[2], holes, where)
            _unify(node.comparators[1], tmpl.args[3], holes, where)
        elif hc == '__bool__':
            if not (isinstance(node, ast.BoolOp) and len(node.values) == 2):
                raise TranslateError('%s: binary and / or expected for %s' % (where, name))
            holes.bind(name, type(node.op).__name__, where)
            _unify(node.values[0], tmpl.args[1], holes, where)
            _unify(node.values[1], tmpl.args[2], holes, where)
        else:
            if not isinstance(node, ast.BinOp):
                raise TranslateError('%s: binary operation expected for %s' % (where, name))
            holes.bind(name, type(node.op).__name__, where)
            _unify(node.left, tmpl.args[1], holes, where)
            _unify(node.right, tmpl.args[2], holes, where)
        return
    if type(node) is not type(tmpl):
        raise TranslateError('%s: expected %s, found %s (%s)' % (where, type(tmpl).__name__, type(node).__name__,
                                                                ast.dump(node)[:100] if isinstance(node, ast.AST) else node))
    if isinstance(tmpl, ast.AST):
        for f in tmpl._fields:
            if f in ('ctx', 'type_comment', 'kind'):
                continue
            _unify(getattr(node, f, None), getattr(tmpl, f, None), holes, '%s.%s' % (where, f))
    elif isinstance(tmpl, list):
        if len(node) != len(tmpl):
            raise TranslateError('%s: %d element(s) expected, found %d' % (where, len(tmpl), len(node)))
        for i, (a, b) in enumerate(zip(node, tmpl)):
            _unify(a, b, holes, '%s[%d]' % (where, i))
    elif node != tmpl:
        raise TranslateError('%s: expected %r, found %r' % (where, tmpl, node))


def _match_stmts(stmts, template_src, holes, where):
    import textwrap
    tmpl = parse_template(textwrap.dedent(template_src)).body
    _unify(list(stmts), tmpl, holes, where)


def _nodoc(body):
    return [n for n in body if not (isinstance(n, ast.Expr) and isinstance(n.value, ast.Constant)
                                    and isinstance(n.value.value, str))]


T_RANGE = """
kwargs['spw'] = spw = kwargs.get('spw', self.spw)
if not __chain__('spw_range', __K_spw_lo__, spw, len(self.spectral_windows)):
    raise IndexError(__ANY__)
kwargs['subarray'] = subarray = kwargs.get('subarray', self.subarray)
if not __chain__('sub_range', __K_sub_lo__, subarray, len(self.subarrays)):
    raise IndexError(__ANY__)
"""
T_CHANGE = """
if __cmp__('spw_change', spw, self.spw):
    reset += __K_spw_letters__
    self.spw = spw
if __cmp__('sub_change', subarray, self.subarray):
    reset += __K_sub_letters__
    self.subarray = subarray
if 'T' in reset:
    self._time_keep[:] = True
    self._time_keep &= __cmp__('tb_spw', self.sensor.get(__K_tb_spw_sensor__), spw)
    self._time_keep &= __cmp__('tb_sub', self.sensor.get(__K_tb_sub_sensor__), subarray)
    for key in time_selectors:
        self._selection.pop(key, None)
if 'F' in reset:
    self._freq_keep = np.ones(self.spectral_windows[self.spw].num_chans, dtype=bool)
    for key in freq_selectors:
        self._selection.pop(key, None)
if 'B' in reset:
    self._corrprod_keep = np.ones(len(self.subarrays[self.subarray].corr_products), dtype=bool)
    for key in corrprod_selectors:
        self._selection.pop(key, None)
self._selection.update(kwargs)
"""
# the branches of the re-application loop, in source order: (keys, template of the branch body)
T_BRANCHES = [
    (['dumps'], """
if np.asarray(v).dtype == bool:
    self._time_keep &= v
else:
    dump_keep = np.zeros(len(self._time_keep), dtype=bool)
    dump_keep[list(v) if isinstance(v, tuple) else v] = True
    self._time_keep &= dump_keep
"""),
    (['timerange'], """
start_time = __bin__('tr_lo_sign', katpoint.Timestamp(v[__K_tr_lo_index__]).secs, __K_tr_lo_factor__ * self.dump_period)
end_time = __bin__('tr_hi_sign', katpoint.Timestamp(v[__K_tr_hi_index__]).secs, __K_tr_hi_factor__ * self.dump_period)
self._time_keep &= __cmp__('tr_lo_cmp', self.sensor.timestamps[:], start_time)
self._time_keep &= __cmp__('tr_hi_cmp', self.sensor.timestamps[:], end_time)
"""),
    (['scans', 'compscans'], """
scans = _selection_to_list(v)
scan_keep = np.zeros(len(self._time_keep), dtype=bool)
scan_sensor = self.sensor.get('Observation/scan_state' if k == 'scans' else 'Observation/label')
scan_index_sensor = self.sensor.get(f'Observation/{k[:-1]}_index')
for scan in scans:
    if isinstance(scan, numbers.Integral):
        scan_keep |= (scan_index_sensor == scan)
    elif __cmp__('scan_neg_cmp', scan[0], __K_scan_neg_char__):
        scan_keep |= ~(scan_sensor == scan[1:])
    else:
        scan_keep |= (scan_sensor == scan)
self._time_keep &= scan_keep
"""),
    (['targets'], """
targets = v if is_iterable(v) else [v]
target_indices = []
for t in targets:
    try:
        if isinstance(t, numbers.Integral):
            target_indices.append(t)
        elif isinstance(t, katpoint.Target) or isinstance(t, str) and ',' in t:
            target_indices.append(self.catalogue.targets.index(t))
        else:
            targets_with_name = self.catalogue._targets_with_name(t)
            if not targets_with_name:
                raise KeyError(__ANY__)
            for t2 in targets_with_name:
                target_indices.append(self.catalogue.targets.index(t2))
    except (KeyError, ValueError):
        logger.warning(__ANY__, t)
        continue
target_keep = np.zeros(len(self._time_keep), dtype=bool)
target_index_sensor = self.sensor.get('Observation/target_index')
for target_index in set(target_indices):
    target_keep |= (target_index_sensor == target_index)
self._time_keep &= target_keep
"""),
    (['target_tags'], """
selected_tags = _selection_to_list(v)
known_tags = {tag for target in self.catalogue.targets for tag in target.tags}
tags = []
for tag in selected_tags:
    if tag in known_tags:
        tags.append(tag)
    else:
        logger.warning(__ANY__, tag)
target_keep = np.zeros(len(self._time_keep), dtype=bool)
target_index_sensor = self.sensor.get('Observation/target_index')
for target_index, target in enumerate(self.catalogue.targets):
    if set(target.tags) & set(tags):
        target_keep |= (target_index_sensor == target_index)
self._time_keep &= target_keep
"""),
    (['channels'], """
if np.asarray(v).dtype == bool:
    self._freq_keep &= v
else:
    chan_keep = np.zeros(len(self._freq_keep), dtype=bool)
    chan_keep[list(v) if isinstance(v, tuple) else v] = True
    self._freq_keep &= chan_keep
"""),
    (['freqrange'], """
start_freq = __bin__('fr_lo_sign', v[__K_fr_lo_index__], __K_fr_lo_factor__ * self.spectral_windows[self.spw].channel_width)
end_freq = __bin__('fr_hi_sign', v[__K_fr_hi_index__], __K_fr_hi_factor__ * self.spectral_windows[self.spw].channel_width)
self._freq_keep &= __cmp__('fr_lo_cmp', self.spectral_windows[self.spw].channel_freqs, start_freq)
self._freq_keep &= __cmp__('fr_hi_cmp', self.spectral_windows[self.spw].channel_freqs, end_freq)
"""),
    (['corrprods'], """
if isinstance(v, str) and v == 'auto':
    self._corrprod_keep &= [__cmp__('auto_cmp', inpA[:-1], inpB[:-1])
                            for inpA, inpB in self.subarrays[self.subarray].corr_products]
elif isinstance(v, str) and v == 'cross':
    self._corrprod_keep &= [__cmp__('cross_cmp', inpA[:-1], inpB[:-1])
                            for inpA, inpB in self.subarrays[self.subarray].corr_products]
else:
    if not isinstance(v, slice):
        v = np.asarray(v)
        if v.ndim == 2 and v.shape[1] == 2:
            all_corrprods = self.subarrays[self.subarray].corr_products
            v = v.tolist()
            v = np.array([list(cp) in v for cp in all_corrprods])
        elif not v.size and v.dtype != bool:
            v = v.astype(int)
    if not isinstance(v, slice) and v.dtype == bool:
        self._corrprod_keep &= v
    else:
        cp_keep = np.zeros(len(self._corrprod_keep), dtype=bool)
        cp_keep[v] = True
        self._corrprod_keep &= cp_keep
"""),
    (['ants'], """
ants = _selection_to_list(v)
ant_names = [(ant.name if isinstance(ant, katpoint.Antenna) else ant) for ant in ants]
if _is_deselection(ant_names):
    ant_names = [ant_name[1:] for ant_name in ant_names]
    self._corrprod_keep &= [__bool__('ants_desel_bool', __cmp__('ants_desel_a', inpA[:-1], ant_names),
                                     __cmp__('ants_desel_b', inpB[:-1], ant_names))
                            for inpA, inpB in self.subarrays[self.subarray].corr_products]
else:
    self._corrprod_keep &= [__bool__('ants_sel_bool', __cmp__('ants_sel_a', inpA[:-1], ant_names),
                                     __cmp__('ants_sel_b', inpB[:-1], ant_names))
                            for inpA, inpB in self.subarrays[self.subarray].corr_products]
"""),
    (['inputs'], """
inps = _selection_to_list(v)
self._corrprod_keep &= [__bool__('inputs_bool', __cmp__('inputs_a', inpA, inps), __cmp__('inputs_b', inpB, inps))
                        for inpA, inpB in self.subarrays[self.subarray].corr_products]
"""),
    (['pol'], """
pols = _selection_to_list(v)
pols = [i.lower() for i in pols if i]
if __cmp__('pol_nonempty_cmp', len(pols), __K_pol_nonempty_bound__):
    keep = np.zeros(self._corrprod_keep.shape, dtype=bool)
    for polAB in pols:
        polAB = polAB * __K_pol_repeat__ if polAB in (__K_pol_single_a__, __K_pol_single_b__) else polAB
        keep |= [__bool__('pol_bool', __cmp__('pol_a_cmp', inpA[-1], polAB[__K_pol_a_index__]),
                          __cmp__('pol_b_cmp', inpB[-1], polAB[__K_pol_b_index__]))
                 for inpA, inpB in self.subarrays[self.subarray].corr_products]
    self._corrprod_keep &= keep
"""),
    (['weights'], """
self._weights_keep = v
"""),
    (['flags'], """
self._flags_keep = v
"""),
]
T_TAIL = """
self.shape = (self._time_keep.sum(), self._freq_keep.sum(), self._corrprod_keep.sum())
self.size = np.prod(self.shape, dtype=np.int64) * np.dtype('complex64').itemsize
if not self.size:
    logger.warning(__ANY__)
self.dumps = self._time_keep.nonzero()[0]
self.channels = self._freq_keep.nonzero()[0]
self.freqs = self.channel_freqs = self.spectral_windows[self.spw].channel_freqs[self._freq_keep]
self.channel_width = self.spectral_windows[self.spw].channel_width
self.corr_products = self.subarrays[self.subarray].corr_products[self._corrprod_keep]
self.inputs = sorted(set(np.ravel(self.corr_products)))
input_ants = {inp[:-1] for inp in self.inputs}
self.ants = [ant for ant in self.subarrays[self.subarray].ants if ant.name in input_ants]
self._set_keep(self._time_keep, self._freq_keep, self._corrprod_keep, self._weights_keep, self._flags_keep)
self.scan_indices = sorted(set(self.sensor['Observation/scan_index']))
self.compscan_indices = sorted(set(self.sensor['Observation/compscan_index']))
self.target_indices = sorted(set(self.sensor['Observation/target_index']))
"""
T_SEL_TO_LIST = """
if isinstance(names, str):
    if not names:
        return []
    elif names in groups:
        return list(groups[names])
    else:
        return [name.strip() for name in names.split(__K_list_sep__)]
elif is_iterable(names):
    return list(names)
else:
    return [names]
"""
T_IS_DESEL = """
for selector in selectors:
    if __cmp__('desel_cmp', selector[0], __K_desel_char__):
        return False
return True
"""
T_SET_KEEP = """
if time_keep is not None:
    self._time_keep = time_keep
    if self.sensor:
        self.sensor._set_keep(self._time_keep)
if freq_keep is not None:
    self._freq_keep = freq_keep
if corrprod_keep is not None:
    self._corrprod_keep = corrprod_keep
if weights_keep is not None:
    self._weights_keep = weights_keep
if flags_keep is not None:
    self._flags_keep = flags_keep
"""


def _frac(x, what):
    from fractions import Fraction
    if isinstance(x, bool) or not isinstance(x, (int, float)):
        raise TranslateError('%s: number expected' % what)
    f = Fraction(x)
    if f.denominator > 1 << 20:
        raise TranslateError('%s: %r is not a small dyadic fraction' % (what, x))
    return f.numerator, f.denominator


def _char(s, what):
    if not (isinstance(s, str) and len(s) == 1 and ord(s) < 128):
        raise TranslateError('%s: single ASCII character expected, found %r' % (what, s))
    return ord(s)


def _int(x, what):
    if isinstance(x, bool) or not isinstance(x, int):
        raise TranslateError('%s: integer literal expected, found %r' % (what, x))
    return x


def _funcdef_module(tree, name):
    found = [n for n in tree.body if isinstance(n, ast.FunctionDef) and n.name == name]
    if len(found) != 1:
        raise TranslateError('%s: module-level function %s not found exactly once' % (REL, name))
    return found[0]


def item_select_decisions(repo, out):
    tree = _parse(repo, REL)
    cls = _class(tree, 'DataSet', REL)
    fn = _func(cls, 'select', REL)
    a = fn.args
    if a.args and [x.arg for x in a.args] != ['self'] or a.vararg or a.kwonlyargs or not a.kwarg or a.kwarg.arg != 'kwargs':
        raise TranslateError('select: signature is not select(self, **kwargs)')
    body = _nodoc(fn.body)
    h = _Holes()

    def find(pred, what):
        idx = [i for i, n in enumerate(body) if pred(n)]
        if len(idx) != 1:
            raise TranslateError('select: %s not found exactly once' % what)
        return idx[0]

    def assigns(n, name):
        return isinstance(n, ast.Assign) and any(_is_name(t, name) for t in n.targets)
    i_reset = find(lambda n: assigns(n, 'reset'), 'reset = ...')
    i_auto = find(lambda n: isinstance(n, ast.If) and isinstance(n.test, ast.Compare) and _is_name(n.test.left, 'reset')
                  and isinstance(n.test.ops[0], ast.Eq), "if reset == 'auto'")
    i_loop = find(lambda n: isinstance(n, ast.For) and ast.dump(n.iter) == ast.dump(ast.parse('self._selection.items()', mode='eval').body),
                  're-application loop')
    # statements between `reset = ...` and the auto block: the spw / subarray range checks
    _match_stmts(body[i_reset + 1:i_auto], T_RANGE, h, 'select/range checks')
    # statements between the auto block and the loop: spw / subarray change, the three reset blocks, update
    _match_stmts(body[i_auto + 1:i_loop], T_CHANGE, h, 'select/reset blocks')
    # the loop: one if / elif chain, each branch matches its template
    loop = body[i_loop]
    if len(loop.body) != 1 or not isinstance(loop.body[0], ast.If) or loop.orelse:
        raise TranslateError('select: the re-application loop is not a single if / elif chain')
    node = loop.body[0]
    for n, (keys, tsrc) in enumerate(T_BRANCHES):
        t = node.test
        if len(keys) == 1:
            want = ast.parse('k == %r' % keys[0], mode='eval').body
        else:
            want = ast.parse('k in %r' % (tuple(keys),), mode='eval').body
        _unify(t, want, h, 'select/loop branch %d test' % n)
        _match_stmts(node.body, tsrc, h, 'select/loop branch %s' % '/'.join(keys))
        last = n == len(T_BRANCHES) - 1
        if last:
            if node.orelse:
                raise TranslateError('select: the loop chain has an extra branch after flags')
        else:
            if not (len(node.orelse) == 1 and isinstance(node.orelse[0], ast.If)):
                raise TranslateError('select: the loop chain ends after %s' % keys)
            node = node.orelse[0]
    # the tail: public attributes derived from the masks
    _match_stmts(body[i_loop + 1:], T_TAIL, h, 'select/derived attributes')
    sk = _func(cls, '_set_keep', REL)
    if ([x.arg for x in sk.args.args] != ['self', 'time_keep', 'freq_keep', 'corrprod_keep', 'weights_keep', 'flags_keep']
            or len(sk.args.defaults) != 5
            or not all(isinstance(x, ast.Constant) and x.value is None for x in sk.args.defaults)):
        raise TranslateError('DataSet._set_keep: signature is not (self, time_keep=None, freq_keep=None, corrprod_keep=None, '
                             'weights_keep=None, flags_keep=None)')
    _match_stmts(_nodoc(sk.body), T_SET_KEEP, h, 'DataSet._set_keep')
    # helpers
    f1 = _funcdef_module(tree, '_selection_to_list')
    if [x.arg for x in f1.args.args] != ['names'] or not f1.args.kwarg or f1.args.kwarg.arg != 'groups':
        raise TranslateError('_selection_to_list: signature is not (names, **groups)')
    _match_stmts(_nodoc(f1.body), T_SEL_TO_LIST, h, '_selection_to_list')
    f2 = _funcdef_module(tree, '_is_deselection')
    if [x.arg for x in f2.args.args] != ['selectors']:
        raise TranslateError('_is_deselection: signature is not (selectors)')
    _match_stmts(_nodoc(f2.body), T_IS_DESEL, h, '_is_deselection')
    # the constructor's initial attribute values used by the model of the first select(spw=0, subarray=0)
    init = _func(cls, '__init__', REL)
    inits = {}
    for n in init.body:
        if isinstance(n, ast.Assign) and len(n.targets) == 1 and _self_attr(n.targets[0]) in ('spw', 'subarray', '_weights_keep', '_flags_keep'):
            nm = _self_attr(n.targets[0])
            if nm in inits:
                raise TranslateError('DataSet.__init__: %s assigned twice' % nm)
            v = n.value
            if isinstance(v, ast.UnaryOp) and isinstance(v.op, ast.USub) and isinstance(v.operand, ast.Constant):
                inits[nm] = -v.operand.value
            elif isinstance(v, ast.Constant):
                inits[nm] = v.value
            else:
                raise TranslateError('DataSet.__init__: %s is not initialised with a literal' % nm)
    if sorted(inits) != ['_flags_keep', '_weights_keep', 'spw', 'subarray']:
        raise TranslateError('DataSet.__init__: initial spw / subarray / _weights_keep / _flags_keep not found')
    if inits['_weights_keep'] != 'all' or inits['_flags_keep'] != 'all':
        raise TranslateError("DataSet.__init__: _weights_keep / _flags_keep do not start as 'all'")

    def rng(name):
        lo = _int(h[name[:3] + '_lo'], name)
        return '(%s, (%s, %s))' % (coq_Z(lo), coq_string(h[name][0]), coq_string(h[name][1]))
    out.append('Definition sel_spw_range : Z * (string * string) := %s.' % rng('spw_range'))
    out.append('Definition sel_sub_range : Z * (string * string) := %s.' % rng('sub_range'))
    for nm in ('spw', 'sub'):
        letters = h[nm + '_letters']
        if not isinstance(letters, str):
            raise TranslateError('select: reset += <string> expected on a change of %s' % nm)
        out.append('Definition sel_%s_change : string * string := (%s, %s).' % (nm, coq_string(h[nm + '_change']), coq_string(letters)))
    out.append('Definition sel_init_spw : Z := %s.' % coq_Z(_int(inits['spw'], 'initial spw')))
    out.append('Definition sel_init_sub : Z := %s.' % coq_Z(_int(inits['subarray'], 'initial subarray')))
    out.append('Definition sel_time_base : list (string * (string * string)) := [(%s, (%s, %s)); (%s, (%s, %s))].'
               % (coq_string(h['tb_spw_sensor']), coq_string(h['tb_spw']), coq_string('spw'),
                  coq_string(h['tb_sub_sensor']), coq_string(h['tb_sub']), coq_string('subarray')))
    for pre, nm in (('tr', 'timerange'), ('fr', 'freqrange')):
        rows = []
        for side in ('lo', 'hi'):
            num, den = _frac(h['%s_%s_factor' % (pre, side)], nm)
            rows.append('(%s, (%s, ((%s, %s), %s)))' % (coq_Z(_int(h['%s_%s_index' % (pre, side)], nm)),
                                                         coq_string(h['%s_%s_sign' % (pre, side)]), coq_Z(num), coq_Z(den),
                                                         coq_string(h['%s_%s_cmp' % (pre, side)])))
        out.append('Definition sel_%s : list (Z * (string * ((Z * Z) * string))) := [%s].' % (nm, '; '.join(rows)))
    out.append('Definition sel_scan_negation : string * Z := (%s, %s).'
               % (coq_string(h['scan_neg_cmp']), coq_Z(_char(h['scan_neg_char'], 'scan negation'))))
    out.append('Definition sel_deselection : string * Z := (%s, %s).'
               % (coq_string(h['desel_cmp']), coq_Z(_char(h['desel_char'], 'deselection'))))
    out.append('Definition sel_list_sep : Z := %s.' % coq_Z(_char(h['list_sep'], 'separator')))
    out.append('Definition sel_auto_cmp : string := %s.' % coq_string(h['auto_cmp']))
    out.append('Definition sel_cross_cmp : string := %s.' % coq_string(h['cross_cmp']))
    for nm in ('ants_desel', 'ants_sel'):
        out.append('Definition sel_%s : string * (string * string) := (%s, (%s, %s)).'
                   % (nm, coq_string(h[nm + '_a']), coq_string(h[nm + '_bool']), coq_string(h[nm + '_b'])))
    out.append('Definition sel_inputs_ops : string * (string * string) := (%s, (%s, %s)).'
               % (coq_string(h['inputs_a']), coq_string(h['inputs_bool']), coq_string(h['inputs_b'])))
    out.append('Definition sel_pol_single : list Z := [%s; %s].'
               % (coq_Z(_char(h['pol_single_a'], 'pol')), coq_Z(_char(h['pol_single_b'], 'pol'))))
    out.append('Definition sel_pol_repeat : Z := %s.' % coq_Z(_int(h['pol_repeat'], 'pol repeat')))
    out.append('Definition sel_pol_nonempty : string * Z := (%s, %s).'
               % (coq_string(h['pol_nonempty_cmp']), coq_Z(_int(h['pol_nonempty_bound'], 'pol'))))
    out.append('Definition sel_pol_match : (string * Z) * (string * (string * Z)) := ((%s, %s), (%s, (%s, %s))).'
               % (coq_string(h['pol_a_cmp']), coq_Z(_int(h['pol_a_index'], 'pol')), coq_string(h['pol_bool']),
                  coq_string(h['pol_b_cmp']), coq_Z(_int(h['pol_b_index'], 'pol'))))


# ---------------------------------------------------------------------------------------------------------------
# item_select_atomic: the decorator that makes DataSet.select all-or-nothing (repair of F74).  `select` must carry
# exactly this decorator, the decorator must match the template, and the attributes its handler puts back are
# read from the matched code (the `keeps` tuple, `_selection`, the `old_state` tuple) and emitted as
# sel_atomic_restores, which Model/SelectA.v interprets (`restore`).  Without the decorator sel_atomic = false is
# emitted (the model is then the bare method body and the atomicity theorems of Props/C02.v break).

ATOMIC_NAME = '_restore_selection_on_error'
T_ATOMIC = """
@functools.wraps(select)
def wrapper(self, **kwargs):
    keeps = (self._time_keep, self._freq_keep, self._corrprod_keep)
    old_keeps = [keep.copy() for keep in keeps]
    old_selection = dict(self._selection)
    old_state = (self.spw, self.subarray, self._weights_keep, self._flags_keep)
    try:
        return select(self, **kwargs)
    except Exception:
        for keep, old_keep in zip(keeps, old_keeps):
            keep[:] = old_keep
        self._time_keep, self._freq_keep, self._corrprod_keep = keeps
        self._selection.clear()
        self._selection.update(old_selection)
        self.spw, self.subarray, self._weights_keep, self._flags_keep = old_state
        raise
return wrapper
"""
# every component of the state of Model/SelectX.v (xst without the public attributes)
ATOMIC_STATE = ['_time_keep', '_freq_keep', '_corrprod_keep', '_selection', 'spw', 'subarray', '_weights_keep', '_flags_keep']


def _tuple_attrs(node, what):
    if not isinstance(node, ast.Tuple):
        raise TranslateError('%s: tuple of self attributes expected' % what)
    names = [_self_attr(e) for e in node.elts]
    if None in names:
        raise TranslateError('%s: tuple of self attributes expected' % what)
    return names


def item_select_atomic(repo, out):
    tree = _parse(repo, REL)
    cls = _class(tree, 'DataSet', REL)
    fn = _func(cls, 'select', REL)
    if len([n for n in cls.body if isinstance(n, ast.FunctionDef) and n.name == 'select']) != 1:
        raise TranslateError('DataSet.select is defined more than once')
    for n in ast.walk(tree):
        # nobody else may reach the undecorated body or rebind the method
        if isinstance(n, ast.Attribute) and n.attr == '__wrapped__':
            raise TranslateError('%s: __wrapped__ is used (the undecorated select() could be called)' % REL)
        if isinstance(n, (ast.Assign, ast.AugAssign, ast.AnnAssign)):
            for t in (n.targets if isinstance(n, ast.Assign) else [n.target]):
                if isinstance(t, ast.Attribute) and t.attr == 'select':
                    raise TranslateError('%s: the attribute select is assigned to' % REL)
    decos = fn.decorator_list
    if not decos:
        out.append('Definition sel_atomic : bool := false.')
        out.append('Definition sel_atomic_restores : list string := [].')
        return
    if len(decos) != 1 or not _is_name(decos[0], ATOMIC_NAME):
        raise TranslateError('DataSet.select: decorator list is not [@%s]' % ATOMIC_NAME)
    deco = _funcdef_module(tree, ATOMIC_NAME)
    if [x.arg for x in deco.args.args] != ['select'] or deco.args.vararg or deco.args.kwarg or deco.args.kwonlyargs \
            or deco.decorator_list:
        raise TranslateError('%s: signature is not (select)' % ATOMIC_NAME)
    body = _nodoc(deco.body)
    h = _Holes()
    _match_stmts(body, T_ATOMIC, h, ATOMIC_NAME)
    wrapper = body[0]
    wbody = _nodoc(wrapper.body)
    keeps = _tuple_attrs(wbody[0].value, ATOMIC_NAME + ': keeps')
    state = _tuple_attrs(wbody[3].value, ATOMIC_NAME + ': old_state')
    handler = wbody[4].handlers[0].body
    if _tuple_attrs(handler[1].targets[0], ATOMIC_NAME + ': masks put back') != keeps \
            or _tuple_attrs(handler[4].targets[0], ATOMIC_NAME + ': state put back') != state:
        raise TranslateError('%s: the handler does not put back what was remembered' % ATOMIC_NAME)
    restores = keeps + ['_selection'] + state
    if sorted(restores) != sorted(ATOMIC_STATE):
        raise TranslateError('%s: restores %s, the state of select() is %s' % (ATOMIC_NAME, restores, ATOMIC_STATE))
    # the import the decorator needs
    if not any(isinstance(n, ast.Import) and any(a.name == 'functools' and a.asname is None for a in n.names) for n in tree.body):
        raise TranslateError('%s: `import functools` not found' % REL)
    out.append('Definition sel_atomic : bool := true.')
    out.append('Definition sel_atomic_restores : list string := %s.' % coq_strings(restores))


ITEMS = [item_select_tables, item_select_decisions, item_select_atomic]
