"""Translator items for C02: the keyword tables and the reset skeleton of DataSet.select (katdal/dataset.py).

Everything is looked up by shape in the current source; any deviation raises TranslateError (broken tie).
Emitted into coq/Gen/Generated.v:
  sel_time_selectors / sel_freq_selectors / sel_corrprod_selectors / sel_other_kwargs : list string
  sel_valid_kwargs      := the concatenation written in the source (checked to be exactly that sum)
  sel_strict_default    : bool      (kwargs.get('strict', <default>))
  sel_noarg_reset, sel_default_reset : string   ('TFB' if not kwargs else kwargs.pop('reset', 'auto'))
  sel_auto_table        : list (string * list string)            letter appended when kwargs hit the group
  sel_clear_table       : list (string * (string * list string)) letter, mask attribute re-created, group popped
  sel_loop_table        : list (list string * string)            keys tested by each branch of the re-application
                                                                 loop and the attribute it `&=`s ("=attr": assigns)
"""
import ast

from vh.translate import TranslateError, _parse, _class, _func, coq_string, coq_strings

REL = 'katdal/dataset.py'
GROUPS = ('time_selectors', 'freq_selectors', 'corrprod_selectors')


def _strlist(node, what):
    if not (isinstance(node, ast.List) and all(isinstance(e, ast.Constant) and isinstance(e.value, str) for e in node.elts)):
        raise TranslateError('%s: expected a list of string literals' % what)
    return [e.value for e in node.elts]


def _is_name(node, name):
    return isinstance(node, ast.Name) and node.id == name


def _self_attr(node):
    if isinstance(node, ast.Attribute) and _is_name(node.value, 'self'):
        return node.attr
    return None


def _flatten_add(node):
    if isinstance(node, ast.BinOp) and isinstance(node.op, ast.Add):
        return _flatten_add(node.left) + _flatten_add(node.right)
    return [node]


def _kw_hits(node):
    """set(kwargs.keys()).intersection(<group>) -> group name"""
    if (isinstance(node, ast.Call) and isinstance(node.func, ast.Attribute) and node.func.attr == 'intersection'
            and len(node.args) == 1 and isinstance(node.args[0], ast.Name) and node.args[0].id in GROUPS):
        inner = node.func.value
        if (isinstance(inner, ast.Call) and _is_name(inner.func, 'set') and len(inner.args) == 1
                and isinstance(inner.args[0], ast.Call) and isinstance(inner.args[0].func, ast.Attribute)
                and inner.args[0].func.attr == 'keys' and _is_name(inner.args[0].func.value, 'kwargs')):
            return node.args[0].id
    raise TranslateError('select: auto-reset test has an unexpected shape: %s' % ast.dump(node)[:160])


def _auto_row(value):
    if not (isinstance(value, ast.IfExp) and isinstance(value.body, ast.Constant) and isinstance(value.body.value, str)
            and len(value.body.value) == 1 and isinstance(value.orelse, ast.Constant) and value.orelse.value == ''):
        raise TranslateError('select: auto-reset term has an unexpected shape')
    return value.body.value, _kw_hits(value.test)


def item_select_tables(repo, out):
    tree = _parse(repo, REL)
    fn = _func(_class(tree, 'DataSet', REL), 'select', REL)
    body = [n for n in fn.body if not (isinstance(n, ast.Expr) and isinstance(n.value, ast.Constant))]
    groups = {}
    other = None
    strict_default = None
    noarg = default_reset = None
    auto_rows = None
    clear_rows = []
    loop_rows = None
    pos = {}
    for i, n in enumerate(body):
        if isinstance(n, ast.Assign) and len(n.targets) == 1 and isinstance(n.targets[0], ast.Name):
            nm = n.targets[0].id
            if nm in GROUPS:
                if nm in groups:
                    raise TranslateError('select: %s assigned twice' % nm)
                groups[nm] = _strlist(n.value, nm)
            elif nm == 'valid_kwargs':
                parts = _flatten_add(n.value)
                if not (len(parts) == 4 and all(_is_name(p, g) for p, g in zip(parts[:3], GROUPS))):
                    raise TranslateError('select: valid_kwargs is not time + freq + corrprod selectors + [...]')
                other = _strlist(parts[3], 'valid_kwargs tail')
            elif nm == 'strict':
                v = n.value
                if not (isinstance(v, ast.Call) and isinstance(v.func, ast.Attribute) and v.func.attr == 'get'
                        and _is_name(v.func.value, 'kwargs') and len(v.args) == 2
                        and isinstance(v.args[0], ast.Constant) and v.args[0].value == 'strict'
                        and isinstance(v.args[1], ast.Constant) and isinstance(v.args[1].value, bool)):
                    raise TranslateError('select: strict = kwargs.get(\'strict\', <bool>) not found in that shape')
                strict_default = v.args[1].value
                pos['strict'] = i
            elif nm == 'reset':
                v = n.value
                if not (isinstance(v, ast.IfExp) and isinstance(v.test, ast.UnaryOp) and isinstance(v.test.op, ast.Not)
                        and _is_name(v.test.operand, 'kwargs') and isinstance(v.body, ast.Constant)
                        and isinstance(v.body.value, str) and isinstance(v.orelse, ast.Call)
                        and isinstance(v.orelse.func, ast.Attribute) and v.orelse.func.attr == 'pop'
                        and _is_name(v.orelse.func.value, 'kwargs') and len(v.orelse.args) == 2
                        and v.orelse.args[0].value == 'reset' and isinstance(v.orelse.args[1], ast.Constant)
                        and isinstance(v.orelse.args[1].value, str)):
                    raise TranslateError('select: reset = <s> if not kwargs else kwargs.pop(\'reset\', <s>) not found')
                noarg, default_reset = v.body.value, v.orelse.args[1].value
                pos['reset'] = i
        elif isinstance(n, ast.If):
            t = n.test
            # strict check
            if (isinstance(t, ast.BoolOp) and isinstance(t.op, ast.And) and len(t.values) == 2
                    and _is_name(t.values[0], 'strict')):
                d = t.values[1]
                ok = (isinstance(d, ast.BinOp) and isinstance(d.op, ast.Sub)
                      and ast.dump(d.left) == ast.dump(ast.parse('set(kwargs.keys())', mode='eval').body)
                      and ast.dump(d.right) == ast.dump(ast.parse('set(valid_kwargs)', mode='eval').body)
                      and len(n.body) == 1 and isinstance(n.body[0], ast.Raise)
                      and isinstance(n.body[0].exc, ast.Call) and _is_name(n.body[0].exc.func, 'TypeError')
                      and not n.orelse)
                if not ok:
                    raise TranslateError('select: strict check is not `if strict and set(kwargs.keys()) - '
                                         'set(valid_kwargs): raise TypeError(...)`')
                pos['strict_check'] = i
            # if reset == 'auto':
            elif (isinstance(t, ast.Compare) and _is_name(t.left, 'reset') and len(t.ops) == 1
                  and isinstance(t.ops[0], ast.Eq) and isinstance(t.comparators[0], ast.Constant)):
                if t.comparators[0].value != default_reset:
                    raise TranslateError('select: auto block does not test the default reset value')
                rows = []
                for j, st in enumerate(n.body):
                    if j == 0 and isinstance(st, ast.Assign) and _is_name(st.targets[0], 'reset'):
                        rows.append(_auto_row(st.value))
                    elif j > 0 and isinstance(st, ast.AugAssign) and isinstance(st.op, ast.Add) and _is_name(st.target, 'reset'):
                        rows.append(_auto_row(st.value))
                    else:
                        raise TranslateError('select: unexpected statement in the auto-reset block')
                if n.orelse:
                    raise TranslateError('select: auto-reset block has an else')
                auto_rows = rows
                pos['auto'] = i
            # if 'T' in reset:
            elif (isinstance(t, ast.Compare) and isinstance(t.left, ast.Constant) and isinstance(t.left.value, str)
                  and len(t.left.value) == 1 and len(t.ops) == 1 and isinstance(t.ops[0], ast.In)
                  and _is_name(t.comparators[0], 'reset')):
                letter = t.left.value
                attrs = []
                popped = []
                for st in n.body:
                    if isinstance(st, ast.Assign):
                        tg = st.targets[0]
                        a = _self_attr(tg.value) if isinstance(tg, ast.Subscript) else _self_attr(tg)
                        if a is None:
                            raise TranslateError('select: unexpected assignment in reset block %s' % letter)
                        if isinstance(tg, ast.Subscript):
                            if not (isinstance(st.value, ast.Constant) and st.value.value is True):
                                raise TranslateError('select: mask not reset to True in block %s' % letter)
                        else:
                            v = st.value
                            if not (isinstance(v, ast.Call) and isinstance(v.func, ast.Attribute) and v.func.attr == 'ones'):
                                raise TranslateError('select: mask not re-created with np.ones in block %s' % letter)
                        attrs.append(a)
                    elif isinstance(st, ast.AugAssign):
                        # the spw / subarray sensor masks ANDed onto the fresh time mask (single-window model)
                        if not (isinstance(st.op, ast.BitAnd) and _self_attr(st.target) in attrs):
                            raise TranslateError('select: unexpected augmented assignment in reset block %s' % letter)
                    elif isinstance(st, ast.For):
                        if not (_is_name(st.target, 'key') and isinstance(st.iter, ast.Name) and st.iter.id in GROUPS
                                and len(st.body) == 1
                                and ast.dump(st.body[0]) == ast.dump(ast.parse('self._selection.pop(key, None)').body[0])):
                            raise TranslateError('select: unexpected pop loop in reset block %s' % letter)
                        popped.append(st.iter.id)
                    else:
                        raise TranslateError('select: unexpected statement in reset block %s' % letter)
                if len(attrs) != 1 or len(popped) != 1 or n.orelse:
                    raise TranslateError('select: reset block %s must re-create one mask and pop one group' % letter)
                clear_rows.append((letter, attrs[0], popped[0]))
                pos.setdefault('clear', i)
        elif isinstance(n, ast.Expr) and ast.dump(n) == ast.dump(ast.parse('self._selection.update(kwargs)').body[0]):
            if 'update' in pos:
                raise TranslateError('select: two _selection.update calls')
            pos['update'] = i
        elif isinstance(n, ast.For) and ast.dump(n.iter) == ast.dump(ast.parse('self._selection.items()', mode='eval').body):
            if loop_rows is not None:
                raise TranslateError('select: two re-application loops')
            if not (isinstance(n.target, ast.Tuple) and [getattr(e, 'id', None) for e in n.target.elts] == ['k', 'v']
                    and len(n.body) == 1 and isinstance(n.body[0], ast.If)):
                raise TranslateError('select: re-application loop is not a single if/elif chain over (k, v)')
            loop_rows = []
            node = n.body[0]
            while True:
                t = node.test
                if (isinstance(t, ast.Compare) and _is_name(t.left, 'k') and len(t.ops) == 1):
                    if isinstance(t.ops[0], ast.Eq) and isinstance(t.comparators[0], ast.Constant):
                        keys = [t.comparators[0].value]
                    elif isinstance(t.ops[0], ast.In) and isinstance(t.comparators[0], (ast.Tuple, ast.List)):
                        keys = [e.value for e in t.comparators[0].elts]
                    else:
                        raise TranslateError('select: unexpected key test in loop')
                else:
                    raise TranslateError('select: unexpected key test in loop')
                anded = set()
                assigned = set()
                for sub in node.body:
                    for w in ast.walk(sub):
                        if isinstance(w, ast.AugAssign) and _self_attr(w.target):
                            if not isinstance(w.op, ast.BitAnd):
                                raise TranslateError('select: a branch combines a mask with something else than &=')
                            anded.add(_self_attr(w.target))
                        elif isinstance(w, ast.Assign) and any(_self_attr(tg) for tg in w.targets):
                            assigned |= {_self_attr(tg) for tg in w.targets}
                if len(anded) + len(assigned) != 1:
                    raise TranslateError('select: branch %s must update exactly one attribute' % keys)
                loop_rows.append((keys, list(anded)[0] if anded else '=' + list(assigned)[0]))
                if len(node.orelse) == 1 and isinstance(node.orelse[0], ast.If):
                    node = node.orelse[0]
                elif not node.orelse:
                    break
                else:
                    raise TranslateError('select: loop chain ends with an else branch')
            pos['loop'] = i
    missing = [g for g in GROUPS if g not in groups]
    if missing or other is None or strict_default is None or noarg is None or auto_rows is None \
            or len(clear_rows) == 0 or loop_rows is None or 'update' not in pos or 'strict_check' not in pos:
        raise TranslateError('select: construct(s) not found: groups=%s other=%s strict=%s reset=%s auto=%s clear=%d loop=%s'
                             % (missing, other is not None, strict_default, noarg, auto_rows is not None,
                                len(clear_rows), loop_rows is not None))
    order = ['strict', 'strict_check', 'reset', 'auto', 'clear', 'update', 'loop']
    if [pos[k] for k in order] != sorted(pos[k] for k in order):
        raise TranslateError('select: statements are not in the order strict check, reset, auto, clear, update, loop')
    for g in GROUPS:
        out.append('Definition sel_%s : list string := %s.' % (g, coq_strings(groups[g])))
    out.append('Definition sel_other_kwargs : list string := %s.' % coq_strings(other))
    out.append('Definition sel_valid_kwargs : list string := sel_time_selectors ++ sel_freq_selectors ++ '
               'sel_corrprod_selectors ++ sel_other_kwargs.')
    out.append('Definition sel_strict_default : bool := %s.' % ('true' if strict_default else 'false'))
    out.append('Definition sel_noarg_reset : string := %s.' % coq_string(noarg))
    out.append('Definition sel_default_reset : string := %s.' % coq_string(default_reset))
    out.append('Definition sel_auto_table : list (string * list string) := [%s].'
               % '; '.join('(%s, sel_%s)' % (coq_string(l), g) for l, g in auto_rows))
    out.append('Definition sel_clear_table : list (string * (string * list string)) := [%s].'
               % '; '.join('(%s, (%s, sel_%s))' % (coq_string(l), coq_string(a), g) for l, a, g in clear_rows))
    out.append('Definition sel_loop_table : list (list string * string) := [%s].'
               % '; '.join('(%s, %s)' % (coq_strings(ks), coq_string(a)) for ks, a in loop_rows))


ITEMS = [item_select_tables]
