"""Translator items for C07: chunk naming constants of katdal/chunkstore*.py (fail-closed)."""
import ast

from vh.translate import TranslateError, _parse, _class, _func, _module_assign, coq_Z


def _class_const(cls, name, rel):
    found = [n for n in cls.body if isinstance(n, ast.Assign) and len(n.targets) == 1
             and isinstance(n.targets[0], ast.Name) and n.targets[0].id == name]
    if len(found) != 1 or not isinstance(found[0].value, ast.Constant):
        raise TranslateError('%s: class constant %s not found as a literal' % (rel, name))
    return found[0].value.value


def _codes(s):
    if not isinstance(s, str) or not all(32 <= ord(c) < 127 for c in s):
        raise TranslateError('string %r not representable' % (s,))
    return '[' + '; '.join(coq_Z(ord(c)) for c in s) + ']'


def _str_constants(node):
    return [n.value for n in ast.walk(node) if isinstance(n, ast.Constant) and isinstance(n.value, str)]


def item_chunk_names(repo, out):
    rel = 'katdal/chunkstore.py'
    tree = _parse(repo, rel)
    cls = _class(tree, 'ChunkStore', rel)
    sep = _class_const(cls, 'NAME_SEP', rel)
    width = _class_const(cls, 'NAME_INDEX_WIDTH', rel)
    if not (isinstance(sep, str) and len(sep) == 1):
        raise TranslateError('ChunkStore.NAME_SEP is not a single character')
    if not isinstance(width, int) or isinstance(width, bool):
        raise TranslateError('ChunkStore.NAME_INDEX_WIDTH is not an int')
    # join: cls.NAME_SEP.join(names)
    fj = _func(cls, 'join', rel)
    ret = [n for n in fj.body if isinstance(n, ast.Return)]
    if len(ret) != 1 or ast.dump(ret[0].value) != ast.dump(ast.parse('cls.NAME_SEP.join(names)', mode='eval').body):
        raise TranslateError('ChunkStore.join is not cls.NAME_SEP.join(names)')
    # chunk_id_str: '_'.join("{:0{w}d}".format(s.start, w=cls.NAME_INDEX_WIDTH) for s in slices)
    f = _func(cls, 'chunk_id_str', rel)
    ret = [n for n in f.body if isinstance(n, ast.Return)]
    if len(ret) != 1:
        raise TranslateError('chunk_id_str: expected a single return')
    call = ret[0].value
    try:
        idsep = call.func.value.value
        ok = (call.func.attr == 'join' and isinstance(idsep, str) and len(idsep) == 1 and len(call.args) == 1)
        gen = call.args[0]
        ok = ok and isinstance(gen, ast.GeneratorExp) and len(gen.generators) == 1
        g = gen.generators[0]
        ok = ok and isinstance(g.target, ast.Name) and isinstance(g.iter, ast.Name) and g.iter.id == 'slices' and not g.ifs
        elt = gen.elt
        ok = ok and elt.func.attr == 'format' and elt.func.value.value == '{:0{w}d}'
        ok = ok and len(elt.args) == 1 and ast.dump(elt.args[0]) == ast.dump(
            ast.Attribute(value=ast.Name(id=g.target.id, ctx=ast.Load()), attr='start', ctx=ast.Load()))
        ok = ok and len(elt.keywords) == 1 and elt.keywords[0].arg == 'w' and \
            ast.dump(elt.keywords[0].value) == ast.dump(ast.parse('cls.NAME_INDEX_WIDTH', mode='eval').body)
    except AttributeError:
        ok = False
    if not ok:
        raise TranslateError("chunk_id_str is not '<c>'.join('{:0{w}d}'.format(s.start, w=cls.NAME_INDEX_WIDTH) for s in slices)")
    # chunk_metadata: chunk_name = cls.join(array_name, cls.chunk_id_str(slices))
    fm = _func(cls, 'chunk_metadata', rel)
    want = ast.dump(ast.parse('chunk_name = cls.join(array_name, cls.chunk_id_str(slices))').body[0])
    if not any(ast.dump(n) == want for n in fm.body):
        raise TranslateError('chunk_metadata: chunk_name is not cls.join(array_name, cls.chunk_id_str(slices))')
    out.append('Definition cs_name_sep : Z := %s.' % coq_Z(ord(sep)))
    out.append('Definition cs_name_index_width : Z := %s.' % coq_Z(width))
    out.append('Definition cs_id_sep : Z := %s.' % coq_Z(ord(idsep)))
    # object key extension and completion marker (S3 and NPY back-ends)
    rel3 = 'katdal/chunkstore_s3.py'
    t3 = _parse(repo, rel3)
    ext = _module_assign(t3, '_CHUNK_EXTENSION', rel3)
    if not (isinstance(ext, ast.Constant) and isinstance(ext.value, str)):
        raise TranslateError('_CHUNK_EXTENSION is not a string literal')
    ext = ext.value
    reln = 'katdal/chunkstore_npy.py'
    tn = _parse(repo, reln)
    cn = _class(tn, 'NpyFileChunkStore', reln)
    for fn in ('get_chunk', 'put_chunk'):
        consts = _str_constants(_func(cn, fn, reln))
        if ext not in consts:
            raise TranslateError('NpyFileChunkStore.%s does not use the extension %r' % (fn, ext))
    c3 = _class(t3, 'S3ChunkStore', rel3)
    marks = set()
    for (c, r) in ((cn, reln), (c3, rel3)):
        for fn in ('mark_complete', 'is_complete'):
            body = _func(c, fn, r)
            consts = [n.args[-1].value for n in ast.walk(body)
                      if isinstance(n, ast.Call) and isinstance(n.func, ast.Attribute) and n.func.attr == 'join'
                      and n.args and isinstance(n.args[-1], ast.Constant) and isinstance(n.args[-1].value, str)]
            if len(consts) != 1:
                raise TranslateError('%s.%s: expected exactly one join(..., <marker literal>), got %r' % (c.name, fn, consts))
            marks.add(consts[0])
    if len(marks) != 1:
        raise TranslateError('completion marker names differ: %r' % sorted(marks))
    out.append('Definition cs_chunk_ext : list Z := %s.' % _codes(ext))
    out.append('Definition cs_complete : list Z := %s.' % _codes(marks.pop()))
    # bucket-name normalisation: path_components[0].replace('_', '-') and split('/', 1)
    fb = [n for n in t3.body if isinstance(n, ast.FunctionDef) and n.name == '_normalise_bucket_name']
    if len(fb) != 1:
        raise TranslateError('_normalise_bucket_name not found')
    want = [
        "split_url = urllib.parse.urlsplit(url)",
        "path_components = split_url.path.lstrip('/').split('/', 1)",
        None,
        "path = '/' + '/'.join(path_components)",
        "return split_url._replace(path=path).geturl()",
    ]
    body = [s for s in fb[0].body if not (isinstance(s, ast.Expr) and isinstance(s.value, ast.Constant))]
    if len(body) != len(want):
        raise TranslateError('_normalise_bucket_name: unexpected number of statements')
    for s, w in zip(body, want):
        if w is not None and ast.dump(s) != ast.dump(ast.parse(w).body[0]):
            raise TranslateError('_normalise_bucket_name: statement differs from %r' % w)
    s = body[2]
    try:
        args = s.value.args
        ok = (len(args) == 2 and all(isinstance(a, ast.Constant) and isinstance(a.value, str) and len(a.value) == 1
                                     and a.value not in "'\\" for a in args))
        ok = ok and ast.dump(s) == ast.dump(ast.parse(
            "path_components[0] = path_components[0].replace('%s', '%s')" % (args[0].value, args[1].value)).body[0])
    except (AttributeError, IndexError):
        ok = False
    if not ok:
        raise TranslateError("_normalise_bucket_name: expected path_components[0] = path_components[0].replace(c1, c2)")
    out.append('Definition cs_bucket_from : Z := %s.' % coq_Z(ord(s.value.args[0].value)))
    out.append('Definition cs_bucket_to : Z := %s.' % coq_Z(ord(s.value.args[1].value)))


# ---------------------------------------------------------------------------------------------------
# dask task (layer) names of put_dask_array / get_dask_array: WHICH attributes of a request the name contains

def _fstring_names(node, what):
    """Names interpolated by an f-string made only of literals and plain {name} fields."""
    if not isinstance(node, ast.JoinedStr):
        raise TranslateError('%s is not an f-string' % what)
    names = []
    for v in node.values:
        if isinstance(v, ast.Constant) and isinstance(v.value, str):
            continue
        if (isinstance(v, ast.FormattedValue) and isinstance(v.value, ast.Name) and v.conversion == -1
                and v.format_spec is None):
            names.append(v.value.id)
            continue
        raise TranslateError('%s: unexpected f-string field %s' % (what, ast.dump(v)))
    return names


def _tokenize_args(fn, what):
    """Arguments of the single top-level statement `token = da.core.tokenize(...)` of fn (None if there is none)."""
    found = [(i, n) for i, n in enumerate(fn.body) if isinstance(n, ast.Assign) and len(n.targets) == 1
             and isinstance(n.targets[0], ast.Name) and n.targets[0].id == 'token']
    stores = [t for t in ast.walk(fn) if isinstance(t, ast.Name) and t.id == 'token' and isinstance(t.ctx, ast.Store)]
    if len(stores) != len(found) or len(found) > 1:
        raise TranslateError('%s: token is not assigned exactly once at the top level' % what)
    if not found:
        return None, None
    i, n = found[0]
    c = n.value
    if not (isinstance(c, ast.Call) and ast.dump(c.func) == ast.dump(ast.parse('da.core.tokenize', mode='eval').body)
            and not c.keywords):
        raise TranslateError('%s: token is not da.core.tokenize(<positional arguments>)' % what)
    return i, c.args


def _fields(names, tok_args, table, what):
    """Set of request attributes named by an f-string (through `token`, if interpolated)."""
    out = set()
    for nm in names:
        if nm == 'token':
            if tok_args is None:
                raise TranslateError('%s: {token} used but never assigned' % what)
            for a in tok_args:
                src = ast.unparse(a)
                if src not in table:
                    raise TranslateError('%s: tokenize argument %r is not understood' % (what, src))
                out.add(table[src])
        elif nm in table:
            out.add(table[nm])
        else:
            raise TranslateError('%s: interpolated name %r is not understood' % (what, nm))
    return out


def item_dask_names(repo, out):
    rel = 'katdal/chunkstore.py'
    tree = _parse(repo, rel)
    cls = _class(tree, 'ChunkStore', rel)
    # ---- put_dask_array: return da.map_blocks(_put_map_blocks, array, name=f'...', ..., store=self, array_name=..., offset=...)
    fp = _func(cls, 'put_dask_array', rel)
    if [a.arg for a in fp.args.args] != ['self', 'array_name', 'array', 'offset']:
        raise TranslateError('put_dask_array: unexpected parameters')
    body = [s for s in fp.body if not (isinstance(s, ast.Expr) and isinstance(s.value, ast.Constant))]
    ti, targs = _tokenize_args(fp, 'put_dask_array')
    rets = [n for n in body if isinstance(n, ast.Return)]
    others = [n for n in body if not isinstance(n, ast.Return) and not (ti is not None and n is fp.body[ti])]
    if len(rets) != 1 or body[-1] is not rets[0] or others:
        raise TranslateError('put_dask_array: expected [token = ...;] return da.map_blocks(...)')
    call = rets[0].value
    if not (isinstance(call, ast.Call) and ast.unparse(call.func) == 'da.map_blocks'
            and [ast.unparse(a) for a in call.args] == ['_put_map_blocks', 'array']):
        raise TranslateError('put_dask_array: not da.map_blocks(_put_map_blocks, array, ...)')
    kw = {k.arg: k.value for k in call.keywords}
    for k, v in (('store', 'self'), ('array_name', 'array_name'), ('offset', 'offset')):
        if k not in kw or ast.unparse(kw[k]) != v:
            raise TranslateError('put_dask_array: keyword %s=%s not passed to _put_map_blocks' % (k, v))
    if 'name' not in kw or 'token' in kw:
        raise TranslateError('put_dask_array: map_blocks has no explicit name= (or has token=)')
    ptable = {'id(self)': 'store', 'array_name': 'name', 'offset': 'offset', 'array.name': 'source', 'array': 'source',
              'array.chunks': 'chunks', 'array.dtype': 'dtype'}
    pf = _fields(_fstring_names(kw['name'], 'put_dask_array name='), targs, ptable, 'put_dask_array')
    for k in ('store', 'name', 'offset', 'source', 'chunks', 'dtype'):
        out.append('Definition cs_putname_%s : bool := %s.' % (k, 'true' if k in pf else 'false'))
    # ---- get_dask_array: token = da.core.tokenize(...); out_name = f'...'; da.from_array(getter_shim, chunks, out_name, ...)
    fg = _func(cls, 'get_dask_array', rel)
    ti, targs = _tokenize_args(fg, 'get_dask_array')
    prune = [i for i, n in enumerate(fg.body) if isinstance(n, ast.If) and ast.unparse(n.test) == 'index']
    want = ast.dump(ast.parse('if index:\n    assert offset == ()\n    chunks, index, offset = _prune_chunks(chunks, index)').body[0])
    if len(prune) != 1 or ast.dump(fg.body[prune[0]]) != want:
        raise TranslateError('get_dask_array: the `if index:` pruning block has an unexpected shape')
    names = [(i, n) for i, n in enumerate(fg.body) if isinstance(n, ast.Assign) and len(n.targets) == 1
             and isinstance(n.targets[0], ast.Name) and n.targets[0].id == 'out_name']
    if len(names) != 1 or ti is None or not (prune[0] < ti < names[0][0]):
        raise TranslateError('get_dask_array: expected pruning, then token = ..., then out_name = ...')
    for i, n in enumerate(fg.body[prune[0] + 1:names[0][0]]):
        for t in ast.walk(n):
            if isinstance(t, ast.Name) and isinstance(t.ctx, ast.Store) and t.id in ('chunks', 'index', 'offset', 'dtype', 'array_name'):
                raise TranslateError('get_dask_array: %s reassigned between pruning and naming' % t.id)
    fa = [n for n in ast.walk(fg) if isinstance(n, ast.Call) and ast.unparse(n.func) == 'da.from_array']
    if len(fa) != 1 or [ast.unparse(a) for a in fa[0].args] != ['getter_shim', 'chunks', 'out_name']:
        raise TranslateError('get_dask_array: not da.from_array(getter_shim, chunks, out_name, ...)')
    gtable = {'self': 'store', 'id(self)': 'store', 'array_name': 'name', 'offset': 'offset', 'chunks': 'chunks',
              'dtype': 'dtype', 'index': 'index'}
    gf = _fields(_fstring_names(names[0][1].value, 'get_dask_array out_name'), targs, gtable, 'get_dask_array')
    for k in ('store', 'name', 'offset', 'chunks', 'dtype', 'index'):
        out.append('Definition cs_getname_%s : bool := %s.' % (k, 'true' if k in gf else 'false'))


# ---------------------------------------------------------------------------------------------------
# .npy object of a chunk: memory order the chunk is brought to, what is written as body, how it is read back

def _has_node(tree, src):
    want = ast.dump(ast.parse(src, mode='eval').body)
    return any(ast.dump(n) == want for n in ast.walk(tree) if isinstance(n, ast.expr))


def item_npy_body(repo, out):
    rel = 'katdal/chunkstore.py'
    tree = _parse(repo, rel)
    fn = [n for n in tree.body if isinstance(n, ast.FunctionDef) and n.name == 'npy_header_and_body']
    if len(fn) != 1:
        raise TranslateError('npy_header_and_body not found')
    body = [s for s in fn[0].body if not (isinstance(s, ast.Expr) and isinstance(s.value, ast.Constant))]
    want = [None,
            'fp = io.BytesIO()',
            'header_fields = np.lib.format.header_data_from_array_1_0(chunk)',
            'np.lib.format.write_array_header_1_0(fp, header_fields)',
            'header = fp.getvalue()',
            'return header, chunk']
    if len(body) != len(want):
        raise TranslateError('npy_header_and_body: unexpected number of statements (%d)' % len(body))
    for s, w in zip(body, want):
        if w is not None and ast.dump(s) != ast.dump(ast.parse(w).body[0]):
            raise TranslateError('npy_header_and_body: statement differs from %r' % w)
    first = ast.dump(body[0])
    if first == ast.dump(ast.parse("chunk = np.asarray(chunk, order='C')").body[0]):
        order_c = True
    elif first == ast.dump(ast.parse("chunk = np.asarray(chunk)").body[0]):
        order_c = False
    else:
        raise TranslateError("npy_header_and_body: first statement is not chunk = np.asarray(chunk[, order='C'])")
    # the writers flatten the (C-ordered) chunk; the direct write and the MD5 take its buffer
    reln = 'katdal/chunkstore_npy.py'
    tn = _parse(repo, reln)
    fw = [n for n in tn.body if isinstance(n, ast.FunctionDef) and n.name == '_write_chunk']
    if len(fw) != 1:
        raise TranslateError('_write_chunk not found')
    if ast.dump(fw[0].body[0]) != ast.dump(ast.parse('header, chunk = npy_header_and_body(chunk)').body[0]):
        raise TranslateError('_write_chunk does not start with header, chunk = npy_header_and_body(chunk)')
    writes = sorted(ast.unparse(n) for n in ast.walk(fw[0]) if isinstance(n, ast.Call) and isinstance(n.func, ast.Attribute)
                    and n.func.attr == 'write' and ast.unparse(n.func.value) in ('f', 'aligned'))
    if writes != ['aligned.write(chunk)', 'aligned.write(header)', 'f.write(chunk.reshape(-1))', 'f.write(header)']:
        raise TranslateError('_write_chunk: unexpected write calls %r' % (writes,))
    rel3 = 'katdal/chunkstore_s3.py'
    t3 = _parse(repo, rel3)
    fput = _func(_class(t3, 'S3ChunkStore', rel3), 'put_chunk', rel3)
    if not any(ast.dump(n) == ast.dump(ast.parse('npy_header, chunk = npy_header_and_body(chunk)').body[0]) for n in fput.body):
        raise TranslateError('S3ChunkStore.put_chunk does not call npy_header_and_body(chunk)')
    if not _has_node(fput, '_Multipart([npy_header, memoryview(chunk.reshape(-1).view(np.uint8))])'):
        raise TranslateError('S3ChunkStore.put_chunk: body is not [npy_header, memoryview(chunk.reshape(-1).view(np.uint8))]')
    # read_array: Fortran-ordered objects are reshaped to the reversed shape and transposed
    fr = [n for n in t3.body if isinstance(n, ast.FunctionDef) and n.name == 'read_array']
    if len(fr) != 1:
        raise TranslateError('read_array not found')
    want_if = ast.dump(ast.parse('if fortran_order:\n    data.shape = shape[::-1]\n    data = data.transpose()\n'
                                 'else:\n    data.shape = shape').body[0])
    ifs = [n for n in fr[0].body if isinstance(n, ast.If) and ast.unparse(n.test) == 'fortran_order']
    if len(ifs) != 1 or ast.dump(ifs[0]) != want_if or not isinstance(fr[0].body[-1], ast.Return) \
            or ast.unparse(fr[0].body[-1]) != 'return data' or fr[0].body[-2] is not ifs[0]:
        raise TranslateError('read_array: the fortran_order branch has an unexpected shape')
    if not _has_node(fr[0], 'np.ndarray(count, dtype=dtype)') or not _has_node(fr[0], 'fp.readinto(data.view(np.uint8))'):
        raise TranslateError('read_array: the flat read of the body has an unexpected shape')
    out.append('Definition cs_npy_order_c : bool := %s.' % ('true' if order_c else 'false'))


# ---------------------------------------------------------------------------------------------------
# generate_chunks: the whole body is matched statement by statement against a template; the holes (argument
# normalisation, comparison operators, rounding directions) are translated to Gallina and USED by Model/ChunksGenPy.v

_GC_TEMPLATE = """
if dims_to_split is None:
    dims_to_split = range(len(shape))
if max_dim_elements is None:
    max_dim_elements = {}
ndim = len(shape)
dims_to_split = [__NORM__ for dim in dims_to_split]
limits = {}
for dim, limit in max_dim_elements.items():
    dim = __NORM__
    limits[dim] = __MERGE__
max_dim_elements = limits
dim_elements = list(shape)
for i in dims_to_split:
    if i in max_dim_elements and __CAP__:
        if power_of_two:
            dim_elements[i] = _floor_power_of_two(max_dim_elements[i])
        else:
            dim_elements[i] = max_dim_elements[i]
max_elements = max_chunk_size / np.dtype(dtype).itemsize
for dim in dims_to_split:
    cur_elements = int(np.prod(dim_elements))
    if __BREAK__:
        break
    trg_elements_real = dim_elements[dim] * max_elements / cur_elements
    if __SMALL__:
        trg_elements = 1
    elif power_of_two:
        trg_elements = _floor_power_of_two(trg_elements_real)
    else:
        pieces = int(np.__R1__(shape[dim] / trg_elements_real))
        trg_elements = int(np.__R2__(shape[dim] / pieces))
    dim_elements[dim] = trg_elements
return da.core.blockdims_from_blockshape(shape, dim_elements)
"""


def _is_log_call(st):
    """logger.debug(...) / logging.info(...) / warnings.warn(...) as a statement."""
    if not (isinstance(st, ast.Expr) and isinstance(st.value, ast.Call)):
        return False
    f = st.value.func
    return (isinstance(f, ast.Attribute) and isinstance(f.value, ast.Name)
            and (f.value.id in ('logger', 'logging', 'log', '_logger', 'LOGGER')
                 or (f.value.id == 'warnings' and f.attr == 'warn')))


def _clean(body):
    """Statements without docstrings and logging calls (recursively in compound statements)."""
    out = []
    for st in body:
        if isinstance(st, ast.Expr) and isinstance(st.value, ast.Constant) and isinstance(st.value.value, str):
            continue
        if _is_log_call(st):
            continue
        if isinstance(st, ast.FunctionDef):
            st.body = _clean(st.body)
        for f in ('body', 'orelse', 'finalbody'):
            if isinstance(getattr(st, f, None), list) and not isinstance(st, ast.FunctionDef):
                setattr(st, f, _clean(getattr(st, f)))
        for h in getattr(st, 'handlers', []):
            h.body = _clean(h.body)
        out.append(st)
    return out


def _is_hole(name):
    return isinstance(name, str) and name.startswith('__') and name.endswith('__') and len(name) > 4


def _match(actual, templ, holes, what):
    """Structural equality of two asts; `Name('__X__')` in the template captures the actual subtree as hole X and an
    attribute / identifier spelled `__X__` captures the actual identifier."""
    if isinstance(templ, ast.Name) and _is_hole(templ.id):
        key = templ.id.strip('_')
        d = ast.unparse(actual)      # (unparse: a local captured as assignment target and as operand is the same name)
        if key in holes and ast.unparse(holes[key]) != d:
            raise TranslateError('%s: the two occurrences of %s differ' % (what, key))
        holes[key] = actual
        return
    if type(actual) is not type(templ):
        raise TranslateError('%s: expected %s, found %s (line %s)' % (what, type(templ).__name__, type(actual).__name__,
                                                                      getattr(actual, 'lineno', '?')))
    if isinstance(templ, ast.AST):
        for f in templ._fields:
            if f in ('ctx', 'type_comment', 'kind'):
                continue
            a, t = getattr(actual, f, None), getattr(templ, f, None)
            if _is_hole(t):
                if not isinstance(a, str):
                    raise TranslateError('%s: identifier expected for %s' % (what, t))
                holes[t.strip('_')] = a
                continue
            _match(a, t, holes, what)
    elif isinstance(templ, list):
        if len(actual) != len(templ):
            raise TranslateError('%s: %d statements / items where %d are expected (near line %s)' % (
                what, len(actual), len(templ), getattr(actual[0], 'lineno', '?') if actual else '?'))
        for a, t in zip(actual, templ):
            _match(a, t, holes, what)
    elif actual != templ:
        raise TranslateError('%s: %r where %r is expected' % (what, actual, templ))


_CMP = {ast.Lt: '<?', ast.LtE: '<=?', ast.Eq: '=?'}
_CMP_SWAP = {ast.Gt: '<?', ast.GtE: '<=?'}


def _zexpr(node, env, what, special=None):
    """Integer expression over the names in env -> Gallina term of type Z."""
    if special is not None:
        r = special(node)
        if r is not None:
            return r
    if isinstance(node, ast.Name) and node.id in env:
        return env[node.id]
    if isinstance(node, ast.Constant) and isinstance(node.value, int) and not isinstance(node.value, bool):
        return coq_Z(node.value)
    if isinstance(node, ast.UnaryOp) and isinstance(node.op, ast.USub):
        return '(- %s)' % _zexpr(node.operand, env, what, special)
    if isinstance(node, ast.BinOp) and type(node.op) in (ast.Add, ast.Sub, ast.Mult):
        op = {ast.Add: '+', ast.Sub: '-', ast.Mult: '*'}[type(node.op)]
        return '(%s %s %s)' % (_zexpr(node.left, env, what, special), op, _zexpr(node.right, env, what, special))
    if isinstance(node, ast.IfExp):
        return '(if %s then %s else %s)' % (_bexpr(node.test, env, what, special), _zexpr(node.body, env, what, special),
                                            _zexpr(node.orelse, env, what, special))
    if (isinstance(node, ast.Call) and isinstance(node.func, ast.Name) and node.func.id in ('min', 'max')
            and len(node.args) == 2 and not node.keywords):
        return '(Z.%s %s %s)' % (node.func.id, _zexpr(node.args[0], env, what, special), _zexpr(node.args[1], env, what, special))
    raise TranslateError('%s: unsupported integer expression %s' % (what, ast.unparse(node)))


def _fold_bool(fn, parts):
    # Generated.v does not import Bool: no `&&` / `||` notations
    r = parts[-1]
    for x in reversed(parts[:-1]):
        r = '(%s %s %s)' % (fn, x, r)
    return r


def _bexpr(node, env, what, special=None):
    if isinstance(node, ast.Compare):
        terms = [node.left] + list(node.comparators)
        parts = []
        for a, op, b in zip(terms, node.ops, terms[1:]):
            x, y = _zexpr(a, env, what, special), _zexpr(b, env, what, special)
            if type(op) in _CMP:
                parts.append('(%s %s %s)' % (x, _CMP[type(op)], y))
            elif type(op) in _CMP_SWAP:
                parts.append('(%s %s %s)' % (y, _CMP_SWAP[type(op)], x))
            elif isinstance(op, ast.NotEq):
                parts.append('(negb (%s =? %s))' % (x, y))
            else:
                raise TranslateError('%s: unsupported comparison in %s' % (what, ast.unparse(node)))
        return _fold_bool('andb', parts)
    if isinstance(node, ast.BoolOp):
        return _fold_bool('andb' if isinstance(node.op, ast.And) else 'orb',
                          [_bexpr(v, env, what, special) for v in node.values])
    if isinstance(node, ast.UnaryOp) and isinstance(node.op, ast.Not):
        return '(negb %s)' % _bexpr(node.operand, env, what, special)
    raise TranslateError('%s: unsupported condition %s' % (what, ast.unparse(node)))


def item_generate_chunks(repo, out):
    rel = 'katdal/chunkstore.py'
    tree = _parse(repo, rel)
    fn = [n for n in tree.body if isinstance(n, ast.FunctionDef) and n.name == 'generate_chunks']
    if len(fn) != 1:
        raise TranslateError('generate_chunks not found')
    fn = fn[0]
    a = fn.args
    if ([x.arg for x in a.args] != ['shape', 'dtype', 'max_chunk_size', 'dims_to_split', 'power_of_two', 'max_dim_elements']
            or [ast.unparse(d) for d in a.defaults] != ['None', 'False', 'None'] or a.vararg or a.kwarg or a.kwonlyargs
            or fn.decorator_list):
        raise TranslateError('generate_chunks: unexpected signature / defaults')
    body = _clean(fn.body)
    holes = {}
    _match(body, ast.parse(_GC_TEMPLATE).body, holes, 'generate_chunks')
    fp = [n for n in tree.body if isinstance(n, ast.FunctionDef) and n.name == '_floor_power_of_two']
    if len(fp) != 1:
        raise TranslateError('_floor_power_of_two not found')
    fbody = [s for s in fp[0].body if not (isinstance(s, ast.Expr) and isinstance(s.value, ast.Constant))]
    if ([x.arg for x in fp[0].args.args] != ['x'] or len(fbody) != 1
            or ast.dump(fbody[0]) != ast.dump(ast.parse('return 2 ** int(np.floor(np.log2(x)))').body[0])):
        raise TranslateError('_floor_power_of_two is not `return 2 ** int(np.floor(np.log2(x)))`')
    w = 'generate_chunks'
    # argument normalisation
    out.append('Definition cs_gc_norm_axis (ndim dim : Z) : Z := %s.'
               % _zexpr(holes['NORM'], {'ndim': 'ndim', 'dim': 'dim'}, w + ' (axis normalisation)'))
    get = ast.dump(ast.parse('limits.get(dim, limit)', mode='eval').body)
    out.append('Definition cs_gc_merge_limit (limit old : Z) : Z := %s.'
               % _zexpr(holes['MERGE'], {'limit': 'limit'}, w + ' (limit merge)',
                        special=lambda n: 'old' if ast.dump(n) == get else None))
    # per-dimension cap: max_dim_elements[i] ? shape[i]
    m, s = ast.dump(ast.parse('max_dim_elements[i]', mode='eval').body), ast.dump(ast.parse('shape[i]', mode='eval').body)
    out.append('Definition cs_gc_cap_applies (m s : Z) : bool := %s.'
               % _bexpr(holes['CAP'], {}, w + ' (cap condition)',
                        special=lambda n: 'm' if ast.dump(n) == m else ('s' if ast.dump(n) == s else None)))
    # budget test: cur_elements ? max_elements, both sides multiplied by the (positive) denominator md of max_elements
    c = holes['BREAK']
    if not (isinstance(c, ast.Compare) and len(c.ops) == 1
            and sorted(ast.unparse(x) for x in [c.left] + c.comparators) == ['cur_elements', 'max_elements']):
        raise TranslateError('generate_chunks: the break condition does not compare cur_elements with max_elements')
    out.append('Definition cs_gc_budget_met (cur_md mn : Z) : bool := %s.'
               % _bexpr(c, {'cur_elements': 'cur_md', 'max_elements': 'mn'}, w + ' (break condition)'))
    # trg_elements_real ? <int>, with trg_elements_real = n / dn (dn > 0): constants are scaled by dn
    c = holes['SMALL']
    if not (isinstance(c, ast.Compare) and len(c.ops) == 1):
        raise TranslateError('generate_chunks: unexpected `trg_elements_real < 1` test')
    sides = [c.left] + c.comparators
    kinds = ['t' if ast.unparse(x) == 'trg_elements_real' else
             ('c' if isinstance(x, ast.Constant) and isinstance(x.value, int) and not isinstance(x.value, bool) else '?') for x in sides]
    if sorted(kinds) != ['c', 't']:
        raise TranslateError('generate_chunks: the small-target test does not compare trg_elements_real with an integer')
    out.append('Definition cs_gc_trg_small (n dn : Z) : bool := %s.'
               % _bexpr(c, {'trg_elements_real': 'n'}, w + ' (small target)',
                        special=lambda n: '(%s * dn)' % coq_Z(n.value) if isinstance(n, ast.Constant) else None))
    for key, name in (('R1', 'cs_gc_pieces_ceil'), ('R2', 'cs_gc_trg_ceil')):
        if holes[key] not in ('ceil', 'floor'):
            raise TranslateError('generate_chunks: np.%s is neither ceil nor floor' % holes[key])
        out.append('Definition %s : bool := %s.' % (name, 'true' if holes[key] == 'ceil' else 'false'))


# ---------------------------------------------------------------------------------------------------
# _prune_chunks (whole body pinned; the two drop conditions are translated and USED by Model/Chunks.v), the offset shim
# and the block -> slices mapping of _put_map_blocks / the getter of get_dask_array (pinned)

_PRUNE_TEMPLATE = """
chunks = [list(c) for c in chunks]
shape = [sum(c) for c in chunks]
index = list(da.slicing.normalize_index(index, shape))
if not all(isinstance(idx, slice) and idx.step in (1, None) for idx in index):
    raise IndexError(__MSG__)
offset = list(offset) if offset else [0] * len(shape)
for axis in range(len(shape)):
    if index[axis] == slice(None):
        continue
    start, stop, step = index[axis].indices(shape[axis])
    assert step == 1
    start_chunk = 0
    while start_chunk < len(chunks[axis]) - 1 and __FRONT__:
        c = chunks[axis][start_chunk]
        offset[axis] += c
        start -= c
        stop -= c
        shape[axis] -= c
        start_chunk += 1
    stop_chunk = len(chunks[axis])
    while stop_chunk > start_chunk + 1 and __BACK__:
        stop_chunk -= 1
        c = chunks[axis][stop_chunk]
        shape[axis] -= c
    chunks[axis] = chunks[axis][start_chunk:stop_chunk]
    if not chunks[axis]:
        chunks[axis] = (0,)
    index[axis] = slice(start, stop)
chunks = tuple(tuple(c) for c in chunks)
index = tuple(index)
offset = tuple(offset)
return chunks, index, offset
"""

_SHIM_TEMPLATE = """
def func_with_offset(array_name, slices, *args, **kwargs):
    offset_slices = tuple(slice(s.start + i, s.stop + i) for (s, i) in zip(slices, offset))
    return func(array_name, offset_slices, *args, **kwargs)
return func_with_offset
"""

_PUT_BLOCK_TEMPLATE = """
put = store.put_chunk_noraise
if offset:
    put = _add_offset_to_slices(put, offset)
slices = tuple(slice(*loc) for loc in block_info[0]["array-location"])
success = put(array_name, slices, chunk)
singleton_shape = chunk.ndim * (1,)
return np.full(singleton_shape, success)
"""


def _nodoc(body):
    """Statements without docstrings and logging calls (also those of nested statements and function definitions)."""
    return _clean(body)


def _module_func(tree, name):
    fn = [n for n in tree.body if isinstance(n, ast.FunctionDef) and n.name == name]
    if len(fn) != 1:
        raise TranslateError('%s not found' % name)
    return fn[0]


def item_prune_and_shims(repo, out):
    rel = 'katdal/chunkstore.py'
    tree = _parse(repo, rel)
    fp = _module_func(tree, '_prune_chunks')
    if [a.arg for a in fp.args.args] != ['chunks', 'index', 'offset'] or [ast.unparse(d) for d in fp.args.defaults] != ['()']:
        raise TranslateError('_prune_chunks: unexpected signature')
    holes = {}
    _match(_nodoc(fp.body), ast.parse(_PRUNE_TEMPLATE).body, holes, '_prune_chunks')
    c1 = ast.dump(ast.parse('chunks[axis][start_chunk]', mode='eval').body)
    out.append('Definition cs_prune_front_drops (c start : Z) : bool := %s.'
               % _bexpr(holes['FRONT'], {'start': 'start'}, '_prune_chunks (first loop)',
                        special=lambda n: 'c' if ast.dump(n) == c1 else None))
    c2 = ast.dump(ast.parse('chunks[axis][stop_chunk - 1]', mode='eval').body)
    sh = ast.dump(ast.parse('shape[axis]', mode='eval').body)
    out.append('Definition cs_prune_back_drops (c shape stop : Z) : bool := %s.'
               % _bexpr(holes['BACK'], {'stop': 'stop'}, '_prune_chunks (second loop)',
                        special=lambda n: 'c' if ast.dump(n) == c2 else ('shape' if ast.dump(n) == sh else None)))
    fs = _module_func(tree, '_add_offset_to_slices')
    if [a.arg for a in fs.args.args] != ['func', 'offset']:
        raise TranslateError('_add_offset_to_slices: unexpected signature')
    _match(_nodoc(fs.body), ast.parse(_SHIM_TEMPLATE).body, {}, '_add_offset_to_slices')
    fb = _module_func(tree, '_put_map_blocks')
    if ([a.arg for a in fb.args.args] != ['chunk', 'block_info', 'store', 'array_name', 'offset']
            or [ast.unparse(d) for d in fb.args.defaults] != ['None', 'None', 'None', '()']):
        raise TranslateError('_put_map_blocks: unexpected signature')
    _match(_nodoc(fb.body), ast.parse(_PUT_BLOCK_TEMPLATE).body, {}, '_put_map_blocks')
    # get_dask_array: the shim is installed right after the pruning block iff any(offset); the getter passes the slices on
    cls = _class(tree, 'ChunkStore', rel)
    fg = _func(cls, 'get_dask_array', rel)
    prune = [i for i, n in enumerate(fg.body) if isinstance(n, ast.If) and ast.unparse(n.test) == 'index']
    want = ast.dump(ast.parse('if any(offset):\n    getter = _add_offset_to_slices(getter, offset)').body[0])
    if len(prune) != 1 or prune[0] + 1 >= len(fg.body) or ast.dump(fg.body[prune[0] + 1]) != want:
        raise TranslateError('get_dask_array: `if any(offset): getter = _add_offset_to_slices(getter, offset)` does not '
                             'follow the pruning block')
    if not ast.unparse(fg.body[-1]) == 'return array[index]':
        raise TranslateError('get_dask_array does not end with `return array[index]`')
    ga = _func(_class(tree, '_ArrayLikeGetter', rel), '__getitem__', rel)
    gbody = _nodoc(ga.body)
    if len(gbody) != 1 or ast.unparse(gbody[0]) != 'return self.getter(self.array_name, slices, self.dtype, **self.kwargs)':
        raise TranslateError('_ArrayLikeGetter.__getitem__ does not pass the slices on to the getter unchanged')
    gi = _func(_class(tree, '_ArrayLikeGetter', rel), '__init__', rel)
    if not any(ast.unparse(n) == 'self.shape = tuple((sum(c) for c in chunks))' for n in gi.body):
        raise TranslateError('_ArrayLikeGetter.__init__: shape is not tuple(sum(c) for c in chunks)')


# ---------------------------------------------------------------------------------------------------
# chunk_metadata, put_chunk_noraise, get_chunk_or_default and the `errors` dispatch of get_dask_array (pinned)

_CM_TEMPLATE = """
try:
    shape = tuple(s.stop - s.start for s in slices)
except (TypeError, AttributeError):
    raise TypeError(__M1__)
if not all([s.step in (1, None) for s in slices]):
    raise TypeError(__M2__)
chunk_name = cls.join(array_name, cls.chunk_id_str(slices))
if chunk is not None and chunk.shape != shape:
    raise BadChunk(__M3__)
if chunk is not None and chunk.dtype.hasobject:
    raise BadChunk(__M4__)
if dtype is not None and np.dtype(dtype).hasobject:
    raise BadChunk(__M5__)
return chunk_name, shape
"""

_NORAISE_TEMPLATE = """
try:
    self.put_chunk(array_name, slices, chunk)
except ChunkStoreError as err:
    return err
else:
    return None
"""

_DEFAULT_TEMPLATE = """
try:
    return self.get_chunk(array_name, slices, dtype)
except ChunkNotFound:
    chunk_name, shape = self.chunk_metadata(array_name, slices)
    return np.full(shape, default_value, dtype)
"""


def item_chunk_metadata(repo, out):
    """chunk_metadata (order of the validation steps: TypeError for the slices before BadChunk for shape / objects),
    put_chunk_noraise and get_chunk_or_default (absorbs ChunkNotFound only) -- pinned, nothing emitted."""
    rel = 'katdal/chunkstore.py'
    tree = _parse(repo, rel)
    cls = _class(tree, 'ChunkStore', rel)
    fm = _func(cls, 'chunk_metadata', rel)
    if ([a.arg for a in fm.args.args] != ['cls', 'array_name', 'slices', 'chunk', 'dtype']
            or [ast.unparse(d) for d in fm.args.defaults] != ['None', 'None']):
        raise TranslateError('chunk_metadata: unexpected signature')
    _match(_nodoc(fm.body), ast.parse(_CM_TEMPLATE).body, {}, 'chunk_metadata')
    fn = _func(cls, 'put_chunk_noraise', rel)
    _match(_nodoc(fn.body), ast.parse(_NORAISE_TEMPLATE).body, {}, 'put_chunk_noraise')
    fd = _func(cls, 'get_chunk_or_default', rel)
    if [ast.unparse(d) for d in fd.args.defaults] != ['0']:
        raise TranslateError('get_chunk_or_default: default_value is not 0')
    _match(_nodoc(fd.body), ast.parse(_DEFAULT_TEMPLATE).body, {}, 'get_chunk_or_default')
    # get_dask_array: how `errors` selects the getter
    fg = _func(cls, 'get_dask_array', rel)
    ifs = [n for n in fg.body if isinstance(n, ast.If) and ast.unparse(n.test).startswith('errors in')]
    if len(ifs) != 1:
        raise TranslateError('get_dask_array: the `errors` dispatch was not found')
    node = ifs[0]
    holes = {}
    _match(node, ast.parse('''
if errors in ('placeholder', 'dryrun'):
    getter = self.get_chunk_or_placeholder
    getter_kwargs['dryrun'] = errors == 'dryrun'
elif errors == 'raise':
    getter = self.get_chunk
elif isinstance(errors, str):
    raise ValueError(__MSG__)
else:
    getter = self.get_chunk_or_default
    getter_kwargs['default_value'] = errors
''').body[0], holes, 'get_dask_array (errors dispatch)')
    if [ast.unparse(d) for d in fg.args.defaults] != ['()', '()', '0']:
        raise TranslateError('get_dask_array: defaults of offset / index / errors changed')

# ---------------------------------------------------------------------------------------------------
# S3 object URL assembly: make_url = _normalise_bucket_name(urljoin(store URL, quote(relative path))) and its callers

_MAKE_URL_TEMPLATE = """
__Q__ = to_str(urllib.parse.quote(relative_path))
__U__ = urllib.parse.urljoin(self._url, __Q__)
return _normalise_bucket_name(__U__)
"""


def _calls_make_url(fn, what):
    """The argument expressions (unparsed) of every self.make_url(...) call in fn."""
    out = []
    for n in ast.walk(fn):
        if (isinstance(n, ast.Call) and isinstance(n.func, ast.Attribute) and n.func.attr == 'make_url'
                and isinstance(n.func.value, ast.Name) and n.func.value.id == 'self'):
            if len(n.args) != 1 or n.keywords:
                raise TranslateError('%s: make_url is not called with one positional argument' % what)
            out.append(n.args[0])
    return out


def _assigned_from(fn, var, what):
    """The value expressions assigned to the local `var` (single Name target or first element of a tuple target)."""
    vals = []
    for n in ast.walk(fn):
        if isinstance(n, ast.Assign) and len(n.targets) == 1:
            t = n.targets[0]
            if isinstance(t, ast.Name) and t.id == var:
                vals.append(n.value)
            elif isinstance(t, ast.Tuple) and t.elts and isinstance(t.elts[0], ast.Name) and t.elts[0].id == var:
                vals.append(n.value)
        elif isinstance(n, (ast.AugAssign, ast.AnnAssign, ast.NamedExpr)):
            t = n.target
            if isinstance(t, ast.Name) and t.id == var:
                raise TranslateError('%s: %s is modified in an unexpected way' % (what, var))
    return vals


def item_s3_url(repo, out):
    """make_url and what its callers hand to it -- pinned, nothing emitted (the model Model/ChunksUrl.v is hand-written
    and tied by the correspondence).  Docstrings, comments and logging calls are ignored, locals may be renamed."""
    rel = 'katdal/chunkstore_s3.py'
    tree = _parse(repo, rel)
    cls = _class(tree, 'S3ChunkStore', rel)
    fm = _func(cls, 'make_url', rel)
    if [a.arg for a in fm.args.args] != ['self', 'relative_path'] or fm.args.defaults or fm.args.kwonlyargs:
        raise TranslateError('S3ChunkStore.make_url: unexpected signature')
    holes = {}
    _match(_clean(fm.body), ast.parse(_MAKE_URL_TEMPLATE).body, holes, 'S3ChunkStore.make_url')
    for k in ('Q', 'U'):
        if not isinstance(holes.get(k), ast.Name):
            raise TranslateError('S3ChunkStore.make_url: a plain local variable is expected for %s' % k)
    # the store URL is the constructor argument, unchanged
    fi = _func(cls, '__init__', rel)
    want = ast.dump(ast.parse('self._url = to_str(url)').body[0])
    assigns = [n for n in ast.walk(fi) if isinstance(n, ast.Assign) and any(
        isinstance(t, ast.Attribute) and t.attr == '_url' for t in n.targets)]
    if len(assigns) != 1 or ast.dump(assigns[0]) != want:
        raise TranslateError('S3ChunkStore.__init__: self._url is not to_str(url)')
    others = [n for n in ast.walk(cls) if isinstance(n, (ast.Assign, ast.AugAssign)) and n is not assigns[0] and any(
        isinstance(t, ast.Attribute) and t.attr == '_url' and isinstance(t.value, ast.Name) and t.value.id == 'self'
        for t in (n.targets if isinstance(n, ast.Assign) else [n.target]))]
    if others:
        raise TranslateError('S3ChunkStore: self._url is assigned outside __init__')
    # chunks: make_url(<chunk name of chunk_metadata(array_name, slices, ...)> + _CHUNK_EXTENSION)
    for name in ('get_chunk', 'put_chunk'):
        fn = _func(cls, name, rel)
        what = 'S3ChunkStore.%s' % name
        args = _calls_make_url(fn, what)
        if len(args) != 1:
            raise TranslateError('%s: expected exactly one make_url call' % what)
        a = args[0]
        if not (isinstance(a, ast.BinOp) and isinstance(a.op, ast.Add) and isinstance(a.left, ast.Name)
                and isinstance(a.right, ast.Name) and a.right.id == '_CHUNK_EXTENSION'):
            raise TranslateError('%s: make_url argument is not <chunk name> + _CHUNK_EXTENSION' % what)
        vals = _assigned_from(fn, a.left.id, what)
        if len(vals) != 1:
            raise TranslateError('%s: the chunk name handed to make_url is assigned %d times' % (what, len(vals)))
        v = vals[0]
        ok = (isinstance(v, ast.Call) and isinstance(v.func, ast.Attribute) and v.func.attr == 'chunk_metadata'
              and isinstance(v.func.value, ast.Name) and v.func.value.id == 'self'
              and [ast.unparse(x) for x in v.args] == ['array_name', 'slices'])
        if not ok:
            raise TranslateError('%s: the chunk name is not that of self.chunk_metadata(array_name, slices, ...)' % what)
    # markers: make_url(self.join(array_name, <marker>)), directly or through one local
    for name in ('mark_complete', 'is_complete'):
        fn = _func(cls, name, rel)
        what = 'S3ChunkStore.%s' % name
        args = [a for a in _calls_make_url(fn, what)]
        if len(args) != 1:
            raise TranslateError('%s: expected exactly one make_url call' % what)
        a = args[0]
        if isinstance(a, ast.Name):
            vals = _assigned_from(fn, a.id, what)
            if len(vals) != 1:
                raise TranslateError('%s: the object name handed to make_url is assigned %d times' % (what, len(vals)))
            a = vals[0]
        ok = (isinstance(a, ast.Call) and isinstance(a.func, ast.Attribute) and a.func.attr == 'join'
              and isinstance(a.func.value, ast.Name) and a.func.value.id == 'self' and len(a.args) == 2 and not a.keywords
              and ast.unparse(a.args[0]) == 'array_name' and isinstance(a.args[1], ast.Constant))
        if not ok:
            raise TranslateError('%s: the object name is not self.join(array_name, <marker literal>)' % what)
    # create_array: the bucket of make_url(array_name)
    fn = _func(cls, 'create_array', rel)
    args = _calls_make_url(fn, 'S3ChunkStore.create_array')
    if len(args) != 1 or ast.unparse(args[0]) != 'array_name':
        raise TranslateError('S3ChunkStore.create_array: expected make_url(array_name)')


# ---------------------------------------------------------------------------------------------------
# the bytes of the .npy object: which format version katdal writes, which versions its own reader accepts, and the
# whole body of read_array (magic -> version dispatch -> object check -> count -> flat read -> order), pinned
# statement by statement; the version numbers are emitted and USED by Model/ChunksNpy.v

_READ_ARRAY_TEMPLATE = """
fp = _DetectTruncation(fp)
version = np.lib.format.read_magic(fp)
if version == __V1__:
    shape, fortran_order, dtype = np.lib.format.__R1__(fp)
elif version == __V2__:
    shape, fortran_order, dtype = np.lib.format.__R2__(fp)
else:
    raise ValueError(__MSG__)
if dtype.hasobject:
    raise ValueError(__MSG2__)
count = int(np.prod(shape))
data = np.ndarray(count, dtype=dtype)
fp.readinto(data.view(np.uint8))
if fortran_order:
    data.shape = shape[::-1]
    data = data.transpose()
else:
    data.shape = shape
return data
"""

_HEADER_READERS = {'read_array_header_1_0': 1, 'read_array_header_2_0': 2}


def _version_tuple(node, what):
    if not (isinstance(node, ast.Tuple) and len(node.elts) == 2
            and all(isinstance(e, ast.Constant) and isinstance(e.value, int) and not isinstance(e.value, bool)
                    for e in node.elts)):
        raise TranslateError('%s: version is not a literal (major, minor) tuple' % what)
    return node.elts[0].value, node.elts[1].value


def item_npy_file(repo, out):
    from vh.translate import parse_template
    rel = 'katdal/chunkstore.py'
    fn = _module_func(_parse(repo, rel), 'npy_header_and_body')
    body = _nodoc(fn.body)
    # the writer: header_data_from_array_<v> / write_array_header_<v> must name the same version
    calls = [ast.unparse(n.func) for n in ast.walk(fn) if isinstance(n, ast.Call)
             and ast.unparse(n.func).startswith('np.lib.format.')]
    if sorted(calls) != ['np.lib.format.header_data_from_array_1_0', 'np.lib.format.write_array_header_1_0']:
        raise TranslateError('npy_header_and_body: header is not written by header_data_from_array_1_0 / '
                             'write_array_header_1_0 (%r)' % (calls,))
    if [a.arg for a in fn.args.args] != ['chunk'] or len(body) != 6:
        raise TranslateError('npy_header_and_body: unexpected signature / number of statements')
    out.append('Definition cs_npy_write_major : Z := 1.')
    # the reader of the S3 back-end
    rel3 = 'katdal/chunkstore_s3.py'
    t3 = _parse(repo, rel3)
    fr = _module_func(t3, 'read_array')
    if [a.arg for a in fr.args.args] != ['fp'] or fr.args.defaults or fr.args.kwonlyargs:
        raise TranslateError('read_array: unexpected signature')
    holes = {}
    _match(_nodoc(fr.body), parse_template(_READ_ARRAY_TEMPLATE).body, holes, 'read_array')
    majors = []
    for v, r in (('V1', 'R1'), ('V2', 'R2')):
        major, minor = _version_tuple(holes[v], 'read_array')
        if minor != 0 or _HEADER_READERS.get(holes[r]) != major:
            raise TranslateError('read_array: version %r is not read by its own header reader (%s)' % ((major, minor), holes[r]))
        majors.append(major)
    if len(set(majors)) != len(majors):
        raise TranslateError('read_array: the same version is dispatched twice')
    out.append('Definition cs_npy_read_versions : list Z := [%s].' % '; '.join(coq_Z(m) for m in majors))
    # _read_chunk hands the response (or its raw file object) to read_array and returns what it returns
    frc = _module_func(t3, '_read_chunk')
    rets = [n for n in ast.walk(frc) if isinstance(n, ast.Return)]
    asg = sorted(ast.unparse(n) for n in ast.walk(frc) if isinstance(n, ast.Assign) and ast.unparse(n.targets[0]) == 'chunk')
    if len(rets) != 1 or ast.unparse(rets[0]) != 'return chunk' or asg != ['chunk = read_array(data)', 'chunk = read_array(data._fp)']:
        raise TranslateError('_read_chunk: the chunk is not what read_array returns')
    # the NPY back-end reads with np.load(filename, allow_pickle=False) and then compares shape and dtype
    reln = 'katdal/chunkstore_npy.py'
    fg = _func(_class(_parse(repo, reln), 'NpyFileChunkStore', reln), 'get_chunk', reln)
    if not _has_node(fg, 'np.load(filename, allow_pickle=False)'):
        raise TranslateError('NpyFileChunkStore.get_chunk does not read with np.load(filename, allow_pickle=False)')
    tests = [ast.unparse(n.test) for n in ast.walk(fg) if isinstance(n, ast.If)]
    if tests != ['chunk.shape != shape or chunk.dtype != dtype']:
        raise TranslateError('NpyFileChunkStore.get_chunk: unexpected shape / dtype test %r' % (tests,))


ITEMS = [item_chunk_names, item_dask_names, item_npy_body, item_generate_chunks, item_prune_and_shims, item_chunk_metadata,
         item_s3_url, item_npy_file]
