"""Translator items for C07: chunk naming constants of katdal/chunkstore*.py (fail-closed)."""
import ast

from vh.translate import TranslateError, _parse, _class, _func, _module_assign, coq_Z


def _class_const(cls, name, rel):
    found = [n for n in cls.body if isinstance(n, ast.Assign) and len(n.targets) == 1
             and isinstance(n.targets[0], ast.Name) and n.targets[0].id == name]
    if len(found) != 1 or not isinstance(found[0].value, ast.Constant):
        raise TranslateError('%s: class constant %s not found as a literal' % (rel, name))
    return found[0].value.value


def _codes(s):
    if not isinstance(s, str) or not all(32 <= ord(c) < 127 for c in s):
        raise TranslateError('string %r not representable' % (s,))
    return '[' + '; '.join(coq_Z(ord(c)) for c in s) + ']'


def _str_constants(node):
    return [n.value for n in ast.walk(node) if isinstance(n, ast.Constant) and isinstance(n.value, str)]


def item_chunk_names(repo, out):
    rel = 'katdal/chunkstore.py'
    tree = _parse(repo, rel)
    cls = _class(tree, 'ChunkStore', rel)
    sep = _class_const(cls, 'NAME_SEP', rel)
    width = _class_const(cls, 'NAME_INDEX_WIDTH', rel)
    if not (isinstance(sep, str) and len(sep) == 1):
        raise TranslateError('ChunkStore.NAME_SEP is not a single character')
    if not isinstance(width, int) or isinstance(width, bool):
        raise TranslateError('ChunkStore.NAME_INDEX_WIDTH is not an int')
    # join: cls.NAME_SEP.join(names)
    fj = _func(cls, 'join', rel)
    ret = [n for n in fj.body if isinstance(n, ast.Return)]
    if len(ret) != 1 or ast.dump(ret[0].value) != ast.dump(ast.parse('cls.NAME_SEP.join(names)', mode='eval').body):
        raise TranslateError('ChunkStore.join is not cls.NAME_SEP.join(names)')
    # chunk_id_str: '_'.join("{:0{w}d}".format(s.start, w=cls.NAME_INDEX_WIDTH) for s in slices)
    f = _func(cls, 'chunk_id_str', rel)
    ret = [n for n in f.body if isinstance(n, ast.Return)]
    if len(ret) != 1:
        raise TranslateError('chunk_id_str: expected a single return')
    call = ret[0].value
    try:
        idsep = call.func.value.value
        ok = (call.func.attr == 'join' and isinstance(idsep, str) and len(idsep) == 1 and len(call.args) == 1)
        gen = call.args[0]
        ok = ok and isinstance(gen, ast.GeneratorExp) and len(gen.generators) == 1
        g = gen.generators[0]
        ok = ok and isinstance(g.target, ast.Name) and isinstance(g.iter, ast.Name) and g.iter.id == 'slices' and not g.ifs
        elt = gen.elt
        ok = ok and elt.func.attr == 'format' and elt.func.value.value == '{:0{w}d}'
        ok = ok and len(elt.args) == 1 and ast.dump(elt.args[0]) == ast.dump(
            ast.Attribute(value=ast.Name(id=g.target.id, ctx=ast.Load()), attr='start', ctx=ast.Load()))
        ok = ok and len(elt.keywords) == 1 and elt.keywords[0].arg == 'w' and \
            ast.dump(elt.keywords[0].value) == ast.dump(ast.parse('cls.NAME_INDEX_WIDTH', mode='eval').body)
    except AttributeError:
        ok = False
    if not ok:
        raise TranslateError("chunk_id_str is not '<c>'.join('{:0{w}d}'.format(s.start, w=cls.NAME_INDEX_WIDTH) for s in slices)")
    # chunk_metadata: chunk_name = cls.join(array_name, cls.chunk_id_str(slices))
    fm = _func(cls, 'chunk_metadata', rel)
    want = ast.dump(ast.parse('chunk_name = cls.join(array_name, cls.chunk_id_str(slices))').body[0])
    if not any(ast.dump(n) == want for n in fm.body):
        raise TranslateError('chunk_metadata: chunk_name is not cls.join(array_name, cls.chunk_id_str(slices))')
    out.append('Definition cs_name_sep : Z := %s.' % coq_Z(ord(sep)))
    out.append('Definition cs_name_index_width : Z := %s.' % coq_Z(width))
    out.append('Definition cs_id_sep : Z := %s.' % coq_Z(ord(idsep)))
    # object key extension and completion marker (S3 and NPY back-ends)
    rel3 = 'katdal/chunkstore_s3.py'
    t3 = _parse(repo, rel3)
    ext = _module_assign(t3, '_CHUNK_EXTENSION', rel3)
    if not (isinstance(ext, ast.Constant) and isinstance(ext.value, str)):
        raise TranslateError('_CHUNK_EXTENSION is not a string literal')
    ext = ext.value
    reln = 'katdal/chunkstore_npy.py'
    tn = _parse(repo, reln)
    cn = _class(tn, 'NpyFileChunkStore', reln)
    for fn in ('get_chunk', 'put_chunk'):
        consts = _str_constants(_func(cn, fn, reln))
        if ext not in consts:
            raise TranslateError('NpyFileChunkStore.%s does not use the extension %r' % (fn, ext))
    c3 = _class(t3, 'S3ChunkStore', rel3)
    marks = set()
    for (c, r) in ((cn, reln), (c3, rel3)):
        for fn in ('mark_complete', 'is_complete'):
            body = _func(c, fn, r)
            consts = [n.args[-1].value for n in ast.walk(body)
                      if isinstance(n, ast.Call) and isinstance(n.func, ast.Attribute) and n.func.attr == 'join'
                      and n.args and isinstance(n.args[-1], ast.Constant) and isinstance(n.args[-1].value, str)]
            if len(consts) != 1:
                raise TranslateError('%s.%s: expected exactly one join(..., <marker literal>), got %r' % (c.name, fn, consts))
            marks.add(consts[0])
    if len(marks) != 1:
        raise TranslateError('completion marker names differ: %r' % sorted(marks))
    out.append('Definition cs_chunk_ext : list Z := %s.' % _codes(ext))
    out.append('Definition cs_complete : list Z := %s.' % _codes(marks.pop()))
    # bucket-name normalisation: path_components[0].replace('_', '-') and split('/', 1)
    fb = [n for n in t3.body if isinstance(n, ast.FunctionDef) and n.name == '_normalise_bucket_name']
    if len(fb) != 1:
        raise TranslateError('_normalise_bucket_name not found')
    want = [
        "split_url = urllib.parse.urlsplit(url)",
        "path_components = split_url.path.lstrip('/').split('/', 1)",
        None,
        "path = '/' + '/'.join(path_components)",
        "return split_url._replace(path=path).geturl()",
    ]
    body = [s for s in fb[0].body if not (isinstance(s, ast.Expr) and isinstance(s.value, ast.Constant))]
    if len(body) != len(want):
        raise TranslateError('_normalise_bucket_name: unexpected number of statements')
    for s, w in zip(body, want):
        if w is not None and ast.dump(s) != ast.dump(ast.parse(w).body[0]):
            raise TranslateError('_normalise_bucket_name: statement differs from %r' % w)
    s = body[2]
    try:
        args = s.value.args
        ok = (len(args) == 2 and all(isinstance(a, ast.Constant) and isinstance(a.value, str) and len(a.value) == 1
                                     and a.value not in "'\\" for a in args))
        ok = ok and ast.dump(s) == ast.dump(ast.parse(
            "path_components[0] = path_components[0].replace('%s', '%s')" % (args[0].value, args[1].value)).body[0])
    except (AttributeError, IndexError):
        ok = False
    if not ok:
        raise TranslateError("_normalise_bucket_name: expected path_components[0] = path_components[0].replace(c1, c2)")
    out.append('Definition cs_bucket_from : Z := %s.' % coq_Z(ord(s.value.args[0].value)))
    out.append('Definition cs_bucket_to : Z := %s.' % coq_Z(ord(s.value.args[1].value)))


ITEMS = [item_chunk_names]
