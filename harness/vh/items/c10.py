"""C10 translator items (fail-closed Python-ast matching).

Every katdal function the Coq model of C10 mirrors is matched statement by statement against a fixed SKELETON; the
constants, comparison operators, searchsorted sides, default arguments and small decision expressions sit in HOLES
whose content is compiled to Gallina definitions (`c10_*` in coq/Gen/Generated.v) that Model/SensorToCatSrc.v USES.
An edit inside a hole changes the generated definition (the model follows the code, the bridging lemmas of
Proofs/SensorToCatSrcP.v and hence the theorems of Props/C10.v are re-checked against it and break if the meaning
changed); an edit anywhere else changes the skeleton and is refused (TranslateError = broken tie).

  item_c10_generator     categorical._single_event_per_dump
  item_c10_s2c           categorical.sensor_to_categorical (incl. signature / default arguments)
  item_c10_catdata       categorical.CategoricalData.__init__, _lookup, the slice branch of __getitem__
  item_c10_extract       sensordata.SensorCache._extract, dummy_sensor_getter, the sort / keep-last of
                         remove_duplicates_and_invalid_values, SensorCache.get (the extraction call)
  item_c10_tables        dataset.DEFAULT_SENSOR_PROPS and the SENSOR_PROPS of h5datav1/2/3, visdatav4
  item_c10_values        categorical.ComparableArrayWrapper (__eq__, __ne__, __hash__, unwrap), unique_in_order
"""
import ast
import copy
from fractions import Fraction

from vh.translate import TranslateError, _class, _func, _parse, coq_string, normalise_source

CAT = 'katdal/categorical.py'
SD = 'katdal/sensordata.py'


# --------------------------------------------------------------------------------------------- expression compiler

def _txt(node):
    return ast.unparse(node)


_CMP = {ast.Lt: '%s <? %s', ast.LtE: '%s <=? %s', ast.Gt: '%s >? %s', ast.GtE: '%s >=? %s',
        ast.Eq: '%s =? %s', ast.NotEq: 'negb (%s =? %s)'}
_BCMP = {ast.Eq: 'Bool.eqb %s %s', ast.NotEq: 'negb (Bool.eqb %s %s)'}


def compile_expr(node, env, what):
    """Python expression -> (gallina text, 'Z' | 'bool').  `env`: unparsed python text of an atom -> (coq var, type).
    Supported: atoms of env, int constants, True/False, + - * on Z, unary -, (chained) comparisons of Z atoms,
    == / != of bool atoms, and / or / not on bool."""
    t = _txt(node)
    if t in env:
        return env[t]
    if isinstance(node, ast.Constant):
        if isinstance(node.value, bool):
            return ('true' if node.value else 'false'), 'bool'
        if isinstance(node.value, int):
            return '(%d)' % node.value, 'Z'
    if isinstance(node, ast.UnaryOp) and isinstance(node.op, ast.USub):
        a, ta = compile_expr(node.operand, env, what)
        if ta == 'Z':
            return '(- %s)' % a, 'Z'
    if isinstance(node, ast.UnaryOp) and isinstance(node.op, ast.Not):
        a, ta = compile_expr(node.operand, env, what)
        if ta == 'bool':
            return 'negb (%s)' % a, 'bool'
    if isinstance(node, ast.BinOp) and isinstance(node.op, (ast.Add, ast.Sub, ast.Mult)):
        a, ta = compile_expr(node.left, env, what)
        b, tb = compile_expr(node.right, env, what)
        if ta == tb == 'Z':
            return '(%s %s %s)' % (a, {ast.Add: '+', ast.Sub: '-', ast.Mult: '*'}[type(node.op)], b), 'Z'
    if isinstance(node, ast.Compare):
        parts = []
        left = node.left
        for op, right in zip(node.ops, node.comparators):
            a, ta = compile_expr(left, env, what)
            b, tb = compile_expr(right, env, what)
            if ta == tb == 'Z' and type(op) in _CMP:
                parts.append('(' + _CMP[type(op)] % (a, b) + ')')
            elif ta == tb == 'bool' and type(op) in _BCMP:
                parts.append('(' + _BCMP[type(op)] % (a, b) + ')')
            else:
                raise TranslateError('%s: unsupported comparison %s' % (what, _txt(node)))
            left = right
        return ('(' + ' && '.join(parts) + ')' if len(parts) > 1 else parts[0]), 'bool'
    if isinstance(node, ast.BoolOp):
        vals = [compile_expr(v, env, what) for v in node.values]
        if all(tv == 'bool' for _, tv in vals):
            return '(' + (' && ' if isinstance(node.op, ast.And) else ' || ').join(v for v, _ in vals) + ')', 'bool'
    raise TranslateError('%s: unsupported expression `%s`' % (what, t[:100]))


class Skeleton:
    """A function (or class method) whose body must equal a fixed text once the holes are cut out."""

    def __init__(self, fn, what, out):
        self.fn = copy.deepcopy(fn)
        self.what = what
        self.out = out
        body = self.fn.body
        if body and isinstance(body[0], ast.Expr) and isinstance(body[0].value, ast.Constant) \
                and isinstance(body[0].value.value, str):
            del body[0]                                           # docstring

    def _locate(self, path):
        parent, key = None, None
        node = self.fn
        for step in path:
            parent, key = node, step
            try:
                node = node[step] if isinstance(step, int) else getattr(node, step)
            except (IndexError, AttributeError, TypeError):
                raise TranslateError('%s: nothing at %r (function restructured)' % (self.what, path))
        return parent, key, node

    def _replace(self, parent, key, new):
        if isinstance(key, int):
            parent[key] = new
        else:
            setattr(parent, key, new)

    def hole(self, path, name, atoms, typ):
        """Compile the expression at `path` over `atoms` = [(python text, coq var, type)] into
        `Definition name (vars) : typ := ...` and replace it by HOLE_name(atoms) in the skeleton."""
        parent, key, node = self._locate(path)
        if not isinstance(node, ast.expr):
            raise TranslateError('%s: %r is not an expression' % (self.what, path))
        env = {a: (v, t) for a, v, t in atoms}
        text, t = compile_expr(node, env, '%s:%s' % (self.what, name))
        if t != typ:
            raise TranslateError('%s:%s: expression `%s` has type %s, expected %s' % (self.what, name, _txt(node), t, typ))
        binders = ''.join(' (%s : %s)' % (v, t) for _, v, t in atoms)
        self.out.append('Definition %s%s : %s := %s.   (* %s *)' % (name, binders, typ, text, _txt(node)))
        call = ast.Call(func=ast.Name(id='HOLE_' + name, ctx=ast.Load()),
                        args=[ast.parse(a, mode='eval').body for a, _, _ in atoms], keywords=[])
        self._replace(parent, key, call)

    def side(self, path, name):
        """The call at `path` must be X.searchsorted(v[, side='left'|'right']); emits `name : bool` (true = right) and
        removes the keyword."""
        _, _, node = self._locate(path)
        if not (isinstance(node, ast.Call) and isinstance(node.func, ast.Attribute) and node.func.attr == 'searchsorted'
                and len(node.args) == 1):
            raise TranslateError('%s:%s: not a searchsorted call with one positional argument' % (self.what, name))
        right = False
        for kw in node.keywords:
            if kw.arg == 'side' and isinstance(kw.value, ast.Constant) and kw.value.value in ('left', 'right'):
                right = kw.value.value == 'right'
            else:
                raise TranslateError('%s:%s: unexpected searchsorted keyword %s' % (self.what, name, _txt(kw.value)))
        node.keywords = []
        self.out.append('Definition %s : bool := %s.   (* searchsorted side=%s *)'
                        % (name, 'true' if right else 'false', "'right'" if right else "'left'"))

    def fraction(self, path, name):
        """A float constant that is an exact small dyadic rational -> `name : Z * Z` (numerator, denominator)."""
        parent, key, node = self._locate(path)
        if not (isinstance(node, ast.Constant) and isinstance(node.value, (int, float)) and not isinstance(node.value, bool)):
            raise TranslateError('%s:%s: not a numeric constant' % (self.what, name))
        f = Fraction(node.value)
        if f.denominator > 1024 or abs(f.numerator) > 1024:
            raise TranslateError('%s:%s: constant %r is not a small rational' % (self.what, name, node.value))
        self.out.append('Definition %s : Z * Z := ((%d), (%d)).   (* %r *)' % (name, f.numerator, f.denominator, node.value))
        self._replace(parent, key, ast.Name(id='HOLE_' + name, ctx=ast.Load()))

    def default(self, argname, name, kind):
        """Default value of a keyword argument: kind 'none' (must be None; emits nothing) or 'bool'."""
        a = self.fn.args
        names = [x.arg for x in a.args]
        if argname not in names:
            raise TranslateError('%s: argument %s not found' % (self.what, argname))
        k = names.index(argname) - (len(names) - len(a.defaults))
        if k < 0:
            raise TranslateError('%s: argument %s has no default' % (self.what, argname))
        d = a.defaults[k]
        if kind == 'bool' and isinstance(d, ast.Constant) and isinstance(d.value, bool):
            self.out.append('Definition %s : bool := %s.   (* %s=%s *)' % (name, 'true' if d.value else 'false', argname, d.value))
            a.defaults[k] = ast.Name(id='HOLE_' + name, ctx=ast.Load())
        elif kind == 'none' and isinstance(d, ast.Constant) and d.value is None:
            pass
        else:
            raise TranslateError('%s: default of %s is `%s`' % (self.what, argname, _txt(d)))

    def finish(self, expected):
        self.fn.decorator_list = []
        got = _txt(self.fn).strip()
        exp = normalise_source(expected.strip()).strip()   # same normal form as the parsed katdal files, whatever the Python version
        if got != exp:
            g, e = got.split('\n'), exp.split('\n')
            for n in range(max(len(g), len(e))):
                a = g[n] if n < len(g) else '<missing>'
                b = e[n] if n < len(e) else '<extra>'
                if a != b:
                    raise TranslateError('%s: skeleton differs at line %d: found `%s`, expected `%s`'
                                         % (self.what, n + 1, a.strip()[:110], b.strip()[:110]))
            raise TranslateError('%s: skeleton differs' % self.what)


def _module_func(tree, name, rel):
    found = [n for n in tree.body if isinstance(n, ast.FunctionDef) and n.name == name]
    if len(found) != 1:
        raise TranslateError('%s: expected exactly one function %s, found %d' % (rel, name, len(found)))
    return found[0]


def _method(tree, cls, name, rel):
    c = _class(tree, cls, rel)
    found = [n for n in c.body if isinstance(n, ast.FunctionDef) and n.name == name]
    if len(found) != 1:
        raise TranslateError('%s: expected exactly one method %s.%s, found %d' % (rel, cls, name, len(found)))
    return found[0]


# --------------------------------------------------------------------------------------------- _single_event_per_dump

GEN_SKELETON = '''
def _single_event_per_dump(events, greedy):
    previous_winning_event = HOLE_c10_gen_first_winner()
    previous_dump = HOLE_c10_gen_first_dump()
    for (current_event, current_dump) in enumerate(events):
        if HOLE_c10_gen_new_dump(current_dump, previous_dump):
            assert current_event >= 1, 'First sensor event not at dump 0'
            event_at_dump_start = HOLE_c10_gen_dump_start(current_event)
            if HOLE_c10_gen_last_wins(greedy[previous_winning_event]):
                previous_winning_event = event_at_dump_start
            winning_dump = events[previous_winning_event]
            if HOLE_c10_gen_yield_winner(previous_dump, winning_dump, current_dump):
                yield previous_winning_event
            if HOLE_c10_gen_loser(event_at_dump_start, previous_winning_event):
                events[event_at_dump_start] += HOLE_c10_gen_push_by()
                if HOLE_c10_gen_yield_pushed(current_dump, events[event_at_dump_start]):
                    yield event_at_dump_start
                previous_winning_event = event_at_dump_start
            previous_dump = current_dump
        if HOLE_c10_gen_greedy_now(current_event, len(greedy), greedy[current_event]):
            previous_winning_event = current_event
'''


def item_c10_generator(repo, out):
    tree = _parse(repo, CAT)
    sk = Skeleton(_module_func(tree, '_single_event_per_dump', CAT), 'categorical._single_event_per_dump', out)
    out.append('(* katdal/categorical.py _single_event_per_dump: decision expressions *)')
    Z, B = 'Z', 'bool'
    sk.hole(['body', 0, 'value'], 'c10_gen_first_winner', [], Z)
    sk.hole(['body', 1, 'value'], 'c10_gen_first_dump', [], Z)
    loop = ['body', 2, 'body']
    nd = loop + [0]
    sk.hole(nd + ['test'], 'c10_gen_new_dump', [('current_dump', 'current_dump', Z), ('previous_dump', 'previous_dump', Z)], B)
    sk.hole(nd + ['body', 1, 'value'], 'c10_gen_dump_start', [('current_event', 'current_event', Z)], Z)
    sk.hole(nd + ['body', 2, 'test'], 'c10_gen_last_wins', [('greedy[previous_winning_event]', 'winner_is_greedy', B)], B)
    sk.hole(nd + ['body', 4, 'test'], 'c10_gen_yield_winner',
            [('previous_dump', 'previous_dump', Z), ('winning_dump', 'winning_dump', Z), ('current_dump', 'current_dump', Z)], B)
    sk.hole(nd + ['body', 5, 'test'], 'c10_gen_loser',
            [('event_at_dump_start', 'event_at_dump_start', Z), ('previous_winning_event', 'previous_winning_event', Z)], B)
    sk.hole(nd + ['body', 5, 'body', 0, 'value'], 'c10_gen_push_by', [], Z)
    sk.hole(nd + ['body', 5, 'body', 1, 'test'], 'c10_gen_yield_pushed',
            [('current_dump', 'current_dump', Z), ('events[event_at_dump_start]', 'pushed_dump', Z)], B)
    sk.hole(loop + [1, 'test'], 'c10_gen_greedy_now',
            [('current_event', 'current_event', Z), ('len(greedy)', 'len_greedy', Z), ('greedy[current_event]', 'current_is_greedy', B)], B)
    sk.finish(GEN_SKELETON)


# --------------------------------------------------------------------------------------------- sensor_to_categorical

S2C_SKELETON = '''
def sensor_to_categorical(sensor_timestamps, sensor_values, dump_midtimes, dump_period, transform=None, initial_value=None, greedy_values=None, allow_repeats=HOLE_c10_default_allow_repeats, **kwargs):
    sensor_timestamps = np.atleast_1d(sensor_timestamps)
    sensor_values = np.atleast_1d(sensor_values)
    dump_endtimes = dump_midtimes + HOLE_c10_end_offset * dump_period
    num_dumps = len(dump_endtimes)
    dump_endtimes = np.r_[HOLE_c10_prior_end(dump_endtimes[0], dump_period), dump_endtimes]
    wrapped_values = len(sensor_values) and isinstance(sensor_values[0], ComparableArrayWrapper)
    events = HOLE_c10_event_dump(dump_endtimes.searchsorted(sensor_timestamps))
    first_proper_event = events.searchsorted(HOLE_c10_prior_dump())
    if HOLE_c10_has_prior(first_proper_event):
        first_proper_event -= HOLE_c10_prior_back()
        events[first_proper_event] = HOLE_c10_prior_moved_to()
    one_past_last_event = events.searchsorted(HOLE_c10_late_dump(num_dumps))
    within_dumps = slice(first_proper_event, one_past_last_event)
    sensor_values = sensor_values[within_dumps]
    events = events[within_dumps]
    if transform is not None:
        if wrapped_values:
            orig_transform = transform

            def transform(value):
                """Unwrap wrapped value, transform and rewrap."""
                return ComparableArrayWrapper(orig_transform(value.unwrapped))
        sensor_values = np.array([transform(y) for y in sensor_values])
    if HOLE_c10_need_initial(len(events), events[0], initial_value is not None):
        if wrapped_values:
            initial_value = ComparableArrayWrapper(initial_value)
        sensor_values = np.r_[[initial_value], sensor_values]
        events = np.r_[HOLE_c10_initial_dump(), events]
    events[0] = HOLE_c10_first_dump()
    greedy_values = () if greedy_values is None else greedy_values
    if wrapped_values:
        greedy_values = [ComparableArrayWrapper(ComparableArrayWrapper.unwrap(value)) for value in greedy_values]
    greedy = [value in greedy_values for value in sensor_values]
    events = np.r_[events, HOLE_c10_terminator(num_dumps)]
    cleaned_up = list(_single_event_per_dump(events, greedy))
    sensor_values = sensor_values[cleaned_up]
    events = events[cleaned_up]
    if HOLE_c10_remove_repeats(allow_repeats):
        changes_value = [n for n in range(len(sensor_values)) if HOLE_c10_changes_value(n, sensor_values[n] != sensor_values[n - 1])]
        sensor_values = sensor_values[changes_value]
        events = events[changes_value]
    return CategoricalData(sensor_values, np.r_[events, HOLE_c10_final_event(num_dumps)])
'''


def item_c10_s2c(repo, out):
    tree = _parse(repo, CAT)
    sk = Skeleton(_module_func(tree, 'sensor_to_categorical', CAT), 'categorical.sensor_to_categorical', out)
    out.append('(* katdal/categorical.py sensor_to_categorical: defaults, searchsorted sides, constants, decisions *)')
    Z, B = 'Z', 'bool'
    for a in ('transform', 'initial_value', 'greedy_values'):
        sk.default(a, None, 'none')
    sk.default('allow_repeats', 'c10_default_allow_repeats', 'bool')
    b = ['body']
    sk.fraction(b + [2, 'value', 'right', 'left'], 'c10_end_offset')
    sk.hole(b + [4, 'value', 'slice', 'elts', 0], 'c10_prior_end',
            [('dump_endtimes[0]', 'first_end', Z), ('dump_period', 'dump_period', Z)], Z)
    # events = dump_endtimes.searchsorted(sensor_timestamps) - 1
    _, _, rhs = sk._locate(b + [6, 'value'])
    calls = [n for n in ast.walk(rhs) if isinstance(n, ast.Call)]
    if len(calls) != 1:
        raise TranslateError('sensor_to_categorical: `events = ...searchsorted(...) ...` not found')
    sk.side(_path_to(sk.fn, calls[0]), 'c10_events_side_right')
    sk.hole(b + [6, 'value'], 'c10_event_dump', [('dump_endtimes.searchsorted(sensor_timestamps)', 'position', Z)], Z)
    sk.side(b + [7, 'value'], 'c10_prior_side_right')
    sk.hole(b + [7, 'value', 'args', 0], 'c10_prior_dump', [], Z)
    sk.hole(b + [8, 'test'], 'c10_has_prior', [('first_proper_event', 'first_proper_event', Z)], B)
    sk.hole(b + [8, 'body', 0, 'value'], 'c10_prior_back', [], Z)
    sk.hole(b + [8, 'body', 1, 'value'], 'c10_prior_moved_to', [], Z)
    sk.side(b + [9, 'value'], 'c10_late_side_right')
    sk.hole(b + [9, 'value', 'args', 0], 'c10_late_dump', [('num_dumps', 'num_dumps', Z)], Z)
    sk.hole(b + [14, 'test'], 'c10_need_initial',
            [('len(events)', 'len_events', Z), ('events[0]', 'first_event_dump', Z), ('initial_value is not None', 'has_initial', B)], B)
    sk.hole(b + [14, 'body', 2, 'value', 'slice', 'elts', 0], 'c10_initial_dump', [], Z)
    sk.hole(b + [15, 'value'], 'c10_first_dump', [], Z)
    # (statement 17 = `if wrapped_values: greedy_values = [wrapped ...]`: the repair of finding F27 - greedy membership of
    #  array-valued sensors compares WRAPPED values, i.e. goes through ComparableArrayWrapper.__eq__ = caw_eq_src; the
    #  unrepaired source, which compares a wrapped value with whatever was handed over, is refused by the skeleton)
    sk.hole(b + [19, 'value', 'slice', 'elts', 1], 'c10_terminator', [('num_dumps', 'num_dumps', Z)], Z)
    sk.hole(b + [23, 'test'], 'c10_remove_repeats', [('allow_repeats', 'allow_repeats', B)], B)
    sk.hole(b + [23, 'body', 0, 'value', 'generators', 0, 'ifs', 0], 'c10_changes_value',
            [('n', 'n', Z), ('sensor_values[n] != sensor_values[n - 1]', 'differs_from_previous', B)], B)
    sk.hole(b + [24, 'value', 'args', 1, 'slice', 'elts', 1], 'c10_final_event', [('num_dumps', 'num_dumps', Z)], Z)
    sk.finish(S2C_SKELETON)


def _path_to(root, target):
    """Path (attribute names / indices) from root to target node."""
    def rec(node, path):
        if node is target:
            return path
        for field, value in ast.iter_fields(node):
            if isinstance(value, list):
                for i, v in enumerate(value):
                    if isinstance(v, ast.AST):
                        r = rec(v, path + [field, i])
                        if r is not None:
                            return r
            elif isinstance(value, ast.AST):
                r = rec(value, path + [field])
                if r is not None:
                    return r
        return None
    p = rec(root, [])
    if p is None:
        raise TranslateError('internal: node not found')
    return p


def _find_parent(root, target):
    p = _path_to(root, target)
    node = root
    for step in p[:-1]:
        node = node[step] if isinstance(step, int) else getattr(node, step)
    return node, p[-1]


# --------------------------------------------------------------------------------------------- CategoricalData

CATINIT_SKELETON = '''
def __init__(self, sensor_values, events):
    (values, self.indices) = unique_in_order(sensor_values, return_inverse=True)
    self.unique_values = [ComparableArrayWrapper.unwrap(v) for v in values]
    self.events = np.asarray(events)
'''

LOOKUP_SKELETON = '''
def _lookup(self, dumps):
    preceding_events = HOLE_c10_lookup_event(self.events.searchsorted(dumps))
    if np.any(HOLE_c10_lookup_before(preceding_events)) or np.any(HOLE_c10_lookup_after(preceding_events, len(self.indices))):
        raise IndexError('Some dumps in (%s) are outside event range: %d <= dumps < %d' % (dumps, self.events[0], self.events[-1]))
    return self.indices[preceding_events]
'''


GETITEM_TAIL = '''
try:
    if not values:
        all_possible_values = np.array(self.unique_values)
        dtype = all_possible_values.dtype
        shape = all_possible_values.shape
        return np.empty((0,) + shape[1:], dtype)
    return np.array(values)
except ValueError:
    ragged = np.empty(len(values), dtype=object)
    for (n, value) in enumerate(values):
        ragged[n] = value
    return ragged
'''


def item_c10_catdata(repo, out):
    tree = _parse(repo, CAT)
    out.append('(* katdal/categorical.py CategoricalData.__init__ / _lookup / __getitem__(slice) *)')
    Skeleton(_method(tree, 'CategoricalData', '__init__', CAT), 'CategoricalData.__init__', out).finish(CATINIT_SKELETON)
    sk = Skeleton(_method(tree, 'CategoricalData', '_lookup', CAT), 'CategoricalData._lookup', out)
    _, _, rhs = sk._locate(['body', 0, 'value'])
    calls = [n for n in ast.walk(rhs) if isinstance(n, ast.Call)]
    if len(calls) != 1:
        raise TranslateError('CategoricalData._lookup: searchsorted call not found')
    sk.side(_path_to(sk.fn, calls[0]), 'c10_lookup_side_right')
    sk.hole(['body', 0, 'value'], 'c10_lookup_event', [('self.events.searchsorted(dumps)', 'position', 'Z')], 'Z')
    test = ['body', 1, 'test', 'values']
    sk.hole(test + [0, 'args', 0], 'c10_lookup_before', [('preceding_events', 'preceding_event', 'Z')], 'bool')
    sk.hole(test + [1, 'args', 0], 'c10_lookup_after',
            [('preceding_events', 'preceding_event', 'Z'), ('len(self.indices)', 'len_indices', 'Z')], 'bool')
    sk.finish(LOOKUP_SKELETON)
    # data[:] : the slice branch of __getitem__ must enumerate range(*key.indices(self.events[-1])) and look each dump up
    gi = _method(tree, 'CategoricalData', '__getitem__', CAT)
    body = [n for n in gi.body if not (isinstance(n, ast.Expr) and isinstance(n.value, ast.Constant))]
    want = ['if isinstance(key, slice):\n    key = list(range(*key.indices(self.events[-1])))\n'
            'elif np.asarray(key).dtype == bool and len(np.asarray(key)) == self.events[-1]:\n    key = np.nonzero(key)[0]',
            'indices = self._lookup(key)',
            'try:\n    values = [self.unique_values[index] for index in indices]\nexcept TypeError:\n'
            '    return self.unique_values[indices]']
    got = [_txt(n) for n in body[:3]]
    if got != want:
        bad = next(k for k in range(3) if k >= len(got) or got[k] != want[k])
        raise TranslateError('CategoricalData.__getitem__: statement %d is `%s`' % (bad + 1, (got[bad] if bad < len(got) else '')[:100]))
    # the per-dump values are stacked; values of different shapes (np.array refuses them: finding F112, repaired) are
    # delivered as a 1-d object array with ONE entry per selected dump, in the same order
    if len(body) != 4 or _txt(body[-1]) != normalise_source(GETITEM_TAIL.strip()).strip():
        raise TranslateError('CategoricalData.__getitem__: does not end with `try: ... return np.array(values)` / `except ValueError:` '
                             '-> object array with one entry per selected value (found `%s`)'
                             % _txt(body[-1])[:80].replace('\n', ' / '))


# --------------------------------------------------------------------------------------------- the public path

EXTRACT_SKELETON = """
def _extract(sensor_getter, timestamps, dump_period, **props):
    sensor_data = sensor_getter.get()
    if sensor_data:
        time_offset = props.get('time_offset', HOLE_c10_default_time_offset())
        sensor_data = SensorData(sensor_data.name, sensor_data.timestamp + time_offset, sensor_data.value, sensor_data.status)
        sensor_data = remove_duplicates_and_invalid_values(sensor_data)
    if not sensor_data:
        sensor_data = dummy_sensor_getter(sensor_data.name, value=props.get('initial_value'), dtype=sensor_data.value.dtype).get()
        logger.warning("No usable data found for sensor '%s' - replaced with dummy data (%r)" % (sensor_data.name, sensor_data.value[0]))
    categ = props.get('categorical', HOLE_c10_categ_default(np.issubdtype(sensor_data.value.dtype, np.floating)))
    props['categorical'] = categ
    if categ:
        sensor_data = sensor_to_categorical(sensor_data.timestamp, sensor_data.value, timestamps, dump_period, **props)
    return sensor_data
"""

DUMMY_SKELETON = """
def dummy_sensor_getter(name, value=None, dtype=np.float64, timestamp=HOLE_c10_dummy_time):
    if value is None:
        if np.issubdtype(dtype, np.floating):
            value = np.dtype(dtype).type(np.nan)
        elif np.issubdtype(dtype, np.integer):
            value = np.array(-1).astype(dtype)[()]
        elif np.issubdtype(dtype, np.bytes_) or np.issubdtype(dtype, np.str_):
            value = ''
        elif np.issubdtype(dtype, np.bool_):
            value = False
    else:
        dtype = infer_dtype([value])
    if dtype == object:
        value = ComparableArrayWrapper(value)
    return SimpleSensorGetter(name, np.array([timestamp]), np.array([value]))
"""

SENSORDATA_BOOL = """
def __bool__(self):
    return len(self.timestamp) > 0
"""


def _stmts_in_order(fn, wanted, what):
    """Each text of `wanted` must be a top-level statement of fn, in this order."""
    lines = [_txt(n) for n in fn.body]
    pos = -1
    for w in wanted:
        w = _txt(ast.parse(w).body[0])
        if w not in lines:
            raise TranslateError('%s: statement `%s` not found' % (what, w[:100]))
        k = lines.index(w)
        if k <= pos:
            raise TranslateError('%s: statement `%s` out of order' % (what, w[:100]))
        pos = k


def item_c10_extract(repo, out):
    tree = _parse(repo, SD)
    out.append('(* katdal/sensordata.py SensorCache._extract / dummy_sensor_getter / SensorCache.get: the categorical path *)')
    fn = _method(tree, 'SensorCache', '_extract', SD)
    sk = Skeleton(fn, 'SensorCache._extract', out)
    if [_txt(d) for d in fn.decorator_list] != ['staticmethod']:
        raise TranslateError('SensorCache._extract is not a staticmethod')
    sk.hole(['body', 1, 'body', 0, 'value', 'args', 1], 'c10_default_time_offset', [], 'Z')
    sk.hole(['body', 3, 'value', 'args', 1], 'c10_categ_default',
            [('np.issubdtype(sensor_data.value.dtype, np.floating)', 'is_float', 'bool')], 'bool')
    # the numerical branch (np.interp) belongs to C12: cut it out, keep the categorical one
    _, _, branch = sk._locate(['body', 5])
    if not (isinstance(branch, ast.If) and branch.orelse):
        raise TranslateError('SensorCache._extract: `if categ: ... else: ...` not found')
    branch.orelse = []
    sk.finish(EXTRACT_SKELETON)
    sk = Skeleton(_module_func(tree, 'dummy_sensor_getter', SD), 'sensordata.dummy_sensor_getter', out)
    a = sk.fn.args
    names = [x.arg for x in a.args]
    if names != ['name', 'value', 'dtype', 'timestamp'] or len(a.defaults) != 3:
        raise TranslateError('dummy_sensor_getter: signature changed')
    sk.fn.args.defaults = list(a.defaults)
    sk.fraction(['args', 'defaults', 2], 'c10_dummy_time')
    sk.finish(DUMMY_SKELETON)
    Skeleton(_method(tree, 'SensorData', '__bool__', SD), 'SensorData.__bool__', out).finish(SENSORDATA_BOOL)
    # the sort / keep-last part of the clean-up (the status filter is C12's item_sensor_statuses)
    rd = _module_func(tree, 'remove_duplicates_and_invalid_values', SD)
    _stmts_in_order(rd, ['x = sensor.timestamp', 'y = sensor.value', 'z = sensor.status',
                         "sort_ind = np.argsort(x, kind='mergesort')", 'x = x[sort_ind]', 'y = y[sort_ind]',
                         'last_of_run = np.asarray(list(np.diff(x) != 0) + [True])',
                         'unique_ind = last_of_run.nonzero()[0]',
                         'return SensorData(sensor.name, x[unique_ind], y[unique_ind])'],
                    'remove_duplicates_and_invalid_values')
    # SensorCache.get: extraction with the merged properties, then the optional selection
    get = _method(tree, 'SensorCache', 'get', SD)
    withs = [n for n in get.body if isinstance(n, ast.With)]
    if len(withs) != 1:
        raise TranslateError('SensorCache.get: `with self._lock:` not found')
    ifs = [n for n in withs[0].body if isinstance(n, ast.If)]
    want = ('if isinstance(sensor_data, SensorGetter) and extract:\n'
            '    props = self._get_props(name, self.props, **kwargs)\n'
            '    self.timestamps = self.timestamps[:] if not isinstance(self.timestamps, np.ndarray) else self.timestamps\n'
            '    sensor_data = self._extract(sensor_data, self.timestamps, self.dump_period, **props)\n'
            '    self._raw[name] = sensor_data')
    if not ifs or _txt(ifs[-1]) != _txt(ast.parse(want).body[0]):
        raise TranslateError('SensorCache.get: extraction block changed')
    if _txt(get.body[-1]) != 'return sensor_data[self.keep] if select else sensor_data':
        raise TranslateError('SensorCache.get: does not end with `return sensor_data[self.keep] if select else sensor_data`')
    gi = _method(tree, 'SensorCache', '__getitem__', SD)
    if _txt(gi.body[-1]) != 'return self.get(name, select=True)':
        raise TranslateError('SensorCache.__getitem__: is not `return self.get(name, select=True)`')


# --------------------------------------------------------------------------------------------- sensor property tables

TABLE_MODULES = (('v1', 'katdal/h5datav1.py'), ('v2', 'katdal/h5datav2.py'), ('v3', 'katdal/h5datav3.py'),
                 ('v4', 'katdal/visdatav4.py'))
PROP_KEYS = ('categorical', 'greedy_values', 'initial_value', 'transform', 'allow_repeats')


def _token(node, what):
    if isinstance(node, ast.Constant):
        v = node.value
        if isinstance(v, bool):
            return ('bool', v)
        if isinstance(v, str):
            return ('str', v)
        if isinstance(v, int):
            return ('int', v)
        if isinstance(v, float):
            return ('float', Fraction(v))
    if isinstance(node, ast.Name):
        return ('other', node.id)
    raise TranslateError('%s: unsupported value `%s`' % (what, _txt(node)[:80]))


def _transform(node, module_dicts, what):
    if isinstance(node, ast.Name):
        return ('str',) if node.id == 'str' else ('func', node.id)
    if isinstance(node, ast.Lambda) and len(node.args.args) == 1 and not node.args.defaults:
        x = node.args.args[0].arg
        b = node.body
        if (isinstance(b, ast.Compare) and len(b.ops) == 1 and isinstance(b.left, ast.Name) and b.left.id == x):
            c = b.comparators[0]
            if isinstance(b.ops[0], ast.NotIn) and isinstance(c, (ast.Tuple, ast.List)):
                return ('notin', tuple(_token(e, what) for e in c.elts))
            if isinstance(b.ops[0], ast.Gt) and isinstance(c, ast.Constant) and isinstance(c.value, (int, float)) \
                    and not isinstance(c.value, bool):
                return ('gt', Fraction(c.value))
        if (isinstance(b, ast.Call) and isinstance(b.func, ast.Attribute) and b.func.attr == 'get'
                and isinstance(b.func.value, ast.Name) and b.func.value.id in module_dicts and len(b.args) == 2
                and not b.keywords and isinstance(b.args[0], ast.Name) and b.args[0].id == x
                and isinstance(b.args[1], ast.Constant) and isinstance(b.args[1].value, str)):
            return ('mapget', b.func.value.id, tuple(module_dicts[b.func.value.id]), b.args[1].value)
    raise TranslateError('%s: unsupported transform `%s`' % (what, _txt(node)[:100]))


def _props(node, module_dicts, what):
    if not isinstance(node, ast.Dict):
        raise TranslateError('%s: sensor properties are not a dict literal' % what)
    out = {}
    for k, v in zip(node.keys, node.values):
        if not (isinstance(k, ast.Constant) and k.value in PROP_KEYS) or k.value in out:
            raise TranslateError('%s: unexpected property key `%s`' % (what, _txt(k) if k is not None else '**'))
        key = k.value
        if key in ('categorical', 'allow_repeats'):
            if not (isinstance(v, ast.Constant) and isinstance(v.value, bool)):
                raise TranslateError('%s: %s is not a bool literal' % (what, key))
            out[key] = v.value
        elif key == 'greedy_values':
            if not isinstance(v, (ast.Tuple, ast.List)):
                raise TranslateError('%s: greedy_values is not a tuple / list literal' % what)
            out[key] = tuple(_token(e, what) for e in v.elts)
        elif key == 'initial_value':
            out[key] = _token(v, what)
        else:
            out[key] = _transform(v, module_dicts, what)
    return out


def _table(node, module_dicts, what):
    if not isinstance(node, ast.Dict):
        raise TranslateError('%s: not a dict literal' % what)
    rows = []
    for k, v in zip(node.keys, node.values):
        if not (isinstance(k, ast.Constant) and isinstance(k.value, str)) or k.value in [r[0] for r in rows]:
            raise TranslateError('%s: key `%s` is not a unique string literal' % (what, _txt(k) if k is not None else '**'))
        rows.append((k.value, _props(v, module_dicts, '%s[%r]' % (what, k.value))))
    return rows


def _str_dicts(tree):
    out = {}
    for n in tree.body:
        if (isinstance(n, ast.Assign) and len(n.targets) == 1 and isinstance(n.targets[0], ast.Name)
                and isinstance(n.value, ast.Dict) and n.value.keys
                and all(isinstance(k, ast.Constant) and isinstance(k.value, str) for k in n.value.keys)
                and all(isinstance(v, ast.Constant) and isinstance(v.value, str) for v in n.value.values)):
            out[n.targets[0].id] = [(k.value, v.value) for k, v in zip(n.value.keys, n.value.values)]
    return out


def parse_sensor_tables(repo):
    """-> {'default' | 'v1'..'v4': [(key, {prop: parsed value})]} in dict order, the format tables already merged
    (dict(DEFAULT_SENSOR_PROPS) then .update({...})).  Fail-closed on anything else that touches the tables."""
    rel = 'katdal/dataset.py'
    tree = _parse(repo, rel)
    found = [n for n in tree.body if isinstance(n, ast.Assign) and any(isinstance(t, ast.Name) and t.id == 'DEFAULT_SENSOR_PROPS'
                                                                      for t in n.targets)]
    others = [n for n in tree.body if n not in found and any(isinstance(x, ast.Name) and x.id == 'DEFAULT_SENSOR_PROPS'
                                                             for x in ast.walk(n))]
    if len(found) != 1 or others:
        raise TranslateError('%s: DEFAULT_SENSOR_PROPS must be assigned exactly once and not touched otherwise' % rel)
    tables = {'default': _table(found[0].value, _str_dicts(tree), 'dataset.DEFAULT_SENSOR_PROPS')}
    for tag, rel in TABLE_MODULES:
        tree = _parse(repo, rel)
        dicts = _str_dicts(tree)
        rows = None
        for n in tree.body:
            if isinstance(n, (ast.FunctionDef, ast.ClassDef, ast.Import, ast.ImportFrom)):
                continue
            if not any(isinstance(x, ast.Name) and x.id == 'SENSOR_PROPS' for x in ast.walk(n)):
                continue
            t = _txt(n)
            if t == 'SENSOR_PROPS = dict(DEFAULT_SENSOR_PROPS)' and rows is None:
                rows = list(tables['default'])
            elif (rows is not None and isinstance(n, ast.Expr) and isinstance(n.value, ast.Call)
                  and _txt(n.value.func) == 'SENSOR_PROPS.update' and len(n.value.args) == 1 and not n.value.keywords):
                for key, props in _table(n.value.args[0], dicts, '%s:SENSOR_PROPS' % rel):
                    keys = [r[0] for r in rows]
                    if key in keys:
                        rows[keys.index(key)] = (key, props)
                    else:
                        rows.append((key, props))
            else:
                raise TranslateError('%s: unexpected statement touching SENSOR_PROPS: `%s`' % (rel, t[:100]))
        if rows is None:
            raise TranslateError('%s: SENSOR_PROPS = dict(DEFAULT_SENSOR_PROPS) not found' % rel)
        # the table must be the one handed to the SensorCache of the format
        calls = [c for c in ast.walk(tree) if isinstance(c, ast.Call) and _txt(c.func) == 'SensorCache']
        if not calls or not all(any(_txt(a) == 'SENSOR_PROPS' for a in list(c.args) + [k.value for k in c.keywords])
                                for c in calls):
            raise TranslateError('%s: SensorCache(...) is not built with SENSOR_PROPS' % rel)
        tables[tag] = rows
    return tables


def _coq_tok(t):
    k, v = t
    if k == 'str':
        return '(TStr %s)' % coq_string(v)
    if k == 'bool':
        return '(TBool %s)' % ('true' if v else 'false')
    if k == 'int':
        return '(TInt (%d))' % v
    if k == 'float':
        if v.denominator > 10 ** 6 or abs(v.numerator) > 10 ** 9:
            raise TranslateError('float constant %r not a small rational' % float(v))
        return '(TFloat (%d) (%d))' % (v.numerator, v.denominator)
    return '(TOther %s)' % coq_string(v)


def _coq_transform(t):
    if t is None:
        return 'TrNone'
    if t[0] == 'str':
        return 'TrStr'
    if t[0] == 'func':
        return '(TrFunc %s)' % coq_string(t[1])
    if t[0] == 'notin':
        return '(TrNotIn [%s])' % '; '.join(_coq_tok(x) for x in t[1])
    if t[0] == 'gt':
        return '(TrGt (%d) (%d))' % (t[1].numerator, t[1].denominator)
    if t[0] == 'mapget':
        return '(TrMapGet [%s] %s)' % ('; '.join('(%s, %s)' % (coq_string(a), coq_string(b)) for a, b in t[2]), coq_string(t[3]))
    raise TranslateError('internal: transform %r' % (t,))


def _coq_optbool(b):
    return 'None' if b is None else ('(Some %s)' % ('true' if b else 'false'))


def item_c10_tables(repo, out):
    tables = parse_sensor_tables(repo)
    out.append('(* dataset.DEFAULT_SENSOR_PROPS and the merged SENSOR_PROPS of h5datav1 / h5datav2 / h5datav3 / visdatav4 *)')
    out.append('Inductive c10_tok := TStr (s : string) | TBool (b : bool) | TInt (z : Z) | TFloat (num den : Z) | TOther (s : string).')
    out.append('Inductive c10_transform := TrNone | TrNotIn (l : list c10_tok) | TrGt (num den : Z) '
               '| TrMapGet (m : list (string * string)) (dflt : string) | TrStr | TrFunc (name : string).')
    out.append('Record c10_props := mk_c10_props { cp_key : string; cp_categorical : option bool; cp_greedy : option (list c10_tok); '
               'cp_initial : option c10_tok; cp_transform : c10_transform; cp_allow_repeats : option bool }.')
    for tag in ('default', 'v1', 'v2', 'v3', 'v4'):
        rows = []
        for key, p in tables[tag]:
            g = p.get('greedy_values')
            rows.append('  mk_c10_props %s %s %s %s %s %s' % (
                coq_string(key), _coq_optbool(p.get('categorical')),
                'None' if g is None else '(Some [%s])' % '; '.join(_coq_tok(x) for x in g),
                'None' if 'initial_value' not in p else '(Some %s)' % _coq_tok(p['initial_value']),
                _coq_transform(p.get('transform')), _coq_optbool(p.get('allow_repeats'))))
        out.append('Definition c10_table_%s : list c10_props := [\n%s].' % (tag, ';\n'.join(rows)))


# --------------------------------------------------------------------------------------------- value equality

CAW_EQ_SKELETON = """
def __eq__(self, other):
    if isinstance(other, ComparableArrayWrapper):
        other = other.unwrapped
    if HOLE_c10_eq_as_arrays(isinstance(self.unwrapped, np.ndarray), isinstance(other, np.ndarray)):
        return np.array_equal(self.unwrapped, other)
    else:
        return self.unwrapped == other
"""
CAW_NE_SKELETON = """
def __ne__(self, other):
    return not self == other
"""
CAW_HASH_SKELETON = """
def __hash__(self):
    return hash(self.unwrapped)
"""
CAW_UNWRAP_SKELETON = """
def unwrap(v):
    return v.unwrapped if isinstance(v, ComparableArrayWrapper) else v
"""
CAW_INIT_SKELETON = """
def __init__(self, value):
    self.unwrapped = value
"""
UNIQUE_SKELETON = """
def unique_in_order(elements, return_inverse=False):
    elements = list(elements)
    (unique_elements, inverse) = ([], [])
    try:
        lookup = collections.OrderedDict(zip(elements, len(elements) * [0]))
    except TypeError:
        lookup = {}
        for element in elements:
            token = tokenize(ComparableArrayWrapper.unwrap(element))
            try:
                index = lookup[token]
            except KeyError:
                index = len(unique_elements)
                lookup[token] = index
                unique_elements.append(element)
            if return_inverse:
                inverse.append(index)
    else:
        for (index, element) in enumerate(lookup):
            lookup[element] = index
        unique_elements = list(lookup.keys())
        if return_inverse:
            inverse = [lookup[element] for element in elements]
    return (unique_elements, np.array(inverse, dtype=int)) if return_inverse else unique_elements
"""


def item_c10_values(repo, out):
    """ComparableArrayWrapper: the equality sensor_to_categorical uses for repeat removal and greedy membership
    (array-likes are compared with np.array_equal: same SHAPE and same elements, as soon as either side is an ndarray),
    its negation, its hash, and unique_in_order (dict of the wrapped values, dask tokens when they are unhashable)."""
    tree = _parse(repo, CAT)
    out.append('(* katdal/categorical.py ComparableArrayWrapper.__eq__ / __ne__ / __hash__ / unwrap, unique_in_order *)')
    sk = Skeleton(_method(tree, 'ComparableArrayWrapper', '__eq__', CAT), 'ComparableArrayWrapper.__eq__', out)
    sk.hole(['body', 1, 'test'], 'c10_eq_as_arrays',
            [('isinstance(self.unwrapped, np.ndarray)', 'self_is_ndarray', 'bool'),
             ('isinstance(other, np.ndarray)', 'other_is_ndarray', 'bool')], 'bool')
    # np.array_equal must be called with exactly (self.unwrapped, other): no equal_nan, no other comparison
    sk.finish(CAW_EQ_SKELETON)
    for name, skel in (('__ne__', CAW_NE_SKELETON), ('__hash__', CAW_HASH_SKELETON), ('unwrap', CAW_UNWRAP_SKELETON),
                       ('__init__', CAW_INIT_SKELETON)):
        Skeleton(_method(tree, 'ComparableArrayWrapper', name, CAT), 'ComparableArrayWrapper.' + name, out).finish(skel)
    Skeleton(_module_func(tree, 'unique_in_order', CAT), 'categorical.unique_in_order', out).finish(UNIQUE_SKELETON)
    # the repeat removal and the greedy membership of sensor_to_categorical go through these operators on the wrapped
    # values (checked by item_c10_s2c: `sensor_values[n] != sensor_values[n - 1]`, `value in greedy_values`)


# --------------------------------------------------------------------------------------------- who writes into what
# The conversion must leave the getter's raw samples alone (they are shared with aliases and read again by every later
# conversion).  For the three functions on the path from SensorCache.get to the CategoricalData the NAMES whose objects
# are written in place (subscript / attribute stores, augmented assignments, in-place methods, out= arguments) are
# regenerated; Model/SensorToCatHist.v decides from them whether a conversion writes into the samples it was given
# (any name that can alias them) and the history theorems are proved of THAT machine.

_INPLACE_METHODS = ('sort', 'fill', 'put', 'resize', 'itemset', 'setfield', 'partition', 'byteswap', 'setflags',
                    '__setitem__', '__iadd__', '__setattr__', 'update', 'clear', 'pop', 'remove', 'insert', 'extend',
                    'reverse', 'setdefault', 'append', 'copyto', 'place', 'putmask', 'put_along_axis', 'fill_diagonal')


def _base_name(node):
    while isinstance(node, (ast.Attribute, ast.Subscript, ast.Call)):
        node = node.func if isinstance(node, ast.Call) else node.value
    return node.id if isinstance(node, ast.Name) else '?'


def _stores(fn):
    """Sorted names of the objects a function (nested functions included) writes INTO."""
    names = set()

    def target(t):
        if isinstance(t, (ast.Tuple, ast.List)):
            for e in t.elts:
                target(e)
        elif isinstance(t, ast.Starred):
            target(t.value)
        elif isinstance(t, (ast.Attribute, ast.Subscript)):
            names.add(_base_name(t))
    for n in ast.walk(fn):
        if isinstance(n, ast.Assign):
            for t in n.targets:
                target(t)
        elif isinstance(n, ast.AnnAssign):
            target(n.target)
        elif isinstance(n, ast.AugAssign):
            names.add(_base_name(n.target))          # `x += ...` writes into the array x is bound to
        elif isinstance(n, (ast.Delete,)):
            for t in n.targets:
                target(t)
        elif isinstance(n, (ast.For, ast.AsyncFor)):
            target(n.target)
        elif isinstance(n, ast.Call):
            if isinstance(n.func, ast.Attribute) and n.func.attr in _INPLACE_METHODS:
                if _base_name(n.func) in ('np', 'numpy') and n.args:
                    names.add(_base_name(n.args[0]))
                else:
                    names.add(_base_name(n.func))
            if isinstance(n.func, ast.Name) and n.func.id in ('setattr', 'delattr') and n.args:
                names.add(_base_name(n.args[0]))
            for k in n.keywords:
                if k.arg == 'out':
                    names.add(_base_name(k.value))
    return sorted(names)


def item_c10_purity(repo, out):
    cat, sd = _parse(repo, CAT), _parse(repo, SD)
    out.append('(* names of the objects written in place by the conversion path (katdal/categorical.py, sensordata.py) *)')
    for name, fn in (('c10_s2c_stores', _module_func(cat, 'sensor_to_categorical', CAT)),
                     ('c10_extract_stores', _method(sd, 'SensorCache', '_extract', SD)),
                     ('c10_clean_stores', _module_func(sd, 'remove_duplicates_and_invalid_values', SD)),
                     ('c10_wrapper_init_stores', _method(cat, 'ComparableArrayWrapper', '__init__', CAT))):
        st = _stores(fn)
        out.append('Definition %s : list string := [%s].' % (name, '; '.join(coq_string(x) for x in st)))
    # SimpleSensorGetter.get hands out the getter's own SensorData (no copy): that is why the path must not write
    g = _method(sd, 'SimpleSensorGetter', 'get', SD)
    if [_txt(x) for x in g.body if not (isinstance(x, ast.Expr) and isinstance(x.value, ast.Constant))] != ['return self._data']:
        raise TranslateError('SimpleSensorGetter.get: is not `return self._data`')


ITEMS = [item_c10_generator, item_c10_s2c, item_c10_catdata, item_c10_extract, item_c10_tables, item_c10_values, item_c10_purity]
