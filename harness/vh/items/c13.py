"""Translator items for C13 (katdal/applycal.py), fail-closed:

* the flag constant OR-ed in by apply_flags_correction and where it is imported from,
* the guards of the three numba kernels (isnan / c > 0) and what each branch stores,
* the channel-map decision of calc_correction: the three branches, their lambdas, the allclose tolerance
  and whether K/B products are forced onto the direct map (the repair of finding C13-F1).
"""
import ast
from fractions import Fraction

from vh.translate import TranslateError, _parse, coq_string


def _find_func(tree, name, rel):
    found = [n for n in tree.body if isinstance(n, ast.FunctionDef) and n.name == name]
    if len(found) != 1:
        raise TranslateError('%s: expected exactly one function %s' % (rel, name))
    return found[0]


def _norm(node):
    return ast.unparse(node).replace(' ', '').replace('\n', '')


def _innermost_loop_body(fn, rel):
    loops = [n for n in ast.walk(fn) if isinstance(n, ast.For)]
    inner = [n for n in loops if not any(isinstance(m, ast.For) for m in ast.walk(n) if m is not n)]
    if len(inner) != 1:
        raise TranslateError('%s:%s: expected one innermost loop' % (rel, fn.name))
    return inner[0].body


def item_applycal_kernels(repo, out):
    rel = 'katdal/applycal.py'
    tree = _parse(repo, rel)
    # ---- flags kernel: `if np.isnan(correction[i, j, k]): out[i, j, k] |= POSTPROC`, out = np.copy(data)
    fn = _find_func(tree, 'apply_flags_correction', rel)
    body = _innermost_loop_body(fn, rel)
    if not (len(body) == 1 and isinstance(body[0], ast.If) and not body[0].orelse
            and _norm(body[0].test) == 'np.isnan(correction[i,j,k])' and len(body[0].body) == 1):
        raise TranslateError('%s: apply_flags_correction guard not `if np.isnan(correction[i, j, k])`' % rel)
    st = body[0].body[0]
    if not (isinstance(st, ast.AugAssign) and isinstance(st.op, ast.BitOr) and _norm(st.target) == 'out[i,j,k]'
            and isinstance(st.value, ast.Name)):
        raise TranslateError('%s: apply_flags_correction does not do `out[i, j, k] |= <NAME>`' % rel)
    if not any(isinstance(s, ast.Assign) and _norm(s) == 'out=np.copy(data)' for s in fn.body):
        raise TranslateError('%s: apply_flags_correction does not start from a copy of the data' % rel)
    const = st.value.id
    imported = [a.name for n in tree.body if isinstance(n, ast.ImportFrom) and n.module == 'flags' and n.level == 1
                for a in n.names if (a.asname or a.name) == const]
    if len(imported) != 1:
        raise TranslateError('%s: %s is not imported from .flags' % (rel, const))
    out.append('Definition applycal_flag_name : string := %s.' % coq_string(imported[0].lower()))
    # ---- vis kernel
    fn = _find_func(tree, 'apply_vis_correction', rel)
    body = _innermost_loop_body(fn, rel)
    ok = (len(body) == 2 and _norm(body[0]) == 'c=correction[i,j,k]' and isinstance(body[1], ast.If)
          and _norm(body[1].test) == 'notnp.isnan(c)'
          and [_norm(s) for s in body[1].body] == ['out[i,j,k]=data[i,j,k]*c']
          and [_norm(s) for s in body[1].orelse] == ['out[i,j,k]=data[i,j,k]'])
    if not ok:
        raise TranslateError('%s: apply_vis_correction body not of the expected shape' % rel)
    # ---- weights kernel
    fn = _find_func(tree, 'apply_weights_correction', rel)
    body = _innermost_loop_body(fn, rel)
    ok = (len(body) == 3 and _norm(body[0]) == 'cc=correction[i,j,k]'
          and _norm(body[1]) == 'c=cc.real*cc.real+cc.imag*cc.imag' and isinstance(body[2], ast.If)
          and _norm(body[2].test) == 'c>0'
          and [_norm(s) for s in body[2].body] == ['out[i,j,k]=data[i,j,k]/c']
          and [_norm(s) for s in body[2].orelse] == ['out[i,j,k]=0'])
    if not ok:
        raise TranslateError('%s: apply_weights_correction body not of the expected shape' % rel)
    out.append('Definition applycal_kernel_shapes_checked : bool := true.')
    # ---- per-corrprod combination g[i, in1[j]] * conj(g[i, in2[j]])
    fn = _find_func(tree, '_correction_inputs_to_corrprods', rel)
    body = _innermost_loop_body(fn, rel)
    if [_norm(s) for s in body] != ['g_per_cp[i,j]=g_per_input[i,input1_index[j]]*np.conj(g_per_input[i,input2_index[j]])']:
        raise TranslateError('%s: _correction_inputs_to_corrprods not g1 * conj(g2)' % rel)


def item_applycal_channel_map(repo, out):
    rel = 'katdal/applycal.py'
    tree = _parse(repo, rel)
    fn = _find_func(tree, 'calc_correction', rel)
    ifs = [n for n in ast.walk(fn) if isinstance(n, ast.If) and _norm(n.test) == 'correction_n_chans==1']
    if len(ifs) != 1:
        raise TranslateError('%s: channel-map decision `if correction_n_chans == 1` not found' % rel)
    top = ifs[0]

    def lam(stmts):
        if len(stmts) != 1 or not isinstance(stmts[0], ast.Assign) \
                or _norm(stmts[0].targets[0]) != 'channel_maps[cal_product]':
            raise TranslateError('%s: channel-map branch does not assign channel_maps[cal_product]' % rel)
        return _norm(stmts[0].value)
    if lam(top.body) != 'lambdag,channels:g':
        raise TranslateError('%s: broadcast branch is %s' % (rel, lam(top.body)))
    if len(top.orelse) != 1 or not isinstance(top.orelse[0], ast.If):
        raise TranslateError('%s: channel-map decision has no elif' % rel)
    mid = top.orelse[0]
    if lam(mid.body) != 'lambdag,channels:g[channels]':
        raise TranslateError('%s: direct branch is %s' % (rel, lam(mid.body)))
    tail = mid.orelse
    if len(tail) != 2 or _norm(tail[0]) != \
            'expand=np.abs(data_freqs[:,np.newaxis]-cal_stream_freqs[np.newaxis,:]).argmin(axis=-1)' \
            or lam(tail[1:]) not in ('lambdag,channels:g[expand[channels]]',
                                     'lambdag,channels,expand=expand:g[expand[channels]]'):
        raise TranslateError('%s: nearest-channel branch not of the expected shape' % rel)
    # is `expand` bound when the lambda is made (default argument) or looked up late (last product wins)?
    bound = 'expand=expand' in lam(tail[1:])
    t = mid.test
    if not (isinstance(t, ast.BoolOp) and isinstance(t.op, ast.And) and len(t.values) == 2
            and _norm(t.values[0]) == 'correction_n_chans==len(data_freqs)'
            and isinstance(t.values[1], ast.BoolOp) and isinstance(t.values[1].op, ast.Or)):
        raise TranslateError('%s: direct-map test not `n == len(data_freqs) and (... or ...)`' % rel)
    alts = list(t.values[1].values)
    kb = False
    if _norm(alts[0]) in ("product_typein('K','B')", "product_typein('B','K')"):
        kb = True
        alts = alts[1:]
    if len(alts) != 2 or _norm(alts[0]) != 'len(cal_stream_freqs)!=len(data_freqs)':
        raise TranslateError('%s: direct-map alternatives are %s' % (rel, [_norm(a) for a in alts]))
    ac = alts[1]
    if not (isinstance(ac, ast.Call) and _norm(ac.func) == 'np.allclose' and len(ac.args) == 2
            and {_norm(a) for a in ac.args} == {'cal_stream_freqs', 'data_freqs'}):
        raise TranslateError('%s: second alternative is not np.allclose(cal_stream_freqs, data_freqs, ...)' % rel)
    kw = {k.arg: k.value for k in ac.keywords}
    if set(kw) != {'rtol', 'atol'} or not all(isinstance(v, ast.Constant) for v in kw.values()) \
            or kw['rtol'].value != 0:
        raise TranslateError('%s: allclose keywords are not rtol=0, atol=<const>' % rel)
    atol = Fraction(repr(kw['atol'].value))
    if atol <= 0:
        raise TranslateError('%s: atol not positive' % rel)
    # correction_n_chans = max([len(np.atleast_1d(corr_per_input[0])) for corr_per_input in corrections_per_product])
    asg = [n for n in ast.walk(fn) if isinstance(n, ast.Assign) and _norm(n.targets[0]) == 'correction_n_chans']
    if len(asg) != 1 or _norm(asg[0].value) != \
            'max([len(np.atleast_1d(corr_per_input[0]))forcorr_per_inputincorrections_per_product])':
        raise TranslateError('%s: correction_n_chans not the max over inputs of the first-dump length' % rel)
    out.append('Definition applycal_atol_num : positive := %d%%positive.' % atol.numerator)
    out.append('Definition applycal_atol_den : positive := %d%%positive.' % atol.denominator)
    out.append('Definition applycal_kb_direct : bool := %s.' % ('true' if kb else 'false'))
    out.append('Definition applycal_expand_bound : bool := %s.' % ('true' if bound else 'false'))


ITEMS = [item_applycal_kernels, item_applycal_channel_map]
