"""Translator items for C13 (katdal/applycal.py), fail-closed:

* the flag constant OR-ed in by apply_flags_correction and where it is imported from,
* the guards of the three numba kernels (isnan / c > 0) and what each branch stores,
* the channel-map decision of calc_correction: the three branches, their lambdas, the allclose tolerance
  and whether K/B products are forced onto the direct map (the repair of finding C13-F1).
"""
import ast
from fractions import Fraction

from vh.translate import TranslateError, _module_assign, _parse, coq_string


def _find_func(tree, name, rel):
    found = [n for n in tree.body if isinstance(n, ast.FunctionDef) and n.name == name]
    if len(found) != 1:
        raise TranslateError('%s: expected exactly one function %s' % (rel, name))
    return found[0]


def _norm(node):
    return ast.unparse(node).replace(' ', '').replace('\n', '')


def _innermost_loop_body(fn, rel):
    loops = [n for n in ast.walk(fn) if isinstance(n, ast.For)]
    inner = [n for n in loops if not any(isinstance(m, ast.For) for m in ast.walk(n) if m is not n)]
    if len(inner) != 1:
        raise TranslateError('%s:%s: expected one innermost loop' % (rel, fn.name))
    return inner[0].body


def item_applycal_kernels(repo, out):
    rel = 'katdal/applycal.py'
    tree = _parse(repo, rel)
    # ---- flags kernel: `if np.isnan(correction[i, j, k]): out[i, j, k] |= POSTPROC`, out = np.copy(data)
    fn = _find_func(tree, 'apply_flags_correction', rel)
    body = _innermost_loop_body(fn, rel)
    if not (len(body) == 1 and isinstance(body[0], ast.If) and not body[0].orelse
            and _norm(body[0].test) == 'np.isnan(correction[i,j,k])' and len(body[0].body) == 1):
        raise TranslateError('%s: apply_flags_correction guard not `if np.isnan(correction[i, j, k])`' % rel)
    st = body[0].body[0]
    if not (isinstance(st, ast.AugAssign) and isinstance(st.op, ast.BitOr) and _norm(st.target) == 'out[i,j,k]'
            and isinstance(st.value, ast.Name)):
        raise TranslateError('%s: apply_flags_correction does not do `out[i, j, k] |= <NAME>`' % rel)
    if not any(isinstance(s, ast.Assign) and _norm(s) == 'out=np.copy(data)' for s in fn.body):
        raise TranslateError('%s: apply_flags_correction does not start from a copy of the data' % rel)
    const = st.value.id
    imported = [a.name for n in tree.body if isinstance(n, ast.ImportFrom) and n.module == 'flags' and n.level == 1
                for a in n.names if (a.asname or a.name) == const]
    if len(imported) != 1:
        raise TranslateError('%s: %s is not imported from .flags' % (rel, const))
    out.append('Definition applycal_flag_name : string := %s.' % coq_string(imported[0].lower()))
    # ---- vis kernel
    fn = _find_func(tree, 'apply_vis_correction', rel)
    body = _innermost_loop_body(fn, rel)
    ok = (len(body) == 2 and _norm(body[0]) == 'c=correction[i,j,k]' and isinstance(body[1], ast.If)
          and _norm(body[1].test) == 'notnp.isnan(c)'
          and [_norm(s) for s in body[1].body] == ['out[i,j,k]=data[i,j,k]*c']
          and [_norm(s) for s in body[1].orelse] == ['out[i,j,k]=data[i,j,k]'])
    if not ok:
        raise TranslateError('%s: apply_vis_correction body not of the expected shape' % rel)
    # ---- weights kernel
    fn = _find_func(tree, 'apply_weights_correction', rel)
    body = _innermost_loop_body(fn, rel)
    ok = (len(body) == 3 and _norm(body[0]) == 'cc=correction[i,j,k]'
          and _norm(body[1]) == 'c=cc.real*cc.real+cc.imag*cc.imag' and isinstance(body[2], ast.If)
          and _norm(body[2].test) == 'c>0'
          and [_norm(s) for s in body[2].body] == ['out[i,j,k]=data[i,j,k]/c']
          and [_norm(s) for s in body[2].orelse] == ['out[i,j,k]=0'])
    if not ok:
        raise TranslateError('%s: apply_weights_correction body not of the expected shape' % rel)
    out.append('Definition applycal_kernel_shapes_checked : bool := true.')
    # ---- per-corrprod combination g[i, in1[j]] * conj(g[i, in2[j]])
    fn = _find_func(tree, '_correction_inputs_to_corrprods', rel)
    body = _innermost_loop_body(fn, rel)
    if [_norm(s) for s in body] != ['g_per_cp[i,j]=g_per_input[i,input1_index[j]]*np.conj(g_per_input[i,input2_index[j]])']:
        raise TranslateError('%s: _correction_inputs_to_corrprods not g1 * conj(g2)' % rel)


def item_applycal_channel_map(repo, out):
    rel = 'katdal/applycal.py'
    tree = _parse(repo, rel)
    fn = _find_func(tree, 'calc_correction', rel)
    ifs = [n for n in ast.walk(fn) if isinstance(n, ast.If) and _norm(n.test) == 'correction_n_chans==1']
    if len(ifs) != 1:
        raise TranslateError('%s: channel-map decision `if correction_n_chans == 1` not found' % rel)
    top = ifs[0]

    def lam(stmts):
        if len(stmts) != 1 or not isinstance(stmts[0], ast.Assign) \
                or _norm(stmts[0].targets[0]) != 'channel_maps[cal_product]':
            raise TranslateError('%s: channel-map branch does not assign channel_maps[cal_product]' % rel)
        return _norm(stmts[0].value)
    if lam(top.body) != 'lambdag,channels:g':
        raise TranslateError('%s: broadcast branch is %s' % (rel, lam(top.body)))
    if len(top.orelse) != 1 or not isinstance(top.orelse[0], ast.If):
        raise TranslateError('%s: channel-map decision has no elif' % rel)
    mid = top.orelse[0]
    if lam(mid.body) != 'lambdag,channels:g[channels]':
        raise TranslateError('%s: direct branch is %s' % (rel, lam(mid.body)))
    tail = mid.orelse
    if len(tail) != 2 or _norm(tail[0]) != \
            'expand=np.abs(data_freqs[:,np.newaxis]-cal_stream_freqs[np.newaxis,:]).argmin(axis=-1)' \
            or lam(tail[1:]) not in ('lambdag,channels:g[expand[channels]]',
                                     'lambdag,channels,expand=expand:g[expand[channels]]'):
        raise TranslateError('%s: nearest-channel branch not of the expected shape' % rel)
    # is `expand` bound when the lambda is made (default argument) or looked up late (last product wins)?
    bound = 'expand=expand' in lam(tail[1:])
    t = mid.test
    if not (isinstance(t, ast.BoolOp) and isinstance(t.op, ast.And) and len(t.values) == 2
            and _norm(t.values[0]) == 'correction_n_chans==len(data_freqs)'
            and isinstance(t.values[1], ast.BoolOp) and isinstance(t.values[1].op, ast.Or)):
        raise TranslateError('%s: direct-map test not `n == len(data_freqs) and (... or ...)`' % rel)
    alts = list(t.values[1].values)
    kb = False
    if _norm(alts[0]) in ("product_typein('K','B')", "product_typein('B','K')"):
        kb = True
        alts = alts[1:]
    if len(alts) != 2 or _norm(alts[0]) != 'len(cal_stream_freqs)!=len(data_freqs)':
        raise TranslateError('%s: direct-map alternatives are %s' % (rel, [_norm(a) for a in alts]))
    ac = alts[1]
    if not (isinstance(ac, ast.Call) and _norm(ac.func) == 'np.allclose' and len(ac.args) == 2
            and {_norm(a) for a in ac.args} == {'cal_stream_freqs', 'data_freqs'}):
        raise TranslateError('%s: second alternative is not np.allclose(cal_stream_freqs, data_freqs, ...)' % rel)
    kw = {k.arg: k.value for k in ac.keywords}
    if set(kw) != {'rtol', 'atol'} or not all(isinstance(v, ast.Constant) for v in kw.values()) \
            or kw['rtol'].value != 0:
        raise TranslateError('%s: allclose keywords are not rtol=0, atol=<const>' % rel)
    atol = Fraction(repr(kw['atol'].value))
    if atol <= 0:
        raise TranslateError('%s: atol not positive' % rel)
    # correction_n_chans = max([len(np.atleast_1d(corr_per_input[0])) for corr_per_input in corrections_per_product])
    asg = [n for n in ast.walk(fn) if isinstance(n, ast.Assign) and _norm(n.targets[0]) == 'correction_n_chans']
    if len(asg) != 1 or _norm(asg[0].value) != \
            'max([len(np.atleast_1d(corr_per_input[0]))forcorr_per_inputincorrections_per_product])':
        raise TranslateError('%s: correction_n_chans not the max over inputs of the first-dump length' % rel)
    out.append('Definition applycal_atol_num : positive := %d%%positive.' % atol.numerator)
    out.append('Definition applycal_atol_den : positive := %d%%positive.' % atol.denominator)
    out.append('Definition applycal_kb_direct : bool := %s.' % ('true' if kb else 'false'))
    out.append('Definition applycal_expand_bound : bool := %s.' % ('true' if bound else 'false'))


def _calls(fn, func_name):
    return [n for n in ast.walk(fn) if isinstance(n, ast.Call) and _norm(n.func) == func_name]


def _enclosing_loops(fn):
    """{id(node): [enclosing For nodes, outermost first]} for every node of fn."""
    out = {}

    def walk(node, loops):
        out[id(node)] = loops
        inner = loops + [node] if isinstance(node, ast.For) else loops
        for child in ast.iter_child_nodes(node):
            walk(child, inner)
    walk(fn, [])
    return out


def item_applycal_solutions(repo, out):
    """How the three correction calculators treat invalid / zero / infinite SOLUTIONS (fail-closed)."""
    rel = 'katdal/applycal.py'
    tree = _parse(repo, rel)
    # INVALID_GAIN = np.complex64(complex(np.nan, np.nan))
    if _norm(_module_assign(tree, 'INVALID_GAIN', rel)) != 'np.complex64(complex(np.nan,np.nan))':
        raise TranslateError('%s: INVALID_GAIN is not np.complex64(complex(np.nan, np.nan))' % rel)
    # ---- calc_gain_correction
    fn = _find_func(tree, 'calc_gain_correction', rel)
    rets = [n for n in ast.walk(fn) if isinstance(n, ast.Return)]
    if sorted(_norm(r.value) for r in rets) != sorted(['np.full((len(dumps),1),INVALID_GAIN)',
                                                       'np.reciprocal(smooth_gains)']):
        raise TranslateError('%s: calc_gain_correction does not return np.reciprocal(smooth_gains) / an INVALID_GAIN '
                             'array when there are no solutions: %s' % (rel, [_norm(r.value) for r in rets]))
    want = {'smooth_gains': 'np.full((len(dumps),gains.shape[0]),INVALID_GAIN)',
            'valid': 'np.isfinite(gains_per_chan)&on_target[events]',
            'on_target': 'targets==target',
            'smooth_gains[on_target,chan]': 'complex_interp(dumps[on_target],events[valid],gains_per_chan[valid])'}
    got = {_norm(n.targets[0]): _norm(n.value) for n in ast.walk(fn) if isinstance(n, ast.Assign)}
    for k, v in want.items():
        if got.get(k) != v:
            raise TranslateError('%s: calc_gain_correction: %s = %s (expected %s)' % (rel, k, got.get(k), v))
    ifs = [n for n in ast.walk(fn) if isinstance(n, ast.If)]
    tests = sorted(_norm(n.test) for n in ifs)
    if tests != sorted(['valueisINVALID_GAIN', 'notevents', 'targetsisNone', 'valid.any()']):
        raise TranslateError('%s: calc_gain_correction guards are %s' % (rel, tests))
    for n in ifs:
        if _norm(n.test) == 'valueisINVALID_GAIN' and not (len(n.body) == 1 and isinstance(n.body[0], ast.Continue)):
            raise TranslateError('%s: calc_gain_correction does not skip the INVALID_GAIN placeholder' % rel)
        if _norm(n.test) == 'valid.any()' and (n.orelse or len(n.body) != 1):
            raise TranslateError('%s: calc_gain_correction: unexpected valid.any() branch' % rel)
    # ---- calc_bandpass_correction
    fn = _find_func(tree, 'calc_bandpass_correction', rel)
    got = [(_norm(n.targets[0]), _norm(n.value)) for n in ast.walk(fn) if isinstance(n, ast.Assign)]
    if ('valid', 'np.isfinite(bp)') not in got or ('bp', 'np.full(len(data_freqs),INVALID_GAIN)') not in got:
        raise TranslateError('%s: calc_bandpass_correction: valid / all-invalid assignments are %s' % (rel, got))
    ci = _calls(fn, 'complex_interp')
    if len(ci) != 1 or [_norm(a) for a in ci[0].args] != ['data_freqs', 'cal_freqs[valid]', 'bp[valid]']:
        raise TranslateError('%s: calc_bandpass_correction: complex_interp call not of the expected shape' % rel)
    kw = {k.arg: _norm(k.value) for k in ci[0].keywords}
    if kw == {'left': 'INVALID_GAIN', 'right': 'INVALID_GAIN'}:
        edges = True
    elif kw == {} or kw == {'left': 'None', 'right': 'None'}:
        edges = False
    else:
        raise TranslateError('%s: calc_bandpass_correction: complex_interp edges are %s' % (rel, kw))
    ifs = [n for n in ast.walk(fn) if isinstance(n, ast.If)]
    if len(ifs) != 1 or _norm(ifs[0].test) != 'valid.any()' or len(ifs[0].body) != 1 or len(ifs[0].orelse) != 1:
        raise TranslateError('%s: calc_bandpass_correction: guard is not `if valid.any(): ... else: ...`' % rel)
    app = [n for n in ast.walk(fn) if isinstance(n, ast.Call) and _norm(n.func) == 'corrections.append']
    if len(app) != 1 or _norm(app[0].args[0]) != 'ComparableArrayWrapper(np.reciprocal(bp))':
        raise TranslateError('%s: calc_bandpass_correction does not append np.reciprocal(bp): %s'
                             % (rel, [_norm(a) for a in app]))
    # ---- calc_delay_correction
    fn = _find_func(tree, 'calc_delay_correction', rel)
    got = [_norm(n.value) for n in ast.walk(fn) if isinstance(n, ast.Assign)]
    if got[:2] != ['[np.nan_to_num(value[index])forsegm,valueinsensor.segments()]',
                   "[np.exp(-2j*np.pi*d*data_freqs).astype('complex64')fordindelays]"]:
        raise TranslateError('%s: calc_delay_correction not nan_to_num + exp(-2j pi d f): %s' % (rel, got))
    # ---- complex_interp: np.interp on magnitude and unwrapped phase with the optional edge values
    fn = _find_func(tree, 'complex_interp', rel)
    got = {_norm(n.targets[0]): _norm(n.value) for n in ast.walk(fn) if isinstance(n, ast.Assign)
           and len(n.targets) == 1}
    want = {'mag_i': 'np.abs(yi)', 'phase_i': 'np.unwrap(np.angle(yi))',
            'mag': 'np.interp(x,xi,mag_i,left=mag_left,right=mag_right)',
            'phase': 'np.interp(x,xi,phase_i,left=phase_left,right=phase_right)',
            'mag_left': 'np.abs(left)', 'mag_right': 'np.abs(right)'}
    for k, v in want.items():
        if got.get(k) != v:
            raise TranslateError('%s: complex_interp: %s = %s (expected %s)' % (rel, k, got.get(k), v))
    out.append('(* katdal/applycal.py: calc_gain_correction / calc_bandpass_correction / calc_delay_correction *)')
    out.append('Definition applycal_recip_plain : bool := true.')
    out.append('Definition applycal_bandpass_edges_invalid : bool := %s.' % ('true' if edges else 'false'))


def item_applycal_product_loop(repo, out):
    """calc_correction: what happens to a requested product that lacks a correction sensor for some input."""
    rel = 'katdal/applycal.py'
    tree = _parse(repo, rel)
    fn = _find_func(tree, 'calc_correction', rel)
    loops = _enclosing_loops(fn)
    outer = [n for n in ast.walk(fn) if isinstance(n, ast.For) and _norm(n.iter) == 'cal_products'
             and _norm(n.target) == 'cal_product']
    if len(outer) != 1 or outer[0].orelse:
        raise TranslateError('%s: calc_correction: expected one `for cal_product in cal_products` loop' % rel)
    outer = outer[0]
    handlers = [n for n in ast.walk(outer) if isinstance(n, ast.ExceptHandler)]
    if len(handlers) != 1 or _norm(handlers[0].type) != 'KeyError':
        raise TranslateError('%s: calc_correction: expected one `except KeyError` in the product loop' % rel)
    h = handlers[0]
    if not (len(h.body) == 1 and isinstance(h.body[0], ast.If) and _norm(h.body[0].test) == 'skip_missing_products'
            and len(h.body[0].body) == 1 and len(h.body[0].orelse) == 1
            and isinstance(h.body[0].orelse[0], ast.Raise) and h.body[0].orelse[0].exc is None):
        raise TranslateError('%s: calc_correction: KeyError handler is not `if skip_missing_products: ... else: raise`'
                             % rel)
    act = h.body[0].body[0]
    tries = [n for n in ast.walk(outer) if isinstance(n, ast.Try) and h in n.handlers]
    body = [_norm(s) for s in tries[0].body]
    if not any('cache.get(sensor_prefix+inp)' in b for b in body):
        raise TranslateError('%s: calc_correction: the guarded statement is not cache.get(sensor_prefix + inp)' % rel)
    # where is corrections[cal_product] assigned, and which loop does the action leave?
    assigns = [n for n in ast.walk(outer) if isinstance(n, ast.Assign)
               and _norm(n.targets[0]) == 'corrections[cal_product]']
    if len(assigns) != 1:
        raise TranslateError('%s: calc_correction: corrections[cal_product] assigned %d times' % (rel, len(assigns)))
    mine = loops[id(act)]
    if isinstance(act, ast.Break):
        left = mine[-1]
    elif isinstance(act, ast.Continue):
        left = None
        if mine[-1] is not outer:
            raise TranslateError('%s: calc_correction: `continue` on a missing sensor is not in the product loop' % rel)
    else:
        raise TranslateError('%s: calc_correction: action on a missing sensor is %s' % (rel, _norm(act)))
    if left is None:
        # `continue` in the product loop itself: the rest of the product's body must come after the try
        skips = True
    elif left is outer:
        skips = False                                    # leaves the loop over the products: later products dropped
    else:
        # leaves an inner loop: that loop must be the per-input loop whose `else:` registers the product
        if not (left in outer.body and _norm(left.iter) in ('enumerate(inputs)', 'inputs')
                and any(a in list(ast.walk(ast.Module(body=left.orelse, type_ignores=[]))) for a in assigns)):
            raise TranslateError('%s: calc_correction: `break` on a missing sensor leaves an unexpected loop' % rel)
        skips = True
    if not isinstance(fn.args.defaults[-1], ast.Constant) or fn.args.defaults[-1].value is not False \
            or fn.args.args[-1].arg != 'skip_missing_products':
        raise TranslateError('%s: calc_correction: skip_missing_products does not default to False' % rel)
    out.append('(* katdal/applycal.py calc_correction: a product lacking a sensor is skipped (true) / ends the loop *)')
    out.append('Definition applycal_missing_skips_product : bool := %s.' % ('true' if skips else 'false'))


def item_applycal_wiring(repo, out):
    """The glue between the modelled pieces (fail-closed): the per-input product loop and g1*conj(g2) call in
    calc_correction_per_corrprod, the per-dump loop of _correction_block, how calc_correction numbers the inputs,
    and how VisibilityDataV4 wires the three kernels onto vis / flags / weights."""
    rel = 'katdal/applycal.py'
    tree = _parse(repo, rel)
    fn = _find_func(tree, 'calc_correction_per_corrprod', rel)
    body = [_norm(x) for x in fn.body if not (isinstance(x, ast.Expr) and isinstance(x.value, ast.Constant))]
    want = ['n_channels=channels.stop-channels.start',
            "g_per_input=np.ones((len(params.inputs),n_channels),dtype='complex64')",
            'forcal_product,product_correctionsinparams.corrections.items():channel_map=params.channel_maps[cal_product]'
            'foriinrange(len(params.inputs)):sensor=product_corrections[i]g_per_channel=sensor[dump]'
            'g_per_input[i]*=channel_map(g_per_channel,channels)',
            'g_per_input=np.ascontiguousarray(g_per_input.T)',
            "g_per_cp=np.empty((n_channels,len(params.input1_index)),dtype='complex64')",
            '_correction_inputs_to_corrprods(g_per_cp,g_per_input,params.input1_index,params.input2_index)',
            'returng_per_cp']
    if body != want:
        raise TranslateError('%s: calc_correction_per_corrprod body not of the expected shape: %s' % (rel, body))
    fn = _find_func(tree, '_correction_block', rel)
    body = [_norm(x) for x in fn.body if not (isinstance(x, ast.Expr) and isinstance(x.value, ast.Constant))]
    want = ["slices=tuple((slice(*loc)forlocinblock_info[None]['array-location']))",
            "block_shape=block_info[None]['chunk-shape']",
            'correction=np.empty(block_shape,np.complex64)',
            'forn,dumpinenumerate(range(slices[0].start,slices[0].stop)):'
            'correction[n]=calc_correction_per_corrprod(dump,slices[1],params)',
            'returncorrection']
    if body != want:
        raise TranslateError('%s: _correction_block body not of the expected shape: %s' % (rel, body))
    fn = _find_func(tree, 'calc_correction', rel)
    got = {_norm(n.targets[0]): _norm(n.value) for n in ast.walk(fn) if isinstance(n, ast.Assign)
           and len(n.targets) == 1}
    want = {'inputs': 'sorted(set(np.ravel(corrprods)))',
            'input1_index': 'np.array([inputs.index(cp[0])forcpincorrprods])',
            'input2_index': 'np.array([inputs.index(cp[1])forcpincorrprods])',
            'params': 'CorrectionParams(inputs,input1_index,input2_index,corrections,channel_maps)',
            'final_cal_products': 'list(corrections.keys())',
            'cal_stream_freqs': 'all_cal_freqs[cal_stream]',
            'sensor_prefix': "f'Calibration/Corrections/{cal_stream}/{product_type}/'"}
    for k, v in want.items():
        if got.get(k) != v:
            raise TranslateError('%s: calc_correction: %s = %s (expected %s)' % (rel, k, got.get(k), v))
    mb = _calls(fn, 'da.map_blocks')
    if len(mb) != 1 or _norm(mb[0].args[0]) != '_correction_block' or \
            {k.arg: _norm(k.value) for k in mb[0].keywords} != {'dtype': 'np.complex64', 'chunks': 'chunks',
                                                               'name': 'name', 'params': 'params'}:
        raise TranslateError('%s: calc_correction: da.map_blocks call not of the expected shape' % rel)
    # ---- visdatav4: kernels onto vis / flags / weights
    rel = 'katdal/visdatav4.py'
    tree = _parse(repo, rel)
    cls = [n for n in tree.body if isinstance(n, ast.ClassDef) and n.name == 'VisibilityDataV4']
    if len(cls) != 1:
        raise TranslateError('%s: class VisibilityDataV4 not found' % rel)
    mc = [n for n in cls[0].body if isinstance(n, ast.FunctionDef) and n.name == '_make_corrected']
    if len(mc) != 1 or [_norm(x) for x in mc[0].body] != \
            ['returnda.core.elemwise(apply_correction,data,self._corrections,dtype=data.dtype)']:
        raise TranslateError('%s: _make_corrected is not elemwise(apply_correction, data, self._corrections)' % rel)
    init = [n for n in cls[0].body if isinstance(n, ast.FunctionDef) and n.name == '__init__'][0]
    got = {_norm(n.targets[0]): _norm(n.value) for n in ast.walk(init) if isinstance(n, ast.Assign)
           and len(n.targets) == 1}
    want = {'corrected_vis': 'self._make_corrected(apply_vis_correction,self.source.data.vis)',
            'corrected_flags': 'self._make_corrected(apply_flags_correction,self.source.data.flags)',
            'corrected_weights': 'self._make_corrected(apply_weights_correction,self.source.data.weights)',
            'freqs': 'self.spectral_windows[0].channel_freqs',
            'corrprods': 'self.subarrays[self.subarray].corr_products',
            '(self.applycal_products,self._corrections)':
                'calc_correction(self.source.data.vis.chunks,self.sensor,corrprods,normalised_cal_products,freqs,'
                'cal_freqs,skip_missing_products)',
            '(normalised_cal_products,skip_missing_products)': '_normalise_cal_products(applycal,cal_freqs.keys())'}
    for k, v in want.items():
        if got.get(k) != v:
            raise TranslateError('%s: VisibilityDataV4.__init__: %s = %s (expected %s)' % (rel, k, got.get(k), v))
    vfw = [n for n in ast.walk(init) if isinstance(n, ast.Assign) and _norm(n.targets[0]) == 'self._corrected'
           and isinstance(n.value, ast.Call) and _norm(n.value.func) == 'VisFlagsWeights']
    if len(vfw) != 1 or [_norm(a) for a in vfw[0].value.args] != \
            ['corrected_vis', 'corrected_flags', 'corrected_weights', 'unscaled_weights']:
        raise TranslateError('%s: corrected VisFlagsWeights not (vis, flags, weights, unscaled_weights)' % rel)
    out.append('Definition applycal_wiring_checked : bool := true.')


def _codes(text):
    return '[' + '; '.join('%d%%Z' % ord(ch) for ch in text) + ']'


def _nf(text):
    """a template in the translator's normal form, without white space"""
    from vh.translate import normalise_source
    return normalise_source(text).replace(' ', '').replace('\n', '')


def item_applycal_name(repo, out):
    """The dask name of the corrections array and the chunk rule at the head of calc_correction (fail-closed):
    head:  shape = tuple(sum(bd) for bd in chunks); if len(chunks[2]) > N: chunks = (chunks[0], chunks[1], (shape[2],))
    tail:  final_cal_products = list(corrections.keys()); if not final_cal_products: return final_cal_products, None;
           params = ...; name = FORMAT.format(SEP.join(sorted(final_cal_products))[, uuid.uuid4().hex]);
           return final_cal_products, da.map_blocks(_correction_block, ..., chunks=chunks, name=name, params=params)
    Regenerated: the pieces of FORMAT, SEP (one character), whether the products are sorted, whether a per-call
    token (uuid4) is part of the name, N."""
    rel = 'katdal/applycal.py'
    tree = _parse(repo, rel)
    fn = _find_func(tree, 'calc_correction', rel)
    body = [x for x in fn.body if not (isinstance(x, ast.Expr) and isinstance(x.value, ast.Constant))]
    # ---- head
    if _norm(body[0]) != _nf('shape = tuple(sum(bd) for bd in chunks)'):
        raise TranslateError('%s: calc_correction does not start with shape = tuple(sum(bd) for bd in chunks)' % rel)
    st = body[1]
    if not (isinstance(st, ast.If) and not st.orelse and isinstance(st.test, ast.Compare)
            and len(st.test.ops) == 1 and _norm(st.test.left) == 'len(chunks[2])'
            and isinstance(st.test.comparators[0], ast.Constant) and type(st.test.comparators[0].value) is int
            and [_norm(x) for x in st.body] == [_nf('chunks = (chunks[0], chunks[1], (shape[2],))')]):
        raise TranslateError('%s: calc_correction: baseline chunk rule not of the expected shape' % rel)
    n = st.test.comparators[0].value
    if isinstance(st.test.ops[0], ast.Gt):
        limit = n
    elif isinstance(st.test.ops[0], ast.GtE):
        limit = n - 1
    else:
        raise TranslateError('%s: calc_correction: baseline chunk rule uses an unexpected comparison' % rel)
    if limit < 0:
        raise TranslateError('%s: calc_correction: baseline chunk rule limit negative' % rel)
    # chunks must not be reassigned anywhere else, shape not at all
    for var, count in (('chunks', 1), ('shape', 1)):
        k = sum(1 for a in ast.walk(fn) if isinstance(a, (ast.Assign, ast.AugAssign, ast.AnnAssign))
                for t in (a.targets if isinstance(a, ast.Assign) else [a.target])
                for nm in ast.walk(t) if isinstance(nm, ast.Name) and nm.id == var)
        if k != count:
            raise TranslateError('%s: calc_correction: %s assigned %d times (expected %d)' % (rel, var, k, count))
    # ---- tail
    tail = body[-5:]
    if len(tail) != 5 or not isinstance(tail[3], ast.Assign) or _norm(tail[3].targets[0]) != 'name':
        raise TranslateError('%s: calc_correction: tail not of the expected shape' % rel)
    want = [_nf('final_cal_products = list(corrections.keys())'),
            _nf('if not final_cal_products:\n    return final_cal_products, None'),
            _nf('params = CorrectionParams(inputs, input1_index, input2_index, corrections, channel_maps)'),
            None,
            _nf('return (final_cal_products, da.map_blocks(_correction_block, dtype=np.complex64, chunks=chunks, '
                'name=name, params=params))')]
    for k, w in enumerate(want):
        if w is not None and _norm(tail[k]) != w:
            raise TranslateError('%s: calc_correction: statement %d of the tail is %s' % (rel, k, _norm(tail[k])))
    if sum(1 for a in ast.walk(fn) if isinstance(a, ast.Assign) for t in a.targets if _norm(t) == 'name') != 1:
        raise TranslateError('%s: calc_correction: name assigned more than once' % rel)
    v = tail[3].value
    if not (isinstance(v, ast.Call) and isinstance(v.func, ast.Attribute) and v.func.attr == 'format'
            and isinstance(v.func.value, ast.Constant) and isinstance(v.func.value.value, str) and not v.keywords
            and 1 <= len(v.args) <= 2):
        raise TranslateError('%s: calc_correction: name is not FORMAT.format(...)' % rel)
    fmt = v.func.value.value
    pieces = fmt.split('{}')
    if '{' in ''.join(pieces) or '}' in ''.join(pieces) or len(pieces) != len(v.args) + 1:
        raise TranslateError('%s: calc_correction: unexpected format string %r' % (rel, fmt))
    j = v.args[0]
    if not (isinstance(j, ast.Call) and isinstance(j.func, ast.Attribute) and j.func.attr == 'join'
            and isinstance(j.func.value, ast.Constant) and isinstance(j.func.value.value, str)
            and len(j.func.value.value) == 1 and len(j.args) == 1 and not j.keywords):
        raise TranslateError('%s: calc_correction: first name field is not SEP.join(...) with a one-character SEP' % rel)
    sep = j.func.value.value
    arg = _norm(j.args[0])
    if arg == 'sorted(final_cal_products)':
        is_sorted = True
    elif arg == 'final_cal_products':
        is_sorted = False
    else:
        raise TranslateError('%s: calc_correction: the name joins %s' % (rel, arg))
    per_call = False
    if len(v.args) == 2:
        imports = {a.name for n_ in tree.body if isinstance(n_, ast.Import) for a in n_.names if a.asname is None}
        if _norm(v.args[1]) != 'uuid.uuid4().hex' or 'uuid' not in imports or pieces[2] != '':
            raise TranslateError('%s: calc_correction: second name field is not a trailing uuid.uuid4().hex' % rel)
        if any(isinstance(a, (ast.Assign, ast.AugAssign)) and 'uuid' in
               [nm.id for t in (a.targets if isinstance(a, ast.Assign) else [a.target])
                for nm in ast.walk(t) if isinstance(nm, ast.Name)] for a in ast.walk(tree)):
            raise TranslateError('%s: the name uuid is rebound' % rel)
        per_call = True
    out.append('Definition applycal_name_prefix : list Z := %s.' % _codes(pieces[0]))
    out.append('Definition applycal_name_mid : list Z := %s.' % _codes(pieces[1]))
    out.append('Definition applycal_name_sep_code : Z := %d%%Z.' % ord(sep))
    out.append('Definition applycal_name_sorted : bool := %s.' % ('true' if is_sorted else 'false'))
    out.append('Definition applycal_name_per_call : bool := %s.' % ('true' if per_call else 'false'))
    out.append('Definition applycal_bl_chunks_limit : nat := %d%%nat.' % limit)


ITEMS = [item_applycal_kernels, item_applycal_channel_map, item_applycal_solutions, item_applycal_product_loop,
         item_applycal_wiring, item_applycal_name]
