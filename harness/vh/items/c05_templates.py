"""Source templates of the katdal functions mirrored by the C05 model (docstrings and comments do not matter).

A template is the function as the model follows it, statement by statement.  `__Hn__` is a hole: the expression found
there is translated into Gallina (see c05.py) and used by the model; `__ANY__` matches anything (texts of error
messages).  Everything else must be syntactically identical (same statements, same order, same operators, same
constants, same default arguments) or the translator refuses the source."""

LAZY_TRANSFORM_INIT = '''
def __init__(self, name=None, transform=lambda d, k: d, new_shape=lambda s: tuple(s), dtype=None):
    self.name = 'unnamed' if name is None else name
    self.transform = transform
    self.new_shape = new_shape
    self.dtype = np.dtype(dtype) if dtype is not None else None
'''

LAZY_TRANSFORM_CALL = '''
def __call__(self, data, keep):
    return self.transform(data, keep)
'''

LAZY_INIT = '''
def __init__(self, dataset, keep=slice(None), transforms=None):
    self.dataset = dataset
    self.transforms = [] if transforms is None else transforms
    self.name = getattr(self.dataset, 'name', '')
    keep = list(keep) if isinstance(keep, tuple) else [keep]
    keep = keep[:len(dataset.shape)] + [slice(None)] * (len(dataset.shape) - len(keep))
    self._lookup = []
    for dim_keep, dim_len in zip(keep, dataset.shape):
        if isinstance(dim_keep, slice):
            dim_keep = dim_keep.indices(dim_len)
            dim_keep = np.arange(*dim_keep) if dim_keep != slice(None).indices(dim_len) else None
        else:
            dim_keep = np.atleast_1d(dim_keep)
            if dim_keep.dtype == bool and len(dim_keep) == dim_len:
                dim_keep = np.nonzero(dim_keep)[0] if not dim_keep.all() else None
        self._lookup.append(dim_keep)
    self._initial_shape = tuple([len(dim_keep) if dim_keep is not None else dim_len for dim_keep, dim_len in zip(self._lookup, self.dataset.shape)])
    self._initial_dtype = self.dataset.dtype
    (self.shape, self.dtype)
'''

LAZY_LEN = '''
def __len__(self):
    return self.shape[0]
'''

LAZY_ITER = '''
def __iter__(self):
    for index in range(len(self)):
        yield self[index]
'''

# holes: 1 sortedness test on one difference, 2 range test, 3 jump test, 4 dense-selection test,
# 20 the post-selection offsets of the dense strategy (`dim_keep - dim_keep[0]`; an in-place form is recognised and reported)
LAZY_GETITEM = '''
def __getitem__(self, keep):
    ndim = len(self.dataset.shape)
    keep = list(keep) if isinstance(keep, tuple) else [keep]
    original_keep = tuple(keep)
    keep = keep[:ndim] + [slice(None)] * (ndim - len(keep))
    keep = [dkeep if dlookup is None else dlookup[dkeep] for dkeep, dlookup in zip(keep, self._lookup)]
    selection, segment_sizes = ([], [])
    for dim_keep, dim_len in zip(keep, self.dataset.shape):
        if np.isscalar(dim_keep):
            selection.append([(dim_keep, None, None)])
            segment_sizes.append([])
        elif isinstance(dim_keep, slice):
            start, stop, stride = dim_keep.indices(dim_len)
            segm_size = len(range(start, stop, stride))
            selection.append([(slice(start, stop, stride), slice(None), slice(0, segm_size, 1))])
            segment_sizes.append([segm_size])
        else:
            dim_keep = np.atleast_1d(dim_keep)
            if dim_keep.dtype == bool and len(dim_keep) == dim_len:
                dim_keep = np.nonzero(dim_keep)[0]
            elif np.any(__H1__):
                raise TypeError(__ANY__)
            if len(dim_keep) == 0:
                selection.append([(slice(0, 1, 1), slice(0, 0, 1), slice(0, 0, 1))])
                segment_sizes.append([0])
                continue
            if __H2__:
                raise IndexError(__ANY__)
            jumps = np.nonzero(__H3__)[0]
            first = [dim_keep[0]] + dim_keep[jumps + 1].tolist()
            last = dim_keep[jumps].tolist() + [dim_keep[-1]]
            segments = np.c_[first, np.array(last) + 1]
            if __H4__:
                selection.append([(slice(segments[0, 0], segments[-1, 1], 1), __H20__, slice(0, len(dim_keep), 1))])
                segment_sizes.append([len(dim_keep)])
            else:
                segm_sizes = [end - start for start, end in segments]
                segm_starts = np.cumsum([0] + segm_sizes)
                selection.append([(slice(start, end, 1), slice(None), slice(segm_starts[n], segm_starts[n + 1], 1)) for n, (start, end) in enumerate(segments)])
                segment_sizes.append(segm_sizes)
    if segment_sizes == [[]] * ndim:
        out_data = self.dataset[tuple([select[0][0] for select in selection])]
    else:
        chunk_indices = np.mgrid[[slice(0, len(select), 1) for select in selection]]
        out_data = np.empty([np.sum(segments) for segments in segment_sizes if segments], dtype=self.dataset.dtype)
        for chunk_index in chunk_indices.reshape(ndim, -1).T:
            dataset_select = tuple([select[segment][0] for select, segment in zip(selection, chunk_index)])
            chunk = self.dataset[dataset_select]
            post_select = [select[segment][1] for select, segment in zip(selection, chunk_index)]
            post_select = tuple([select for select in post_select if select is not None])
            for dim in range(len(chunk.shape)):
                if not (isinstance(post_select[dim], slice) and post_select[dim] == slice(None)):
                    chunk = chunk[tuple([slice(None)] * dim + [post_select[dim]])]
            out_select = [select[segment][2] for select, segment in zip(selection, chunk_index)]
            out_select = tuple([select for select in out_select if select is not None])
            out_data[out_select] = chunk
    return reduce(lambda data, transform: transform(data, original_keep), self.transforms, out_data)
'''

LAZY_SHAPE = '''
@property
def shape(self):
    new_shape = reduce(lambda shape, transform: transform.new_shape(shape), self.transforms, self._initial_shape)
    allowed_shapes = [self._initial_shape[:n + 1] for n in range(len(self._initial_shape))]
    if new_shape[:len(self._initial_shape)] not in allowed_shapes:
        raise InvalidTransform(__ANY__)
    return new_shape
'''

# hole 5: one step of the dtype fold
LAZY_DTYPE = '''
@property
def dtype(self):
    return reduce(lambda dtype, transform: __H5__, self.transforms, self._initial_dtype)
'''

# hole 6: which indexers are kept
CONCAT_INIT = '''
def __init__(self, indexers, transforms=None):
    self.indexers = [indexer for indexer in indexers if __H6__]
    if not self.indexers:
        self.indexers = indexers[:1]
    for n, indexer in enumerate(self.indexers):
        self.indexers[n] = indexer if isinstance(indexer, LazyIndexer) else LazyIndexer(indexer)
    self.transforms = [] if transforms is None else transforms
    names = unique_in_order([indexer.name for indexer in self.indexers if indexer.name])
    self.name = names[0] + ' etc.' if len(names) > 1 else names[0] if len(names) == 1 else ''
    (self.shape, self.dtype)
'''

# holes: 7 find_indexer, 8 scalar normalisation, 9 scalar range test, 10 local scalar, 11 stride test,
# 12 first / 13 one-past-last indexer of a slice, 14 chunk_start, 15 chunk_stop, 16 skip test, 17 list normalisation,
# 18 local list indices
CONCAT_GETITEM = '''
def __getitem__(self, keep):
    ndim = len(self._initial_shape)
    keep = list(keep) if isinstance(keep, tuple) else [keep]
    original_keep = tuple(keep)
    keep = keep[:ndim] + [slice(None)] * (ndim - len(keep))
    keep_head, keep_tail = (keep[0], keep[1:])
    shape_tails = [len(np.atleast_1d(np.arange(dim_len)[dim_keep])) for dim_keep, dim_len in zip(keep[1:], self._initial_shape[1:])]
    shape_tails = [dim_len for dim_len, dim_keep in zip(shape_tails, keep[1:]) if not np.isscalar(dim_keep)]
    indexer_starts = np.cumsum([0] + [len(indexer) for indexer in self.indexers[:-1]])

    def find_indexer(index):
        return __H7__
    if np.isscalar(keep_head):
        keep_head = __H8__
        if __H9__:
            raise IndexError(__ANY__)
        ind = find_indexer(keep_head)
        out_data = self.indexers[ind][tuple([__H10__] + keep_tail)]
    elif isinstance(keep_head, slice):
        start, stop, stride = keep_head.indices(len(self))
        if __H11__:
            raise IndexError(__ANY__)
        stop = __H19__
        chunks = []
        for ind in range(__H12__, __H13__):
            chunk_start = __H14__
            chunk_stop = __H15__
            if __H16__:
                continue
            chunk = self.indexers[ind][tuple([slice(chunk_start, chunk_stop, stride)] + keep_tail)]
            chunks.append(chunk.reshape(tuple([len(chunk)] + shape_tails)))
        out_data = np.concatenate(chunks)
    else:
        keep_head = np.atleast_1d(keep_head)
        if keep_head.dtype == bool and len(keep_head) == len(self):
            chunks = []
            for ind in range(len(self.indexers)):
                chunk_start = indexer_starts[ind]
                chunk_stop = indexer_starts[ind + 1] if ind < len(indexer_starts) - 1 else len(self)
                chunk = self.indexers[ind][tuple([keep_head[chunk_start:chunk_stop]] + keep_tail)]
                chunks.append(chunk.reshape(tuple([len(chunk)] + shape_tails)))
            out_data = np.concatenate(chunks)
        else:
            keep_head = __H17__
            indexers = find_indexer(keep_head)
            local_indices = __H18__
            final_shape = [len(np.atleast_1d(np.arange(len(self))[keep[0]]))] + shape_tails
            out_data = np.empty(final_shape, dtype=self._initial_dtype)
            for ind in range(len(self.indexers)):
                chunk_mask = indexers == ind
                if chunk_mask.any():
                    chunk = self.indexers[ind][tuple([local_indices[chunk_mask]] + keep_tail)]
                    out_data[chunk_mask] = chunk.reshape(tuple([chunk_mask.sum()] + shape_tails))
    if out_data.dtype != self._initial_dtype:
        out_data = out_data.astype(self._initial_dtype)
    return reduce(lambda data, transform: transform(data, original_keep), self.transforms, out_data)
'''

CONCAT_INITIAL_SHAPE = '''
@property
def _initial_shape(self):
    shape_tails = {indexer.shape[1:] for indexer in self.indexers}
    if len(shape_tails) != 1:
        raise ConcatenationError(__ANY__)
    return tuple([np.sum([len(indexer) for indexer in self.indexers])] + list(shape_tails.pop()))
'''

CONCAT_INITIAL_DTYPE = '''
@property
def _initial_dtype(self):
    dtypes = {indexer.dtype for indexer in self.indexers}
    if len(dtypes) == 1:
        return dtypes.pop()
    elif np.all([np.issubdtype(dtype, np.bytes_) for dtype in dtypes]):
        return np.dtype('|S{}'.format(max([dt.itemsize for dt in dtypes])))
    else:
        raise ConcatenationError(__ANY__)
'''
