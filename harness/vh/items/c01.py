"""Translator items for C01: the public attributes recomputed by DataSet.select, the timestamp conversions of the
four formats (as exact linear forms), the conjugation decision of each `vis` property, the weight names of v2 / v3
and the syntactic snapshot discipline of the indexer-producing properties (no closure refers to `self`, mutable
masks are copied).  Everything is fail-closed: an unexpected shape raises TranslateError (broken tie)."""
import ast
from fractions import Fraction

from vh.translate import TranslateError, _parse, _class, _func, _const_eval, _module_assign, coq_string, coq_strings, coq_Z


def _norm(node):
    return ast.unparse(node).replace(' ', '')


# ------------------------------------------------------------------------------------------------ attributes

ATTR_FORMS = {
    # attribute -> (operation, regular form of the right-hand side with {m} = mask attribute)
    'dumps': ('nonzero', 'self.{m}.nonzero()[0]'),
    'channels': ('nonzero', 'self.{m}.nonzero()[0]'),
    'freqs': ('index', 'self.spectral_windows[self.spw].channel_freqs[self.{m}]'),
    'corr_products': ('index', 'self.subarrays[self.subarray].corr_products[self.{m}]'),
}
MASKS = ('_time_keep', '_freq_keep', '_corrprod_keep')


def item_c01_attrs(repo, out):
    rel = 'katdal/dataset.py'
    sel = _func(_class(_parse(repo, rel), 'DataSet', rel), 'select', rel)
    rows = {}
    set_keep = None
    for n in sel.body:
        if isinstance(n, ast.Assign):
            names = [_norm(t) for t in n.targets]
            rhs = _norm(n.value)
            if 'self.shape' in names:
                want = '(' + ','.join('self.%s.sum()' % m for m in MASKS) + ')'
                if rhs != want or len(names) != 1:
                    raise TranslateError('dataset.select: self.shape is %s' % rhs)
                rows['shape'] = ('sum', ','.join(MASKS))
            for attr, (opn, form) in ATTR_FORMS.items():
                if 'self.' + attr in names:
                    hit = [m for m in MASKS if rhs == form.format(m=m)]
                    if len(hit) != 1 or attr in rows:
                        raise TranslateError('dataset.select: self.%s is %s' % (attr, rhs))
                    rows[attr] = (opn, hit[0])
        if isinstance(n, ast.Expr) and _norm(n.value).startswith('self._set_keep('):
            set_keep = _norm(n.value)
    want_call = 'self._set_keep(' + ','.join('self.' + m for m in MASKS + ('_weights_keep', '_flags_keep')) + ')'
    if set_keep != want_call:
        raise TranslateError('dataset.select: _set_keep call is %s' % set_keep)
    order = ['shape', 'dumps', 'channels', 'freqs', 'corr_products']
    if sorted(rows) != sorted(order):
        raise TranslateError('dataset.select: public attributes found: %s' % sorted(rows))
    out.append('Definition ds_attr_table : list (string * (string * string)) := [%s].' % '; '.join(
        '(%s, (%s, %s))' % (coq_string(a), coq_string(rows[a][0]), coq_string(rows[a][1])) for a in order))


# ------------------------------------------------------------------------------------------------ timestamp conversions

def _lin(node, vars_, what):
    """Exact linear form {var: Fraction, 1: Fraction} of an arithmetic expression over the given variable spellings."""
    s = _norm(node)
    if s in vars_:
        return {vars_[s]: Fraction(1)}
    if isinstance(node, ast.Constant) and isinstance(node.value, (int, float)) and not isinstance(node.value, bool):
        return {1: Fraction(node.value)}
    if isinstance(node, ast.Call) and _norm(node.func) == 'np.float64' and len(node.args) == 1 and not node.keywords:
        return _lin(node.args[0], vars_, what)
    if isinstance(node, ast.BinOp):
        a, b = _lin(node.left, vars_, what), _lin(node.right, vars_, what)
        if isinstance(node.op, (ast.Add, ast.Sub)):
            sgn = 1 if isinstance(node.op, ast.Add) else -1
            r = dict(a)
            for k, v in b.items():
                r[k] = r.get(k, Fraction(0)) + sgn * v
            return r
        if isinstance(node.op, ast.Mult):
            for x, y in ((a, b), (b, a)):
                if set(x) <= {1}:
                    return {k: v * x.get(1, Fraction(0)) for k, v in y.items()}
        if isinstance(node.op, ast.Div) and set(b) <= {1} and b.get(1, 0) != 0:
            return {k: v / b[1] for k, v in a.items()}
    raise TranslateError('%s: not an exact linear expression: %s' % (what, ast.unparse(node)[:100]))


def _coq_form(form, order, what):
    if form.get(1, 0) != 0 or not set(form) <= set(order) | {1}:
        raise TranslateError('%s: unexpected terms %s' % (what, sorted(map(str, form))))
    return '[%s]' % '; '.join('(%s, %s)' % (coq_Z(form.get(v, Fraction(0)).numerator),
                                            coq_Z(form.get(v, Fraction(0)).denominator)) for v in order)


def _the_lambda(fn, transform_name, what):
    """The lambda passed as second argument of LazyTransform('<transform_name>', lambda t, keep: ...)."""
    hits = []
    for n in ast.walk(fn):
        if isinstance(n, ast.Call) and _norm(n.func) == 'LazyTransform' and n.args \
                and isinstance(n.args[0], ast.Constant) and n.args[0].value == transform_name:
            if len(n.args) < 2 or not isinstance(n.args[1], ast.Lambda):
                raise TranslateError('%s: %s is not built from a lambda' % (what, transform_name))
            hits.append(n.args[1])
    if len(hits) != 1:
        raise TranslateError('%s: %d LazyTransform(%r)' % (what, len(hits), transform_name))
    lam = hits[0]
    if [a.arg for a in lam.args.args] != ['t', 'keep']:
        raise TranslateError('%s: lambda arguments %s' % (what, [a.arg for a in lam.args.args]))
    return lam


def item_c01_tconv(repo, out):
    order = ['t', 'dump', 'off']
    vars_ = {'t': 't', 'dump_period': 'dump', 'time_offset': 'off'}
    for ver, cls in (('v1', 'H5DataV1'), ('v2', 'H5DataV2')):
        rel = 'katdal/h5data%s.py' % ver
        fn = _func(_class(_parse(repo, rel), cls, rel), 'timestamps', rel)
        srcs = [_norm(n) for n in fn.body]
        if 'dump_period,time_offset=(self.dump_period,self.time_offset)' not in srcs:
            raise TranslateError('%s.timestamps: dump_period / time_offset are not bound from self' % cls)
        lam = _the_lambda(fn, 'extract_time', cls + '.timestamps')
        out.append('Definition tconv_%s : list (Z * Z) := %s.' % (
            ver, _coq_form(_lin(lam.body, vars_, cls + '.timestamps'), order, cls + '.timestamps')))
    # v3: offset_to_middle_of_dump is 0.0 for centroid timestamps, else 0.5 * cbf_dump_period; then
    #     self._timestamps += offset_to_middle_of_dump + self.time_offset
    rel = 'katdal/h5datav3.py'
    init = _func(_class(_parse(repo, rel), 'H5DataV3', rel), '__init__', rel)
    tries = [n for n in init.body if isinstance(n, ast.Try) and 'offset_to_middle_of_dump' in ast.unparse(n)]
    if len(tries) != 1 or len(tries[0].handlers) != 1:
        raise TranslateError('H5DataV3.__init__: offset_to_middle_of_dump try block not found')

    def assigned(stmts, where):
        v = [n.value for n in stmts if isinstance(n, ast.Assign) and _norm(n.targets[0]) == 'offset_to_middle_of_dump']
        if len(v) != 1:
            raise TranslateError('H5DataV3.__init__: offset_to_middle_of_dump assigned %d times in %s' % (len(v), where))
        return v[0]
    t = tries[0]
    if "timestamp_reference" not in ast.unparse(t.body[0]) or not any(
            isinstance(n, ast.Assert) and "ts_ref=='centroid'" in _norm(n.test) for n in t.body):
        raise TranslateError('H5DataV3.__init__: centroid test not of the expected shape')
    if _norm(t.handlers[0].type) != 'KeyError':
        raise TranslateError('H5DataV3.__init__: handler is %s' % _norm(t.handlers[0].type))
    v3vars = {'cbf_dump_period': 'dump', 'self.time_offset': 'off', 't': 't'}
    off_c = _lin(assigned(t.body, 'try'), v3vars, 'v3 centroid offset')
    off_n = _lin(assigned(t.handlers[0].body, 'except'), v3vars, 'v3 offset')
    aug = [n for n in init.body if isinstance(n, ast.AugAssign) and _norm(n.target) == 'self._timestamps'
           and isinstance(n.op, ast.Add)]
    if len(aug) != 1 or _norm(aug[0].value) != 'offset_to_middle_of_dump+self.time_offset':
        raise TranslateError('H5DataV3.__init__: timestamps are not shifted by offset_to_middle_of_dump + self.time_offset')
    for nm, offs in (('centroid', off_c), ('start', off_n)):
        form = {'t': Fraction(1), 'off': Fraction(1)}
        for k, v in offs.items():
            form[k] = form.get(k, Fraction(0)) + v
        out.append('Definition tconv_v3_%s : list (Z * Z) := %s.' % (nm, _coq_form(form, order, 'v3 ' + nm)))
    ts3 = _func(_class(_parse(repo, rel), 'H5DataV3', rel), 'timestamps', rel)
    if [_norm(n) for n in ts3.body if not isinstance(n, ast.Expr)] != ['returnself._timestamps[self._time_keep]']:
        raise TranslateError('H5DataV3.timestamps is not self._timestamps[self._time_keep]')
    rel = 'katdal/visdatav4.py'
    ts4 = _func(_class(_parse(repo, rel), 'VisibilityDataV4', rel), 'timestamps', rel)
    if [_norm(n) for n in ts4.body if not isinstance(n, ast.Expr)] != ['returnself.source.timestamps[self._time_keep]']:
        raise TranslateError('VisibilityDataV4.timestamps is not self.source.timestamps[self._time_keep]')
    out.append('Definition tconv_v4 : list (Z * Z) := %s.' % _coq_form({'t': Fraction(1)}, order, 'v4'))


# ------------------------------------------------------------------------------------------------ conjugation

def _conj(node):
    return '.conjugate()' in _norm(node)


def item_c01_conj(repo, out):
    rel = 'katdal/h5datav1.py'
    fn = _func(_class(_parse(repo, rel), 'H5DataV1', rel), '_vis_indexers', rel)
    inner = [n for n in fn.body if isinstance(n, ast.FunctionDef) and n.name == 'index_corrprod']
    if len(inner) != 1:
        raise TranslateError('H5DataV1._vis_indexers: index_corrprod not found')
    rets = [n for n in ast.walk(inner[0]) if isinstance(n, ast.Return)]
    if len(rets) != 1:
        raise TranslateError('H5DataV1.index_corrprod: %d return statements' % len(rets))
    out.append('Definition vis_conj_v1 : bool := %s.' % ('true' if _conj(rets[0].value) else 'false'))
    rel = 'katdal/h5datav2.py'
    fn = _func(_class(_parse(repo, rel), 'H5DataV2', rel), 'vis', rel)
    lams = [n for n in ast.walk(fn) if isinstance(n, ast.Lambda) and [a.arg for a in n.args.args] == ['vis', 'keep']]
    if len(lams) != 1 or 'vis.view(np.complex64)[...,0]' not in _norm(lams[0].body):
        raise TranslateError('H5DataV2.vis: extract lambda not of the expected shape')
    out.append('Definition vis_conj_v2 : bool := %s.' % ('true' if _conj(lams[0].body) else 'false'))
    rel = 'katdal/h5datav3.py'
    fn = _func(_class(_parse(repo, rel), 'H5DataV3', rel), 'vis', rel)
    ifs = [n for n in fn.body if isinstance(n, ast.If)]
    if len(ifs) != 1 or _norm(ifs[0].test) != 'self.spectral_windows[self.spw].sideband==1':
        raise TranslateError('H5DataV3.vis: sideband test not of the expected shape')

    def branch(stmts):
        defs = [n for n in stmts if isinstance(n, ast.FunctionDef) and n.name == 'convert']
        if len(defs) != 1 or len(stmts) != 1:
            raise TranslateError('H5DataV3.vis: branch does not define convert only')
        rets = [n for n in ast.walk(defs[0]) if isinstance(n, ast.Return)]
        if len(rets) != 1 or 'vis.view(np.complex64)[...,0]' not in _norm(rets[0].value):
            raise TranslateError('H5DataV3.vis: convert not of the expected shape')
        return 'true' if _conj(rets[0].value) else 'false'
    out.append('Definition vis_conj_v3 (upper : bool) : bool := if upper then %s else %s.' % (
        branch(ifs[0].body), branch(ifs[0].orelse)))
    # v4 serves the stored visibilities (applycal aside): `vis` returns the cached indexer over self._corrected.vis
    rel = 'katdal/visdatav4.py'
    cls = _class(_parse(repo, rel), 'VisibilityDataV4', rel)
    sk = _func(cls, '_set_keep', rel)
    srcs = [_norm(n) for n in sk.body]
    for need in ('stage1=(self._time_keep,self._freq_keep,self._corrprod_keep)',
                 'self._vis=DaskLazyIndexer(self._corrected.vis,stage1)',
                 'self._weights=DaskLazyIndexer(self._corrected.weights,stage1)',
                 'self._raw_flags=DaskLazyIndexer(self._corrected.flags,stage1)',
                 'self._flags=DaskLazyIndexer(self._raw_flags,transforms=flag_transforms)'):
        if need not in srcs:
            raise TranslateError('VisibilityDataV4._set_keep: missing %s' % need)
    out.append('Definition vis_conj_v4 : bool := false.')


def item_c01_weight_names(repo, out):
    for ver in ('v2', 'v3'):
        rel = 'katdal/h5data%s.py' % ver
        names = _const_eval(_module_assign(_parse(repo, rel), 'WEIGHT_NAMES', rel), {}, ver + ' WEIGHT_NAMES')
        if not (isinstance(names, tuple) and all(isinstance(s, str) for s in names)):
            raise TranslateError('%s: WEIGHT_NAMES is not a tuple of strings' % rel)
        out.append('Definition weight_names_%s : list string := %s.' % (ver, coq_strings(names)))


# ------------------------------------------------------------------------------------------------ snapshot discipline

def _closures(fn):
    """Nested function definitions and lambdas of a method."""
    res = []
    for n in ast.walk(fn):
        if n is not fn and isinstance(n, (ast.FunctionDef, ast.Lambda)):
            res.append(n)
    return res


def _mentions_self(node):
    return any(isinstance(n, ast.Name) and n.id == 'self' for n in ast.walk(node))


def item_c01_snapshot(repo, out):
    rows = []
    sites = [('katdal/h5datav1.py', 'H5DataV1', ['timestamps', '_vis_indexers', 'vis', 'weights', 'flags']),
             ('katdal/h5datav2.py', 'H5DataV2', ['timestamps', '_vislike_indexer', 'vis', 'weights', 'flags']),
             ('katdal/h5datav3.py', 'H5DataV3', ['_vislike_indexer', 'vis', 'weights', 'flags']),
             ('katdal/visdatav4.py', 'VisibilityDataV4', ['_set_keep'])]
    for rel, cls, methods in sites:
        c = _class(_parse(repo, rel), cls, rel)
        for m in methods:
            fn = _func(c, m, rel)
            ok = not any(_mentions_self(cl) for cl in _closures(fn))
            rows.append('(%s, %s)' % (coq_string('%s.%s' % (cls, m)), 'true' if ok else 'false'))
    out.append('Definition snapshot_closures_free_of_self : list (string * bool) := [%s].' % '; '.join(rows))
    # mutable state captured by value
    copies = []
    rel = 'katdal/h5datav1.py'
    fn = _func(_class(_parse(repo, rel), 'H5DataV1', rel), '_vis_indexers', rel)
    copies.append(('H5DataV1.corrprod_keep', 'corrprod_keep=self._corrprod_keep.copy()' in [_norm(n) for n in fn.body]))
    rel = 'katdal/visdatav4.py'
    sk = _func(_class(_parse(repo, rel), 'VisibilityDataV4', rel), '_set_keep', rel)
    copies.append(('VisibilityDataV4.flags_select', any('select=self._flags_select.copy()' == _norm(n)
                                                        for n in ast.walk(sk) if isinstance(n, ast.Assign))))
    rel = 'katdal/lazy_indexer.py'
    init = _func(_class(_parse(repo, rel), 'DaskLazyIndexer', rel), '__init__', rel)
    copies.append(('DaskLazyIndexer.keep', 'self.keep=copy.deepcopy(keep)' in [_norm(n) for n in init.body]))
    # LazyIndexer turns a full-length boolean mask into fresh integer positions (np.nonzero) or None
    init = _func(_class(_parse(repo, rel), 'LazyIndexer', rel), '__init__', rel)
    copies.append(('LazyIndexer.lookup', 'dim_keep=np.nonzero(dim_keep)[0]ifnotdim_keep.all()elseNone'
                   in [_norm(n) for n in ast.walk(init) if isinstance(n, ast.Assign)]))
    out.append('Definition snapshot_copies : list (string * bool) := [%s].' % '; '.join(
        '(%s, %s)' % (coq_string(a), 'true' if b else 'false') for a, b in copies))
    # the duplicate final dump is ignored by padding the time mask with False (v2 timestamps + vis-like, v3 vis-like)
    pads = []
    for rel, cls, m, ds in (('katdal/h5datav2.py', 'H5DataV2', 'timestamps', 'self._timestamps'),
                            ('katdal/h5datav2.py', 'H5DataV2', '_vislike_indexer', 'dataset'),
                            ('katdal/h5datav3.py', 'H5DataV3', '_vislike_indexer', 'dataset')):
        fn = _func(_class(_parse(repo, rel), cls, rel), m, rel)
        ifs = [n for n in fn.body if isinstance(n, ast.If) and _norm(n.test) == 'len(time_keep)==len(%s)-1' % ds]
        ok = len(ifs) == 1 and [_norm(n) for n in ifs[0].body] == [
            'time_keep=np.zeros(len(%s),dtype=bool)' % ds, 'time_keep[:len(self._time_keep)]=self._time_keep'] \
            and not ifs[0].orelse
        pads.append('(%s, %s)' % (coq_string('%s.%s' % (cls, m)), 'true' if ok else 'false'))
    out.append('Definition dup_final_dump_padded : list (string * bool) := [%s].' % '; '.join(pads))


# ------------------------------------------------------------------------------------------------ sensor cache grid

def _targets(node):
    if isinstance(node, ast.Assign):
        return [_norm(t) for t in node.targets]
    if isinstance(node, (ast.AugAssign, ast.AnnAssign)):
        return [_norm(node.target)]
    return []


def _grid_statements(cls, cname):
    """(constructor call, final time-array expression, index of the deciding statement in __init__.body, __init__).

    The deciding statement is the LAST of: `self.sensor = SensorCache(cache, <timestamps>, ...)` and any later
    `self.sensor.timestamps = <expr>`; all of them must be unconditional top-level statements of __init__, nothing
    else in the class may rebind `self.sensor` or `self.sensor.timestamps`, the cache must be given
    keep=self._time_keep and the default selection (`self.select(...)`) must come after the deciding statement."""
    rel = cname
    init = _func(cls, '__init__', rel)
    binders = [n for n in ast.walk(cls) if {'self.sensor', 'self.sensor.timestamps'} & set(_targets(n))]
    top = [n for n in init.body if n in binders]
    if len(top) != len(binders):
        raise TranslateError('%s: self.sensor / self.sensor.timestamps is assigned conditionally or outside the '
                             'top level of __init__ (line %s)' % (cname, [n.lineno for n in binders if n not in top]))
    ctors = [n for n in top if 'self.sensor' in _targets(n)]
    if len(ctors) != 1 or not (isinstance(ctors[0], ast.Assign) and isinstance(ctors[0].value, ast.Call)
                               and _norm(ctors[0].value.func) == 'SensorCache' and len(ctors[0].targets) == 1):
        raise TranslateError('%s.__init__: self.sensor is not built by exactly one SensorCache(...) call' % cname)
    call = ctors[0].value
    kw = dict((k.arg, k.value) for k in call.keywords)
    if len(call.args) < 3 or any(isinstance(a, ast.Starred) for a in call.args) or None in kw:
        raise TranslateError('%s.__init__: SensorCache call of unexpected shape' % cname)
    keep = call.args[3] if len(call.args) > 3 else kw.get('keep')
    if keep is None or _norm(keep) != 'self._time_keep':
        raise TranslateError('%s.__init__: the sensor cache is not given keep=self._time_keep' % cname)
    final, at = call.args[1], init.body.index(ctors[0])
    for n in top:
        if n is ctors[0]:
            continue
        if init.body.index(n) < at or not isinstance(n, ast.Assign) or len(n.targets) != 1:
            raise TranslateError('%s.__init__: unexpected assignment to self.sensor.timestamps (line %d)' % (cname, n.lineno))
        final = n.value
    at = max(init.body.index(n) for n in top)
    selects = [i for i, n in enumerate(init.body) if isinstance(n, ast.Expr) and _norm(n.value).startswith('self.select(')]
    if len(selects) != 1 or selects[0] < at or any(
            isinstance(n, ast.Call) and _norm(n.func) == 'self.select' for m in init.body[:selects[0]] for n in ast.walk(m)):
        raise TranslateError('%s.__init__: the default selection is not applied once, after the sensor cache has its '
                             'final timestamps' % cname)
    return call, final, at, init


def _only_before(cls, cname, names, lineno, allow=()):
    """Every statement of the class that binds or updates one of `names` lies in __init__ before line `lineno`."""
    init = _func(cls, '__init__', cname)
    inside = set(id(n) for n in ast.walk(init))
    for n in ast.walk(cls):
        hit = set(names) & set(_targets(n))
        if hit and _norm(n) not in allow and (id(n) not in inside or n.lineno >= lineno):
            raise TranslateError('%s: %s is rebound or updated after the sensor cache was given it (line %d)'
                                 % (cname, sorted(hit)[0], n.lineno))


def item_c01_sensor_grid(repo, out):
    """Which time array each format leaves in its SensorCache (the grid on which every per-dump sensor, virtual
    sensor and select(timerange=) is evaluated): 0 = the data set's own `timestamps` property read while everything
    is selected, 1 = LazyIndexer over the stored timestamps without the duplicate final dump + linear transform,
    2 = the very array object that the `timestamps` property masks with _time_keep."""
    order = ['t', 'dump', 'off']
    rows = {}
    # v1: self.sensor.timestamps = self.timestamps, with _time_keep all ones at that point
    rel = 'katdal/h5datav1.py'
    cls = _class(_parse(repo, rel), 'H5DataV1', rel)
    call, final, at, init = _grid_statements(cls, 'H5DataV1')
    if _norm(final) != 'self.timestamps':
        raise TranslateError('H5DataV1.__init__: the sensor cache is left with %s' % ast.unparse(final)[:80])
    keeps = [n for n in ast.walk(init) if 'self._time_keep' in _targets(n)]
    if len(keeps) != 1 or keeps[0] not in init.body[:at] or _norm(keeps[0].value) != 'np.ones(num_dumps,dtype=bool)':
        raise TranslateError('H5DataV1.__init__: _time_keep is not all ones when the timestamps are handed over')
    rows['v1'] = (0, '[]')
    # v2: LazyIndexer(self._timestamps, keep=slice(num_dumps), transforms=[extract_time])
    rel = 'katdal/h5datav2.py'
    cls = _class(_parse(repo, rel), 'H5DataV2', rel)
    call, final, at, init = _grid_statements(cls, 'H5DataV2')
    if _norm(final) != 'LazyIndexer(self._timestamps,keep=slice(num_dumps),transforms=[extract_time])':
        raise TranslateError('H5DataV2.__init__: the sensor cache is left with %s' % ast.unparse(final)[:80])
    tops = [_norm(n) for n in init.body[:at]]
    for need in ('dump_period,time_offset=(self.dump_period,self.time_offset)', 'num_dumps=len(self._timestamps)',
                 'num_dumps=num_dumps-1ifnum_dumps>1andself._timestamps[-1]==self._timestamps[-2]elsenum_dumps'):
        if need not in tops:
            raise TranslateError('H5DataV2.__init__: missing %s before the timestamps are handed over' % need)
    for nm, cnt in (('num_dumps', 2), ('dump_period', 1), ('time_offset', 1), ('extract_time', 1)):
        binds = [n for n in ast.walk(init) if isinstance(n, (ast.Assign, ast.AugAssign)) and any(
            isinstance(x, ast.Name) and x.id == nm and isinstance(x.ctx, ast.Store) for x in ast.walk(n))]
        if len(binds) != cnt or any(n not in init.body[:at] for n in binds):
            raise TranslateError('H5DataV2.__init__: %s is bound %d times' % (nm, len(binds)))
    _only_before(cls, 'H5DataV2', ['self._timestamps'], init.body[at].lineno)
    lam = _the_lambda(init, 'extract_time', 'H5DataV2.__init__')
    form = _lin(lam.body, {'t': 't', 'dump_period': 'dump', 'time_offset': 'off'}, 'H5DataV2.__init__ extract_time')
    rows['v2'] = (1, _coq_form(form, order, 'H5DataV2.__init__ extract_time'))
    # v3 / v4: the cache and the timestamps property share one array object
    for ver, rel, cname, arr, names in (
            ('v3', 'katdal/h5datav3.py', 'H5DataV3', 'self._timestamps', ['self._timestamps']),
            ('v4', 'katdal/visdatav4.py', 'VisibilityDataV4', 'source.timestamps',
             ['source.timestamps', 'self.source.timestamps', 'self.source', 'source'])):
        cls = _class(_parse(repo, rel), cname, rel)
        call, final, at, init = _grid_statements(cls, cname)
        if _norm(final) != arr:
            raise TranslateError('%s.__init__: the sensor cache is left with %s' % (cname, ast.unparse(final)[:80]))
        _only_before(cls, cname, names, init.body[at].lineno)
        prop = _func(cls, 'timestamps', rel)
        want = 'returnself.%s[self._time_keep]' % arr.replace('self.', '')
        if [_norm(n) for n in prop.body if not isinstance(n, ast.Expr)] != [want]:
            raise TranslateError('%s.timestamps is not %s' % (cname, want))
        if ver == 'v4' and 'self.source=source' not in [_norm(n) for n in init.body[:at]]:
            raise TranslateError('VisibilityDataV4.__init__: self.source is not the source whose timestamps the cache got')
        rows[ver] = (2, '[]')
    for ver in ('v1', 'v2', 'v3', 'v4'):
        out.append('Definition sensor_grid_%s : Z * list (Z * Z) := (%s, %s).' % (ver, coq_Z(rows[ver][0]), rows[ver][1]))


def _name_binds(init, name):
    return [n for n in ast.walk(init) if isinstance(n, (ast.Assign, ast.AugAssign)) and name in _targets(n)]


def item_c01_construction_grid(repo, out):
    """The time array the sensor cache holds WHILE __init__ partitions the data set into scans (sensors extracted then
    keep that alignment): v1 / v2 the estimate first + dump_period * arange(num_dumps) when the "quick test for uniform
    spacing" |expected_dumps - num_dumps| < threshold passes, else the real timestamps (code 3 + threshold);
    v3 / v4 the final array (code 2)."""
    rows = {}
    est = {'v1': 'data_timestamps=data_timestamps[0]+self.dump_period*np.arange(num_dumps)',
           'v2': 'data_timestamps=self._timestamps[0]+self.dump_period*np.arange(num_dumps)'}
    real = {'v1': 'data_timestamps=data_timestamps[:]', 'v2': 'data_timestamps=self._timestamps[:num_dumps]'}
    for ver, cname in (('v1', 'H5DataV1'), ('v2', 'H5DataV2')):
        rel = 'katdal/h5data%s.py' % ver
        cls = _class(_parse(repo, rel), cname, rel)
        call, final, at, init = _grid_statements(cls, cname)
        if _norm(call.args[1]) != 'data_timestamps':
            raise TranslateError('%s.__init__: SensorCache is built on %s' % (cname, ast.unparse(call.args[1])[:60]))
        ctor_at = [i for i, n in enumerate(init.body) if isinstance(n, ast.Assign) and n.value is call][0]
        ifs = [n for n in init.body[:ctor_at] if isinstance(n, ast.If) and est[ver] in [_norm(m) for m in n.body]]
        if len(ifs) != 1 or len(ifs[0].body) != 1 or not ifs[0].orelse or _norm(ifs[0].orelse[0]) != real[ver]:
            raise TranslateError('%s.__init__: estimated / real timestamps branch not of the expected shape' % cname)
        test = ifs[0].test
        tops = [_norm(n) for n in init.body[:ctor_at]]
        if ver == 'v1':
            need = ['data_timestamps=self.timestamps']
            if not (isinstance(test, ast.Compare) and len(test.ops) == 1 and isinstance(test.ops[0], ast.Lt) and _norm(
                    test.left) == 'abs((data_timestamps[-1]-data_timestamps[0])/self.dump_period+1-num_dumps)'):
                raise TranslateError('H5DataV1.__init__: quick test is %s' % ast.unparse(test)[:80])
            thr = test.comparators[0]
            nbind = 3
        else:
            if _norm(test) != 'notirregularorquicklook':
                raise TranslateError('H5DataV2.__init__: branch test is %s' % ast.unparse(test)[:80])
            irr = [n for n in init.body[:ctor_at] if isinstance(n, ast.Assign) and _targets(n) == ['irregular']]
            if len(irr) != 1 or len(_name_binds(init, 'irregular')) != 1 or not (
                    isinstance(irr[0].value, ast.Compare) and len(irr[0].value.ops) == 1
                    and isinstance(irr[0].value.ops[0], ast.GtE) and _norm(irr[0].value.left) == 'abs(expected_dumps-num_dumps)'):
                raise TranslateError('H5DataV2.__init__: irregular is not abs(expected_dumps - num_dumps) >= threshold')
            thr = irr[0].value.comparators[0]
            need = ['expected_dumps=(self._timestamps[num_dumps-1]-self._timestamps[0])/self.dump_period+1',
                    'data_timestamps+=0.5*self.dump_period+self.time_offset']
            args = _func(cls, '__init__', rel).args
            names = [a.arg for a in args.args]
            dflt = dict(zip(names[len(names) - len(args.defaults):], args.defaults))
            if 'quicklook' not in dflt or _norm(dflt['quicklook']) != 'False':
                raise TranslateError('H5DataV2.__init__: quicklook does not default to False')
            nbind = 3
        for x in need:
            if x not in tops:
                raise TranslateError('%s.__init__: missing %s' % (cname, x))
        if len(_name_binds(init, 'data_timestamps')) != nbind:
            raise TranslateError('%s.__init__: data_timestamps is bound %d times' % (cname, len(_name_binds(init, 'data_timestamps'))))
        if not (isinstance(thr, ast.Constant) and isinstance(thr.value, float)):
            raise TranslateError('%s.__init__: threshold of the quick test is not a literal' % cname)
        f = Fraction(str(thr.value))
        rows[ver] = '(%s, (%s, %s))' % (coq_Z(3), coq_Z(f.numerator), coq_Z(f.denominator))
    for ver, rel, cname, arr in (('v3', 'katdal/h5datav3.py', 'H5DataV3', 'self._timestamps'),
                                 ('v4', 'katdal/visdatav4.py', 'VisibilityDataV4', 'source.timestamps')):
        cls = _class(_parse(repo, rel), cname, rel)
        call, final, at, init = _grid_statements(cls, cname)
        if _norm(call.args[1]) != arr or final is not call.args[1]:
            raise TranslateError('%s.__init__: SensorCache is built on %s' % (cname, ast.unparse(call.args[1])[:60]))
        rows[ver] = '(%s, (%s, %s))' % (coq_Z(2), coq_Z(0), coq_Z(1))
    for ver in ('v1', 'v2', 'v3', 'v4'):
        out.append('Definition construction_grid_%s : Z * (Z * Z) := %s.' % (ver, rows[ver]))


ITEMS = [item_c01_attrs, item_c01_tconv, item_c01_conj, item_c01_weight_names, item_c01_snapshot,
         item_c01_sensor_grid, item_c01_construction_grid]
