"""Translator items for C01: the public attributes recomputed by DataSet.select, the timestamp conversions of the
four formats (as exact linear forms), the conjugation decision of each `vis` property, the weight names of v2 / v3
and the syntactic snapshot discipline of the indexer-producing properties (no closure refers to `self`, mutable
masks are copied).  Everything is fail-closed: an unexpected shape raises TranslateError (broken tie)."""
import ast
from fractions import Fraction

from vh.translate import TranslateError, _parse, _class, _func, _const_eval, _module_assign, coq_string, coq_strings, coq_Z


def _norm(node):
    return ast.unparse(node).replace(' ', '')


# ------------------------------------------------------------------------------------------------ attributes

ATTR_FORMS = {
    # attribute -> (operation, regular form of the right-hand side with {m} = mask attribute)
    'dumps': ('nonzero', 'self.{m}.nonzero()[0]'),
    'channels': ('nonzero', 'self.{m}.nonzero()[0]'),
    'freqs': ('index', 'self.spectral_windows[self.spw].channel_freqs[self.{m}]'),
    'corr_products': ('index', 'self.subarrays[self.subarray].corr_products[self.{m}]'),
}
MASKS = ('_time_keep', '_freq_keep', '_corrprod_keep')


def item_c01_attrs(repo, out):
    rel = 'katdal/dataset.py'
    sel = _func(_class(_parse(repo, rel), 'DataSet', rel), 'select', rel)
    rows = {}
    set_keep = None
    for n in sel.body:
        if isinstance(n, ast.Assign):
            names = [_norm(t) for t in n.targets]
            rhs = _norm(n.value)
            if 'self.shape' in names:
                want = '(' + ','.join('self.%s.sum()' % m for m in MASKS) + ')'
                if rhs != want or len(names) != 1:
                    raise TranslateError('dataset.select: self.shape is %s' % rhs)
                rows['shape'] = ('sum', ','.join(MASKS))
            for attr, (opn, form) in ATTR_FORMS.items():
                if 'self.' + attr in names:
                    hit = [m for m in MASKS if rhs == form.format(m=m)]
                    if len(hit) != 1 or attr in rows:
                        raise TranslateError('dataset.select: self.%s is %s' % (attr, rhs))
                    rows[attr] = (opn, hit[0])
        if isinstance(n, ast.Expr) and _norm(n.value).startswith('self._set_keep('):
            set_keep = _norm(n.value)
    want_call = 'self._set_keep(' + ','.join('self.' + m for m in MASKS + ('_weights_keep', '_flags_keep')) + ')'
    if set_keep != want_call:
        raise TranslateError('dataset.select: _set_keep call is %s' % set_keep)
    order = ['shape', 'dumps', 'channels', 'freqs', 'corr_products']
    if sorted(rows) != sorted(order):
        raise TranslateError('dataset.select: public attributes found: %s' % sorted(rows))
    out.append('Definition ds_attr_table : list (string * (string * string)) := [%s].' % '; '.join(
        '(%s, (%s, %s))' % (coq_string(a), coq_string(rows[a][0]), coq_string(rows[a][1])) for a in order))


# ------------------------------------------------------------------------------------------------ timestamp conversions

def _lin(node, vars_, what):
    """Exact linear form {var: Fraction, 1: Fraction} of an arithmetic expression over the given variable spellings."""
    s = _norm(node)
    if s in vars_:
        return {vars_[s]: Fraction(1)}
    if isinstance(node, ast.Constant) and isinstance(node.value, (int, float)) and not isinstance(node.value, bool):
        return {1: Fraction(node.value)}
    if isinstance(node, ast.Call) and _norm(node.func) == 'np.float64' and len(node.args) == 1 and not node.keywords:
        return _lin(node.args[0], vars_, what)
    if isinstance(node, ast.BinOp):
        a, b = _lin(node.left, vars_, what), _lin(node.right, vars_, what)
        if isinstance(node.op, (ast.Add, ast.Sub)):
            sgn = 1 if isinstance(node.op, ast.Add) else -1
            r = dict(a)
            for k, v in b.items():
                r[k] = r.get(k, Fraction(0)) + sgn * v
            return r
        if isinstance(node.op, ast.Mult):
            for x, y in ((a, b), (b, a)):
                if set(x) <= {1}:
                    return {k: v * x.get(1, Fraction(0)) for k, v in y.items()}
        if isinstance(node.op, ast.Div) and set(b) <= {1} and b.get(1, 0) != 0:
            return {k: v / b[1] for k, v in a.items()}
    raise TranslateError('%s: not an exact linear expression: %s' % (what, ast.unparse(node)[:100]))


def _coq_form(form, order, what):
    if form.get(1, 0) != 0 or not set(form) <= set(order) | {1}:
        raise TranslateError('%s: unexpected terms %s' % (what, sorted(map(str, form))))
    return '[%s]' % '; '.join('(%s, %s)' % (coq_Z(form.get(v, Fraction(0)).numerator),
                                            coq_Z(form.get(v, Fraction(0)).denominator)) for v in order)


def _the_lambda(fn, transform_name, what):
    """The lambda passed as second argument of LazyTransform('<transform_name>', lambda t, keep: ...)."""
    hits = []
    for n in ast.walk(fn):
        if isinstance(n, ast.Call) and _norm(n.func) == 'LazyTransform' and n.args \
                and isinstance(n.args[0], ast.Constant) and n.args[0].value == transform_name:
            if len(n.args) < 2 or not isinstance(n.args[1], ast.Lambda):
                raise TranslateError('%s: %s is not built from a lambda' % (what, transform_name))
            hits.append(n.args[1])
    if len(hits) != 1:
        raise TranslateError('%s: %d LazyTransform(%r)' % (what, len(hits), transform_name))
    lam = hits[0]
    if [a.arg for a in lam.args.args] != ['t', 'keep']:
        raise TranslateError('%s: lambda arguments %s' % (what, [a.arg for a in lam.args.args]))
    return lam


def item_c01_tconv(repo, out):
    order = ['t', 'dump', 'off']
    vars_ = {'t': 't', 'dump_period': 'dump', 'time_offset': 'off'}
    for ver, cls in (('v1', 'H5DataV1'), ('v2', 'H5DataV2')):
        rel = 'katdal/h5data%s.py' % ver
        fn = _func(_class(_parse(repo, rel), cls, rel), 'timestamps', rel)
        srcs = [_norm(n) for n in fn.body]
        if 'dump_period,time_offset=(self.dump_period,self.time_offset)' not in srcs:
            raise TranslateError('%s.timestamps: dump_period / time_offset are not bound from self' % cls)
        lam = _the_lambda(fn, 'extract_time', cls + '.timestamps')
        out.append('Definition tconv_%s : list (Z * Z) := %s.' % (
            ver, _coq_form(_lin(lam.body, vars_, cls + '.timestamps'), order, cls + '.timestamps')))
    # v3: offset_to_middle_of_dump is 0.0 for centroid timestamps, else 0.5 * cbf_dump_period; then
    #     self._timestamps += offset_to_middle_of_dump + self.time_offset
    rel = 'katdal/h5datav3.py'
    init = _func(_class(_parse(repo, rel), 'H5DataV3', rel), '__init__', rel)
    tries = [n for n in init.body if isinstance(n, ast.Try) and 'offset_to_middle_of_dump' in ast.unparse(n)]
    if len(tries) != 1 or len(tries[0].handlers) != 1:
        raise TranslateError('H5DataV3.__init__: offset_to_middle_of_dump try block not found')

    def assigned(stmts, where):
        v = [n.value for n in stmts if isinstance(n, ast.Assign) and _norm(n.targets[0]) == 'offset_to_middle_of_dump']
        if len(v) != 1:
            raise TranslateError('H5DataV3.__init__: offset_to_middle_of_dump assigned %d times in %s' % (len(v), where))
        return v[0]
    t = tries[0]
    if "timestamp_reference" not in ast.unparse(t.body[0]) or not any(
            isinstance(n, ast.Assert) and "ts_ref=='centroid'" in _norm(n.test) for n in t.body):
        raise TranslateError('H5DataV3.__init__: centroid test not of the expected shape')
    if _norm(t.handlers[0].type) != 'KeyError':
        raise TranslateError('H5DataV3.__init__: handler is %s' % _norm(t.handlers[0].type))
    v3vars = {'cbf_dump_period': 'dump', 'self.time_offset': 'off', 't': 't'}
    off_c = _lin(assigned(t.body, 'try'), v3vars, 'v3 centroid offset')
    off_n = _lin(assigned(t.handlers[0].body, 'except'), v3vars, 'v3 offset')
    aug = [n for n in init.body if isinstance(n, ast.AugAssign) and _norm(n.target) == 'self._timestamps'
           and isinstance(n.op, ast.Add)]
    if len(aug) != 1 or _norm(aug[0].value) != 'offset_to_middle_of_dump+self.time_offset':
        raise TranslateError('H5DataV3.__init__: timestamps are not shifted by offset_to_middle_of_dump + self.time_offset')
    for nm, offs in (('centroid', off_c), ('start', off_n)):
        form = {'t': Fraction(1), 'off': Fraction(1)}
        for k, v in offs.items():
            form[k] = form.get(k, Fraction(0)) + v
        out.append('Definition tconv_v3_%s : list (Z * Z) := %s.' % (nm, _coq_form(form, order, 'v3 ' + nm)))
    ts3 = _func(_class(_parse(repo, rel), 'H5DataV3', rel), 'timestamps', rel)
    if [_norm(n) for n in ts3.body if not isinstance(n, ast.Expr)] != ['returnself._timestamps[self._time_keep]']:
        raise TranslateError('H5DataV3.timestamps is not self._timestamps[self._time_keep]')
    rel = 'katdal/visdatav4.py'
    ts4 = _func(_class(_parse(repo, rel), 'VisibilityDataV4', rel), 'timestamps', rel)
    if [_norm(n) for n in ts4.body if not isinstance(n, ast.Expr)] != ['returnself.source.timestamps[self._time_keep]']:
        raise TranslateError('VisibilityDataV4.timestamps is not self.source.timestamps[self._time_keep]')
    out.append('Definition tconv_v4 : list (Z * Z) := %s.' % _coq_form({'t': Fraction(1)}, order, 'v4'))


# ------------------------------------------------------------------------------------------------ conjugation

def _conj(node):
    return '.conjugate()' in _norm(node)


def item_c01_conj(repo, out):
    rel = 'katdal/h5datav1.py'
    fn = _func(_class(_parse(repo, rel), 'H5DataV1', rel), '_vis_indexers', rel)
    inner = [n for n in fn.body if isinstance(n, ast.FunctionDef) and n.name == 'index_corrprod']
    if len(inner) != 1:
        raise TranslateError('H5DataV1._vis_indexers: index_corrprod not found')
    rets = [n for n in ast.walk(inner[0]) if isinstance(n, ast.Return)]
    if len(rets) != 1:
        raise TranslateError('H5DataV1.index_corrprod: %d return statements' % len(rets))
    out.append('Definition vis_conj_v1 : bool := %s.' % ('true' if _conj(rets[0].value) else 'false'))
    rel = 'katdal/h5datav2.py'
    fn = _func(_class(_parse(repo, rel), 'H5DataV2', rel), 'vis', rel)
    lams = [n for n in ast.walk(fn) if isinstance(n, ast.Lambda) and [a.arg for a in n.args.args] == ['vis', 'keep']]
    if len(lams) != 1 or 'vis.view(np.complex64)[...,0]' not in _norm(lams[0].body):
        raise TranslateError('H5DataV2.vis: extract lambda not of the expected shape')
    out.append('Definition vis_conj_v2 : bool := %s.' % ('true' if _conj(lams[0].body) else 'false'))
    rel = 'katdal/h5datav3.py'
    fn = _func(_class(_parse(repo, rel), 'H5DataV3', rel), 'vis', rel)
    ifs = [n for n in fn.body if isinstance(n, ast.If)]
    if len(ifs) != 1 or _norm(ifs[0].test) != 'self.spectral_windows[self.spw].sideband==1':
        raise TranslateError('H5DataV3.vis: sideband test not of the expected shape')

    def branch(stmts):
        defs = [n for n in stmts if isinstance(n, ast.FunctionDef) and n.name == 'convert']
        if len(defs) != 1 or len(stmts) != 1:
            raise TranslateError('H5DataV3.vis: branch does not define convert only')
        rets = [n for n in ast.walk(defs[0]) if isinstance(n, ast.Return)]
        if len(rets) != 1 or 'vis.view(np.complex64)[...,0]' not in _norm(rets[0].value):
            raise TranslateError('H5DataV3.vis: convert not of the expected shape')
        return 'true' if _conj(rets[0].value) else 'false'
    out.append('Definition vis_conj_v3 (upper : bool) : bool := if upper then %s else %s.' % (
        branch(ifs[0].body), branch(ifs[0].orelse)))
    # v4 serves the stored visibilities (applycal aside): `vis` returns the cached indexer over self._corrected.vis
    rel = 'katdal/visdatav4.py'
    cls = _class(_parse(repo, rel), 'VisibilityDataV4', rel)
    sk = _func(cls, '_set_keep', rel)
    srcs = [_norm(n) for n in sk.body]
    for need in ('stage1=(self._time_keep,self._freq_keep,self._corrprod_keep)',
                 'self._vis=DaskLazyIndexer(self._corrected.vis,stage1)',
                 'self._weights=DaskLazyIndexer(self._corrected.weights,stage1)',
                 'self._raw_flags=DaskLazyIndexer(self._corrected.flags,stage1)',
                 'self._flags=DaskLazyIndexer(self._raw_flags,transforms=flag_transforms)'):
        if need not in srcs:
            raise TranslateError('VisibilityDataV4._set_keep: missing %s' % need)
    out.append('Definition vis_conj_v4 : bool := false.')


def item_c01_weight_names(repo, out):
    for ver in ('v2', 'v3'):
        rel = 'katdal/h5data%s.py' % ver
        names = _const_eval(_module_assign(_parse(repo, rel), 'WEIGHT_NAMES', rel), {}, ver + ' WEIGHT_NAMES')
        if not (isinstance(names, tuple) and all(isinstance(s, str) for s in names)):
            raise TranslateError('%s: WEIGHT_NAMES is not a tuple of strings' % rel)
        out.append('Definition weight_names_%s : list string := %s.' % (ver, coq_strings(names)))


# ------------------------------------------------------------------------------------------------ snapshot discipline

def _closures(fn):
    """Nested function definitions and lambdas of a method."""
    res = []
    for n in ast.walk(fn):
        if n is not fn and isinstance(n, (ast.FunctionDef, ast.Lambda)):
            res.append(n)
    return res


def _mentions_self(node):
    return any(isinstance(n, ast.Name) and n.id == 'self' for n in ast.walk(node))


def item_c01_snapshot(repo, out):
    rows = []
    sites = [('katdal/h5datav1.py', 'H5DataV1', ['timestamps', '_vis_indexers', 'vis', 'weights', 'flags']),
             ('katdal/h5datav2.py', 'H5DataV2', ['timestamps', '_vislike_indexer', 'vis', 'weights', 'flags']),
             ('katdal/h5datav3.py', 'H5DataV3', ['_vislike_indexer', 'vis', 'weights', 'flags']),
             ('katdal/visdatav4.py', 'VisibilityDataV4', ['_set_keep'])]
    for rel, cls, methods in sites:
        c = _class(_parse(repo, rel), cls, rel)
        for m in methods:
            fn = _func(c, m, rel)
            ok = not any(_mentions_self(cl) for cl in _closures(fn))
            rows.append('(%s, %s)' % (coq_string('%s.%s' % (cls, m)), 'true' if ok else 'false'))
    out.append('Definition snapshot_closures_free_of_self : list (string * bool) := [%s].' % '; '.join(rows))
    # mutable state captured by value
    copies = []
    rel = 'katdal/h5datav1.py'
    fn = _func(_class(_parse(repo, rel), 'H5DataV1', rel), '_vis_indexers', rel)
    copies.append(('H5DataV1.corrprod_keep', 'corrprod_keep=self._corrprod_keep.copy()' in [_norm(n) for n in fn.body]))
    rel = 'katdal/visdatav4.py'
    sk = _func(_class(_parse(repo, rel), 'VisibilityDataV4', rel), '_set_keep', rel)
    copies.append(('VisibilityDataV4.flags_select', any('select=self._flags_select.copy()' == _norm(n)
                                                        for n in ast.walk(sk) if isinstance(n, ast.Assign))))
    rel = 'katdal/lazy_indexer.py'
    init = _func(_class(_parse(repo, rel), 'DaskLazyIndexer', rel), '__init__', rel)
    copies.append(('DaskLazyIndexer.keep', 'self.keep=copy.deepcopy(keep)' in [_norm(n) for n in init.body]))
    # LazyIndexer turns a full-length boolean mask into fresh integer positions (np.nonzero) or None
    init = _func(_class(_parse(repo, rel), 'LazyIndexer', rel), '__init__', rel)
    copies.append(('LazyIndexer.lookup', 'dim_keep=np.nonzero(dim_keep)[0]ifnotdim_keep.all()elseNone'
                   in [_norm(n) for n in ast.walk(init) if isinstance(n, ast.Assign)]))
    out.append('Definition snapshot_copies : list (string * bool) := [%s].' % '; '.join(
        '(%s, %s)' % (coq_string(a), 'true' if b else 'false') for a, b in copies))
    # the duplicate final dump is ignored by padding the time mask with False (v2 timestamps + vis-like, v3 vis-like)
    pads = []
    for rel, cls, m, ds in (('katdal/h5datav2.py', 'H5DataV2', 'timestamps', 'self._timestamps'),
                            ('katdal/h5datav2.py', 'H5DataV2', '_vislike_indexer', 'dataset'),
                            ('katdal/h5datav3.py', 'H5DataV3', '_vislike_indexer', 'dataset')):
        fn = _func(_class(_parse(repo, rel), cls, rel), m, rel)
        ifs = [n for n in fn.body if isinstance(n, ast.If) and _norm(n.test) == 'len(time_keep)==len(%s)-1' % ds]
        ok = len(ifs) == 1 and [_norm(n) for n in ifs[0].body] == [
            'time_keep=np.zeros(len(%s),dtype=bool)' % ds, 'time_keep[:len(self._time_keep)]=self._time_keep'] \
            and not ifs[0].orelse
        pads.append('(%s, %s)' % (coq_string('%s.%s' % (cls, m)), 'true' if ok else 'false'))
    out.append('Definition dup_final_dump_padded : list (string * bool) := [%s].' % '; '.join(pads))


# ------------------------------------------------------------------------------------------------ sensor cache grid

def _targets(node):
    if isinstance(node, ast.Assign):
        return [_norm(t) for t in node.targets]
    if isinstance(node, (ast.AugAssign, ast.AnnAssign)):
        return [_norm(node.target)]
    return []


def _grid_statements(cls, cname):
    """(constructor call, final time-array expression, index of the deciding statement in __init__.body, __init__).

    The deciding statement is the LAST of: `self.sensor = SensorCache(cache, <timestamps>, ...)` and any later
    `self.sensor.timestamps = <expr>`; all of them must be unconditional top-level statements of __init__, nothing
    else in the class may rebind `self.sensor` or `self.sensor.timestamps`, the cache must be given
    keep=self._time_keep and the default selection (`self.select(...)`) must come after the deciding statement."""
    rel = cname
    init = _func(cls, '__init__', rel)
    binders = [n for n in ast.walk(cls) if {'self.sensor', 'self.sensor.timestamps'} & set(_targets(n))]
    top = [n for n in init.body if n in binders]
    if len(top) != len(binders):
        raise TranslateError('%s: self.sensor / self.sensor.timestamps is assigned conditionally or outside the '
                             'top level of __init__ (line %s)' % (cname, [n.lineno for n in binders if n not in top]))
    ctors = [n for n in top if 'self.sensor' in _targets(n)]
    if len(ctors) != 1 or not (isinstance(ctors[0], ast.Assign) and isinstance(ctors[0].value, ast.Call)
                               and _norm(ctors[0].value.func) == 'SensorCache' and len(ctors[0].targets) == 1):
        raise TranslateError('%s.__init__: self.sensor is not built by exactly one SensorCache(...) call' % cname)
    call = ctors[0].value
    kw = dict((k.arg, k.value) for k in call.keywords)
    if len(call.args) < 3 or any(isinstance(a, ast.Starred) for a in call.args) or None in kw:
        raise TranslateError('%s.__init__: SensorCache call of unexpected shape' % cname)
    keep = call.args[3] if len(call.args) > 3 else kw.get('keep')
    if keep is None or _norm(keep) != 'self._time_keep':
        raise TranslateError('%s.__init__: the sensor cache is not given keep=self._time_keep' % cname)
    final, at = call.args[1], init.body.index(ctors[0])
    for n in top:
        if n is ctors[0]:
            continue
        if init.body.index(n) < at or not isinstance(n, ast.Assign) or len(n.targets) != 1:
            raise TranslateError('%s.__init__: unexpected assignment to self.sensor.timestamps (line %d)' % (cname, n.lineno))
        final = n.value
    at = max(init.body.index(n) for n in top)
    selects = [i for i, n in enumerate(init.body) if isinstance(n, ast.Expr) and _norm(n.value).startswith('self.select(')]
    if len(selects) != 1 or selects[0] < at or any(
            isinstance(n, ast.Call) and _norm(n.func) == 'self.select' for m in init.body[:selects[0]] for n in ast.walk(m)):
        raise TranslateError('%s.__init__: the default selection is not applied once, after the sensor cache has its '
                             'final timestamps' % cname)
    return call, final, at, init


def _only_before(cls, cname, names, lineno, allow=()):
    """Every statement of the class that binds or updates one of `names` lies in __init__ before line `lineno`."""
    init = _func(cls, '__init__', cname)
    inside = set(id(n) for n in ast.walk(init))
    for n in ast.walk(cls):
        hit = set(names) & set(_targets(n))
        if hit and _norm(n) not in allow and (id(n) not in inside or n.lineno >= lineno):
            raise TranslateError('%s: %s is rebound or updated after the sensor cache was given it (line %d)'
                                 % (cname, sorted(hit)[0], n.lineno))


def item_c01_sensor_grid(repo, out):
    """Which time array each format leaves in its SensorCache (the grid on which every per-dump sensor, virtual
    sensor and select(timerange=) is evaluated): 0 = the data set's own `timestamps` property read while everything
    is selected, 1 = LazyIndexer over the stored timestamps without the duplicate final dump + linear transform,
    2 = the very array object that the `timestamps` property masks with _time_keep."""
    order = ['t', 'dump', 'off']
    rows = {}
    # v1: self.sensor.timestamps = self.timestamps, with _time_keep all ones at that point
    rel = 'katdal/h5datav1.py'
    cls = _class(_parse(repo, rel), 'H5DataV1', rel)
    call, final, at, init = _grid_statements(cls, 'H5DataV1')
    if _norm(final) != 'self.timestamps':
        raise TranslateError('H5DataV1.__init__: the sensor cache is left with %s' % ast.unparse(final)[:80])
    keeps = [n for n in ast.walk(init) if 'self._time_keep' in _targets(n)]
    if len(keeps) != 1 or keeps[0] not in init.body[:at] or _norm(keeps[0].value) != 'np.ones(num_dumps,dtype=bool)':
        raise TranslateError('H5DataV1.__init__: _time_keep is not all ones when the timestamps are handed over')
    rows['v1'] = (0, '[]')
    # v2: LazyIndexer(self._timestamps, keep=slice(num_dumps), transforms=[extract_time])
    rel = 'katdal/h5datav2.py'
    cls = _class(_parse(repo, rel), 'H5DataV2', rel)
    call, final, at, init = _grid_statements(cls, 'H5DataV2')
    if _norm(final) != 'LazyIndexer(self._timestamps,keep=slice(num_dumps),transforms=[extract_time])':
        raise TranslateError('H5DataV2.__init__: the sensor cache is left with %s' % ast.unparse(final)[:80])
    tops = [_norm(n) for n in init.body[:at]]
    for need in ('dump_period,time_offset=(self.dump_period,self.time_offset)', 'num_dumps=len(self._timestamps)',
                 'num_dumps=num_dumps-1ifnum_dumps>1andself._timestamps[-1]==self._timestamps[-2]elsenum_dumps'):
        if need not in tops:
            raise TranslateError('H5DataV2.__init__: missing %s before the timestamps are handed over' % need)
    for nm, cnt in (('num_dumps', 2), ('dump_period', 1), ('time_offset', 1), ('extract_time', 1)):
        binds = [n for n in ast.walk(init) if isinstance(n, (ast.Assign, ast.AugAssign)) and any(
            isinstance(x, ast.Name) and x.id == nm and isinstance(x.ctx, ast.Store) for x in ast.walk(n))]
        if len(binds) != cnt or any(n not in init.body[:at] for n in binds):
            raise TranslateError('H5DataV2.__init__: %s is bound %d times' % (nm, len(binds)))
    _only_before(cls, 'H5DataV2', ['self._timestamps'], init.body[at].lineno)
    lam = _the_lambda(init, 'extract_time', 'H5DataV2.__init__')
    form = _lin(lam.body, {'t': 't', 'dump_period': 'dump', 'time_offset': 'off'}, 'H5DataV2.__init__ extract_time')
    rows['v2'] = (1, _coq_form(form, order, 'H5DataV2.__init__ extract_time'))
    # v3 / v4: the cache and the timestamps property share one array object
    for ver, rel, cname, arr, names in (
            ('v3', 'katdal/h5datav3.py', 'H5DataV3', 'self._timestamps', ['self._timestamps']),
            ('v4', 'katdal/visdatav4.py', 'VisibilityDataV4', 'source.timestamps',
             ['source.timestamps', 'self.source.timestamps', 'self.source', 'source'])):
        cls = _class(_parse(repo, rel), cname, rel)
        call, final, at, init = _grid_statements(cls, cname)
        if _norm(final) != arr:
            raise TranslateError('%s.__init__: the sensor cache is left with %s' % (cname, ast.unparse(final)[:80]))
        _only_before(cls, cname, names, init.body[at].lineno)
        prop = _func(cls, 'timestamps', rel)
        want = 'returnself.%s[self._time_keep]' % arr.replace('self.', '')
        if [_norm(n) for n in prop.body if not isinstance(n, ast.Expr)] != [want]:
            raise TranslateError('%s.timestamps is not %s' % (cname, want))
        if ver == 'v4' and 'self.source=source' not in [_norm(n) for n in init.body[:at]]:
            raise TranslateError('VisibilityDataV4.__init__: self.source is not the source whose timestamps the cache got')
        rows[ver] = (2, '[]')
    for ver in ('v1', 'v2', 'v3', 'v4'):
        out.append('Definition sensor_grid_%s : Z * list (Z * Z) := (%s, %s).' % (ver, coq_Z(rows[ver][0]), rows[ver][1]))


def _name_binds(init, name):
    return [n for n in ast.walk(init) if isinstance(n, (ast.Assign, ast.AugAssign)) and name in _targets(n)]


def item_c01_construction_grid(repo, out):
    """The time array the sensor cache holds WHILE __init__ partitions the data set into scans (sensors extracted then
    keep that alignment): v1 / v2 the estimate first + dump_period * arange(num_dumps) when the "quick test for uniform
    spacing" |expected_dumps - num_dumps| < threshold passes, else the real timestamps (code 3 + threshold);
    v3 / v4 the final array (code 2)."""
    rows = {}
    est = {'v1': 'data_timestamps=data_timestamps[0]+self.dump_period*np.arange(num_dumps)',
           'v2': 'data_timestamps=self._timestamps[0]+self.dump_period*np.arange(num_dumps)'}
    real = {'v1': 'data_timestamps=data_timestamps[:]', 'v2': 'data_timestamps=self._timestamps[:num_dumps]'}
    for ver, cname in (('v1', 'H5DataV1'), ('v2', 'H5DataV2')):
        rel = 'katdal/h5data%s.py' % ver
        cls = _class(_parse(repo, rel), cname, rel)
        call, final, at, init = _grid_statements(cls, cname)
        if _norm(call.args[1]) != 'data_timestamps':
            raise TranslateError('%s.__init__: SensorCache is built on %s' % (cname, ast.unparse(call.args[1])[:60]))
        ctor_at = [i for i, n in enumerate(init.body) if isinstance(n, ast.Assign) and n.value is call][0]
        ifs = [n for n in init.body[:ctor_at] if isinstance(n, ast.If) and est[ver] in [_norm(m) for m in n.body]]
        if len(ifs) != 1 or len(ifs[0].body) != 1 or not ifs[0].orelse or _norm(ifs[0].orelse[0]) != real[ver]:
            raise TranslateError('%s.__init__: estimated / real timestamps branch not of the expected shape' % cname)
        test = ifs[0].test
        tops = [_norm(n) for n in init.body[:ctor_at]]
        if ver == 'v1':
            need = ['data_timestamps=self.timestamps']
            if not (isinstance(test, ast.Compare) and len(test.ops) == 1 and isinstance(test.ops[0], ast.Lt) and _norm(
                    test.left) == 'abs((data_timestamps[-1]-data_timestamps[0])/self.dump_period+1-num_dumps)'):
                raise TranslateError('H5DataV1.__init__: quick test is %s' % ast.unparse(test)[:80])
            thr = test.comparators[0]
            nbind = 3
        else:
            if _norm(test) != 'notirregularorquicklook':
                raise TranslateError('H5DataV2.__init__: branch test is %s' % ast.unparse(test)[:80])
            irr = [n for n in init.body[:ctor_at] if isinstance(n, ast.Assign) and _targets(n) == ['irregular']]
            if len(irr) != 1 or len(_name_binds(init, 'irregular')) != 1 or not (
                    isinstance(irr[0].value, ast.Compare) and len(irr[0].value.ops) == 1
                    and isinstance(irr[0].value.ops[0], ast.GtE) and _norm(irr[0].value.left) == 'abs(expected_dumps-num_dumps)'):
                raise TranslateError('H5DataV2.__init__: irregular is not abs(expected_dumps - num_dumps) >= threshold')
            thr = irr[0].value.comparators[0]
            need = ['expected_dumps=(self._timestamps[num_dumps-1]-self._timestamps[0])/self.dump_period+1',
                    'data_timestamps+=0.5*self.dump_period+self.time_offset']
            args = _func(cls, '__init__', rel).args
            names = [a.arg for a in args.args]
            dflt = dict(zip(names[len(names) - len(args.defaults):], args.defaults))
            if 'quicklook' not in dflt or _norm(dflt['quicklook']) != 'False':
                raise TranslateError('H5DataV2.__init__: quicklook does not default to False')
            nbind = 3
        for x in need:
            if x not in tops:
                raise TranslateError('%s.__init__: missing %s' % (cname, x))
        if len(_name_binds(init, 'data_timestamps')) != nbind:
            raise TranslateError('%s.__init__: data_timestamps is bound %d times' % (cname, len(_name_binds(init, 'data_timestamps'))))
        if not (isinstance(thr, ast.Constant) and isinstance(thr.value, float)):
            raise TranslateError('%s.__init__: threshold of the quick test is not a literal' % cname)
        f = Fraction(str(thr.value))
        rows[ver] = '(%s, (%s, %s))' % (coq_Z(3), coq_Z(f.numerator), coq_Z(f.denominator))
    for ver, rel, cname, arr in (('v3', 'katdal/h5datav3.py', 'H5DataV3', 'self._timestamps'),
                                 ('v4', 'katdal/visdatav4.py', 'VisibilityDataV4', 'source.timestamps')):
        cls = _class(_parse(repo, rel), cname, rel)
        call, final, at, init = _grid_statements(cls, cname)
        if _norm(call.args[1]) != arr or final is not call.args[1]:
            raise TranslateError('%s.__init__: SensorCache is built on %s' % (cname, ast.unparse(call.args[1])[:60]))
        rows[ver] = '(%s, (%s, %s))' % (coq_Z(2), coq_Z(0), coq_Z(1))
    for ver in ('v1', 'v2', 'v3', 'v4'):
        out.append('Definition construction_grid_%s : Z * (Z * Z) := %s.' % (ver, rows[ver]))


# ------------------------------------------------------------------------------------------------ frequency axes (v1-v3)

def _binds_of(init, name):
    """All statements anywhere in the function that (re)bind the plain name."""
    hits = []
    for n in ast.walk(init):
        if isinstance(n, ast.Assign) and any(isinstance(t, ast.Name) and t.id == name for t in n.targets):
            hits.append(n)
        if isinstance(n, ast.AugAssign) and isinstance(n.target, ast.Name) and n.target.id == name:
            hits.append(n)
        if isinstance(n, (ast.For, ast.comprehension)) and isinstance(n.target, ast.Name) and n.target.id == name:
            hits.append(n)
    return hits


def _sole_top(init, name, what):
    """The only binding of `name` in the function, which must be an unconditional top-level `name = <expr>`."""
    hits = _binds_of(init, name)
    if len(hits) != 1 or not isinstance(hits[0], ast.Assign) or hits[0] not in init.body or len(hits[0].targets) != 1:
        raise TranslateError('%s: %s is bound %d times / conditionally' % (what, name, len(hits)))
    return hits[0]


def _signed_int(node, what):
    if isinstance(node, ast.UnaryOp) and isinstance(node.op, ast.USub):
        return -_signed_int(node.operand, what)
    if isinstance(node, ast.Constant) and isinstance(node.value, int) and not isinstance(node.value, bool):
        return node.value
    raise TranslateError('%s: not an integer literal: %s' % (what, ast.unparse(node)))


def _exact_int(node, what):
    """A numeric literal (int or float) with an integral value."""
    if isinstance(node, ast.Constant) and isinstance(node.value, (int, float)) and not isinstance(node.value, bool):
        f = Fraction(node.value)
        if f.denominator == 1:
            return int(f)
    raise TranslateError('%s: not an integral literal: %s' % (what, ast.unparse(node)))


def _spw_call(node, what):
    """SpectralWindow(centre, width, num_chans, product[, sideband[, band]]) -> dict parameter -> node."""
    if not (isinstance(node, ast.Call) and _norm(node.func) == 'SpectralWindow'):
        raise TranslateError('%s: not a SpectralWindow(...) call: %s' % (what, ast.unparse(node)[:80]))
    params = ['centre_freq', 'channel_width', 'num_chans', 'product', 'sideband', 'band', 'bandwidth']
    if any(isinstance(a, ast.Starred) for a in node.args) or any(k.arg is None for k in node.keywords):
        raise TranslateError('%s: starred arguments' % what)
    b = dict(zip(params, node.args))
    for k in node.keywords:
        if k.arg in b or k.arg not in params:
            raise TranslateError('%s: keyword %s' % (what, k.arg))
        b[k.arg] = k.value
    return b


def item_c01_freq_axes(repo, out):
    """The frequency axis each HDF5 reader builds: which stored attribute feeds which SpectralWindow parameter, the
    channel-width expression, the sideband (SpectralWindow's default when none is passed; v3: receiver table + the
    "fake UHF" rule), the KAT-7 LO offset of old v2 files, and the order of the v3 centre-frequency overrides."""
    from vh.items.c17 import tx, _coerce, OPS
    rel = 'katdal/spectral_window.py'
    init = _func(_class(_parse(repo, rel), 'SpectralWindow', rel), '__init__', rel)
    names = [a.arg for a in init.args.args]
    if names != ['self', 'centre_freq', 'channel_width', 'num_chans', 'product', 'sideband', 'band', 'bandwidth']:
        raise TranslateError('SpectralWindow.__init__: parameters are %s' % names)
    dflt = dict(zip(names[len(names) - len(init.args.defaults):], init.args.defaults))
    if 'sideband' not in dflt:
        raise TranslateError('SpectralWindow.__init__: sideband has no default')
    sb = _signed_int(dflt['sideband'], 'SpectralWindow.__init__ sideband default')
    if sb not in (1, -1):
        raise TranslateError('SpectralWindow.__init__: default sideband is %d' % sb)
    out.append('Definition gen_spw_default_sideband : Z := %s.' % coq_Z(sb))

    def attr_key(node, holder, what):
        if not (isinstance(node, ast.Subscript) and _norm(node.value) == holder and isinstance(node.slice, ast.Constant)
                and isinstance(node.slice.value, str)):
            raise TranslateError('%s: is %s' % (what, ast.unparse(node)[:80]))
        return node.slice.value

    # ---- v1
    rel = 'katdal/h5datav1.py'
    init = _func(_class(_parse(repo, rel), 'H5DataV1', rel), '__init__', rel)
    keys = []
    for nm in ('centre_freq', 'channel_width', 'num_chans'):
        keys.append((nm, attr_key(_sole_top(init, nm, 'H5DataV1.__init__').value, 'corr_group.attrs', 'H5DataV1 ' + nm)))
    sws = [n for n in ast.walk(init) if isinstance(n, ast.Assign) and 'self.spectral_windows' in [_norm(t) for t in n.targets]]
    if len(sws) != 1 or sws[0] not in init.body or not isinstance(sws[0].value, ast.List) or len(sws[0].value.elts) != 1:
        raise TranslateError('H5DataV1.__init__: self.spectral_windows is not one unconditional single-window list')
    b = _spw_call(sws[0].value.elts[0], 'H5DataV1 spectral window')
    if [_norm(b.get(k)) if k in b else None for k in ('centre_freq', 'channel_width', 'num_chans')] != \
            ['centre_freq', 'channel_width', 'num_chans'] or 'bandwidth' in b:
        raise TranslateError('H5DataV1: SpectralWindow arguments are %s' % sorted((k, _norm(v)) for k, v in b.items()))
    sb1 = 'None' if 'sideband' not in b else 'Some %s' % coq_Z(_signed_int(b['sideband'], 'H5DataV1 sideband'))
    guard = [n for n in init.body if isinstance(n, ast.If) and _norm(n.test) == 'num_chans!=data_num_chans'
             and len(n.body) == 1 and isinstance(n.body[0], ast.Raise) and not n.orelse]
    if len(guard) != 1:
        raise TranslateError('H5DataV1.__init__: the channel-count guard is missing')
    out.append('Definition gen_v1_freq_attrs : list (string * string) := [%s].' % '; '.join(
        '(%s, %s)' % (coq_string(a), coq_string(k)) for a, k in keys))
    out.append('Definition gen_v1_sideband : option Z := %s.' % sb1)

    # ---- v2
    rel = 'katdal/h5datav2.py'
    init = _func(_class(_parse(repo, rel), 'H5DataV2', rel), '__init__', rel)
    keys = []
    for nm in ('num_chans', 'bandwidth'):
        v = _sole_top(init, nm, 'H5DataV2.__init__').value
        if not (isinstance(v, ast.Call) and _norm(v.func) == 'get_single_value' and len(v.args) == 2 and not v.keywords
                and _norm(v.args[0]) == "config_group['Correlator']" and isinstance(v.args[1], ast.Constant)):
            raise TranslateError('H5DataV2.__init__: %s is %s' % (nm, ast.unparse(v)[:80]))
        keys.append((nm, v.args[1].value))
    cw = _sole_top(init, 'channel_width', 'H5DataV2.__init__')
    env = {'bandwidth': ('Q', 'bandwidth'), 'num_chans': ('Z', 'num_chans')}
    cw_code = _coerce(tx(cw.value, env, 'v2 channel_width'), 'Q', 'v2 channel_width')
    cf = _binds_of(init, 'centre_freq')
    branch = [n for n in init.body if isinstance(n, ast.If) and cf and cf[0] in n.body]
    if len(cf) != 2 or len(branch) != 1 or cf[1] not in branch[0].orelse:
        raise TranslateError('H5DataV2.__init__: centre_freq is not bound once in each branch of one test')
    test = branch[0].test
    if not (isinstance(test, ast.Compare) and _norm(test.left) == 'self.version' and len(test.ops) == 1
            and isinstance(test.ops[0], ast.GtE) and isinstance(test.comparators[0], ast.Constant)
            and isinstance(test.comparators[0].value, str)):
        raise TranslateError('H5DataV2.__init__: centre_freq branch test is %s' % ast.unparse(test))
    sens = []
    for n in cf:
        v = n.value
        if not (isinstance(v, ast.Call) and _norm(v.func) == 'self.sensor.get' and len(v.args) == 1 and not v.keywords
                and isinstance(v.args[0], ast.Constant)):
            raise TranslateError('H5DataV2.__init__: centre_freq is %s' % ast.unparse(v)[:80])
        sens.append(v.args[0].value)
    if [_norm(x) for x in branch[0].body] != [_norm(cf[0])] or len(branch[0].orelse) != 2:
        raise TranslateError('H5DataV2.__init__: centre_freq branches have extra statements')
    lo = branch[0].orelse[1]
    if not (isinstance(lo, ast.Assign) and _norm(lo.targets[0]) == 'centre_freq.unique_values'
            and isinstance(lo.value, ast.ListComp) and len(lo.value.generators) == 1
            and _norm(lo.value.generators[0].iter) == 'centre_freq.unique_values' and not lo.value.generators[0].ifs
            and isinstance(lo.value.generators[0].target, ast.Name)):
        raise TranslateError('H5DataV2.__init__: LO correction is %s' % ast.unparse(lo)[:100])
    others = [n for n in ast.walk(init) if isinstance(n, (ast.Assign, ast.AugAssign))
              and any('centre_freq.unique_values' == _norm(t) for t in (n.targets if isinstance(n, ast.Assign) else [n.target]))]
    if others != [lo]:
        raise TranslateError('H5DataV2.__init__: centre_freq.unique_values is modified elsewhere')
    var = lo.value.generators[0].target.id
    lo_code = _coerce(tx(lo.value.elt, {var: ('Q', 'freq')}, 'v2 LO correction'), 'Q', 'v2 LO correction')
    sws = [n for n in ast.walk(init) if isinstance(n, ast.Assign) and 'self.spectral_windows' in [_norm(t) for t in n.targets]]
    if len(sws) != 1 or sws[0] not in init.body or not isinstance(sws[0].value, ast.ListComp):
        raise TranslateError('H5DataV2.__init__: self.spectral_windows is not one unconditional comprehension')
    comp = sws[0].value
    if len(comp.generators) != 1 or comp.generators[0].ifs or _norm(comp.generators[0].iter) != 'centre_freq.unique_values' \
            or not isinstance(comp.generators[0].target, ast.Name):
        raise TranslateError('H5DataV2.__init__: spectral windows are not one per centre_freq.unique_values')
    b = _spw_call(comp.elt, 'H5DataV2 spectral window')
    if [_norm(b.get(k)) if k in b else None for k in ('centre_freq', 'channel_width', 'num_chans')] != \
            [comp.generators[0].target.id, 'channel_width', 'num_chans'] or 'bandwidth' in b:
        raise TranslateError('H5DataV2: SpectralWindow arguments are %s' % sorted((k, _norm(v)) for k, v in b.items()))
    sb2 = 'None' if 'sideband' not in b else 'Some %s' % coq_Z(_signed_int(b['sideband'], 'H5DataV2 sideband'))
    order = [init.body.index(branch[0]), init.body.index(cw), init.body.index(sws[0])]
    if order != sorted(order):
        raise TranslateError('H5DataV2.__init__: frequency statements out of order')
    out.append('Definition gen_v2_freq_attrs : list (string * string) := [%s].' % '; '.join(
        '(%s, %s)' % (coq_string(a), coq_string(k)) for a, k in keys))
    out.append('Definition gen_v2_centre_sensors : string * (string * string) := (%s, (%s, %s)).' % (
        coq_string(test.comparators[0].value), coq_string(sens[0]), coq_string(sens[1])))
    out.append('Definition gen_v2_channel_width %s (bandwidth : A) (num_chans : Z) : A := %s.' % (OPS, cw_code))
    out.append('Definition gen_v2_lo_correction %s (freq : A) : A := %s.' % (OPS, lo_code))
    out.append('Definition gen_v2_sideband : option Z := %s.' % sb2)

    # ---- v3: a dict of SpectralWindow parameters updated statement by statement
    rel = 'katdal/h5datav3.py'
    init = _func(_class(_parse(repo, rel), 'H5DataV3', rel), '__init__', rel)
    body = init.body
    tops = [_norm(n) for n in body]

    def at(pred, what):
        hits = [i for i, n in enumerate(body) if pred(n, tops[i])]
        if len(hits) != 1:
            raise TranslateError('H5DataV3.__init__: %d statements for %s' % (len(hits), what))
        return hits[0]
    i_tab = at(lambda n, t: t.startswith('rx_table='), 'rx_table')
    tab = body[i_tab].value
    if not isinstance(tab, ast.Dict):
        raise TranslateError('H5DataV3.__init__: rx_table is not a dict literal')

    def row(node, what):
        if not (isinstance(node, ast.Call) and _norm(node.func) == 'dict' and not node.args):
            raise TranslateError('H5DataV3.__init__: %s is %s' % (what, ast.unparse(node)[:80]))
        kw = dict((k.arg, k.value) for k in node.keywords)
        if not set(kw) <= {'band', 'centre_freq', 'sideband'} or 'band' not in kw or 'sideband' not in kw \
                or not isinstance(kw['band'], ast.Constant):
            raise TranslateError('H5DataV3.__init__: %s has keys %s' % (what, sorted(kw)))
        cf_ = 'None' if 'centre_freq' not in kw else 'Some %s' % coq_Z(_exact_int(kw['centre_freq'], what))
        return '(%s, (%s, %s))' % (coq_string(kw['band'].value), cf_, coq_Z(_signed_int(kw['sideband'], what)))
    rows = []
    for k, v in zip(tab.keys, tab.values):
        if not (isinstance(k, ast.Constant) and isinstance(k.value, str)):
            raise TranslateError('H5DataV3.__init__: rx_table key %s' % ast.unparse(k))
        rows.append('(%s, %s)' % (coq_string(k.value), row(v, 'rx_table[%r]' % k.value)))
    i_get = at(lambda n, t: t.startswith('spw_params=rx_table.get(band,'), 'spw_params = rx_table.get(band, ...)')
    g = body[i_get].value
    if len(g.args) != 2 or g.keywords:
        raise TranslateError('H5DataV3.__init__: rx_table.get arguments')
    dflt_row = row(g.args[1], 'rx_table default')
    i_n = at(lambda n, t: t == "num_chans=self._get_l0_attr('n_chans',cbf_group,sdp_group)", 'num_chans')
    i_bw = at(lambda n, t: t == "bandwidth=self._get_l0_attr('bandwidth',cbf_group,sdp_group)", 'bandwidth')
    i_bug = at(lambda n, t: isinstance(n, ast.If) and t.startswith('ifbandwidth=='), 'the bandwidth workaround')
    bug = body[i_bug]
    if not (len(bug.test.ops) == 1 and isinstance(bug.test.ops[0], ast.Eq) and not bug.orelse
            and [x for x in bug.body if not isinstance(x, ast.Expr)] and
            [_norm(x).split('=')[0] for x in bug.body if isinstance(x, ast.Assign)] == ['bandwidth']):
        raise TranslateError('H5DataV3.__init__: bandwidth workaround not as expected')
    bug_from = _exact_int(bug.test.comparators[0], 'bandwidth workaround')
    bug_to = _exact_int([x for x in bug.body if isinstance(x, ast.Assign)][0].value, 'bandwidth workaround')
    i_rx = at(lambda n, t: isinstance(n, ast.If) and t.startswith("ifspw_params['band']=="), 'the receiver special cases')
    rx = body[i_rx]
    if not (len(rx.orelse) == 1 and isinstance(rx.orelse[0], ast.If) and not rx.orelse[0].orelse
            and isinstance(rx.test.comparators[0], ast.Constant)):
        raise TranslateError('H5DataV3.__init__: receiver special cases are not if / elif')
    ku_band = rx.test.comparators[0].value
    ku_set = [x for x in ast.walk(rx) if isinstance(x, ast.Assign) and _norm(x.targets[0]) == "spw_params['centre_freq']"
              and x not in rx.orelse[0].body]
    if len(ku_set) != 1:
        raise TranslateError('H5DataV3.__init__: Ku branch')
    ku_code = _coerce(tx(ku_set[0].value, {'siggen_freq': ('Q', 'siggen_freq')}, 'v3 Ku centre'), 'Q', 'v3 Ku centre')
    fk = rx.orelse[0]
    ft = fk.test
    if not (isinstance(ft, ast.BoolOp) and isinstance(ft.op, ast.And) and len(ft.values) == 2
            and _norm(ft.values[0]).startswith("spw_params['band']==") and isinstance(ft.values[0].comparators[0], ast.Constant)
            and _norm(ft.values[1]).startswith('bandwidth==') and len(ft.values[1].ops) == 1
            and isinstance(ft.values[1].ops[0], ast.Eq) and isinstance(ft.values[0].ops[0], ast.Eq)):
        raise TranslateError('H5DataV3.__init__: fake-UHF test is %s' % ast.unparse(ft))
    sets = dict((_norm(x.targets[0]), x.value) for x in fk.body if isinstance(x, ast.Assign))
    if sorted(sets) != ["spw_params['centre_freq']", "spw_params['sideband']"] or len(fk.body) != 2:
        raise TranslateError('H5DataV3.__init__: fake-UHF branch sets %s' % sorted(sets))
    fake = (ft.values[0].comparators[0].value, _exact_int(ft.values[1].comparators[0], 'fake UHF bandwidth'),
            _exact_int(sets["spw_params['centre_freq']"], 'fake UHF centre'),
            _signed_int(sets["spw_params['sideband']"], 'fake UHF sideband'))
    i_l0 = at(lambda n, t: isinstance(n, ast.If) and t.startswith('ifl0_centre_freqisnotNone:'), 'the l0 centre frequency')
    if [_norm(x) for x in body[i_l0].body] != ["spw_params['centre_freq']=l0_centre_freq"] or body[i_l0].orelse:
        raise TranslateError('H5DataV3.__init__: l0 centre frequency override')
    i_cw = at(lambda n, t: t.startswith("spw_params['channel_width']="), 'channel_width')
    cw_code3 = _coerce(tx(body[i_cw].value, env, 'v3 channel_width'), 'Q', 'v3 channel_width')
    i_mis = at(lambda n, t: isinstance(n, ast.If) and t.startswith('ifnum_chans!=self._vis.shape[1]:'), 'the channel-count fallback')
    mis = [_norm(x) for x in body[i_mis].body if not _norm(x).startswith('logger.warning(')]
    if mis != ['num_chans=self._vis.shape[1]', "spw_params.pop('centre_freq',None)"] or body[i_mis].orelse:
        raise TranslateError('H5DataV3.__init__: channel-count fallback does %s' % mis)
    i_par = at(lambda n, t: isinstance(n, ast.If) and t.startswith('ifcentre_freq:'), 'the centre_freq parameter')
    if [_norm(x) for x in body[i_par].body] != ["spw_params['centre_freq']=centre_freq"] or body[i_par].orelse:
        raise TranslateError('H5DataV3.__init__: centre_freq parameter override')
    i_def = at(lambda n, t: isinstance(n, ast.If) and t.startswith("if'centre_freq'notinspw_params:"), 'the default centre')
    dsets = [x for x in body[i_def].body if isinstance(x, ast.Assign)]
    if len(dsets) != 1 or _norm(dsets[0].targets[0]) != "spw_params['centre_freq']" or body[i_def].orelse:
        raise TranslateError('H5DataV3.__init__: default centre frequency')
    dflt_centre = _exact_int(dsets[0].value, 'default centre frequency')
    i_nc = at(lambda n, t: t == "spw_params['num_chans']=num_chans", 'num_chans parameter')
    i_sw = at(lambda n, t: t == 'self.spectral_windows=[SpectralWindow(**spw_params)]', 'the spectral window')
    # nothing else may touch the parameters
    allowed = set()
    for i in (i_get, i_rx, i_l0, i_cw, i_mis, i_par, i_def, i_nc):
        allowed |= set(id(x) for x in ast.walk(body[i]))
    for n in ast.walk(init):
        if isinstance(n, (ast.Assign, ast.AugAssign, ast.Delete)) and id(n) not in allowed:
            tg = n.targets if isinstance(n, (ast.Assign, ast.Delete)) else [n.target]
            if any(_norm(t).startswith('spw_params') for t in tg):
                if _norm(n) != "spw_params['product']=self.obs_params.get('product','')":
                    raise TranslateError('H5DataV3.__init__: spw_params also modified by %s' % ast.unparse(n)[:80])
        if isinstance(n, ast.Call) and _norm(n.func).startswith('spw_params.') and id(n) not in allowed:
            raise TranslateError('H5DataV3.__init__: spw_params also modified by %s' % ast.unparse(n)[:80])
    steps = [(i_get, 1), (i_bug, 2), (i_rx, 3), (i_l0, 4), (i_cw, 5), (i_mis, 6), (i_par, 7), (i_def, 8), (i_nc, 9), (i_sw, 10)]
    if not (i_tab < i_get and i_n < i_cw and i_bw < i_bug):
        raise TranslateError('H5DataV3.__init__: frequency statements out of order')
    prog = [c for _, c in sorted(steps)]
    out.append('Definition gen_v3_rx_table : list (string * (string * (option Z * Z))) := [%s].' % '; '.join(rows))
    out.append('Definition gen_v3_rx_default : string * (option Z * Z) := %s.' % dflt_row)
    out.append('Definition gen_v3_bw_workaround : Z * Z := (%s, %s).' % (coq_Z(bug_from), coq_Z(bug_to)))
    out.append('Definition gen_v3_ku_band : string := %s.' % coq_string(ku_band))
    out.append('Definition gen_v3_ku_centre %s (siggen_freq : A) : A := %s.' % (OPS, ku_code))
    out.append('Definition gen_v3_fake_uhf : string * (Z * (Z * Z)) := (%s, (%s, (%s, %s))).' % (
        coq_string(fake[0]), coq_Z(fake[1]), coq_Z(fake[2]), coq_Z(fake[3])))
    out.append('Definition gen_v3_channel_width %s (bandwidth : A) (num_chans : Z) : A := %s.' % (OPS, cw_code3))
    out.append('Definition gen_v3_default_centre : Z := %s.' % coq_Z(dflt_centre))
    out.append('(* 1 rx_table.get(band) 2 bandwidth workaround 3 Ku / fake UHF 4 l0 center_freq 5 channel_width 6 channel-count\n'
               '   fallback 7 centre_freq parameter 8 default centre 9 num_chans 10 the SpectralWindow call *)')
    out.append('Definition gen_v3_spw_prog : list Z := [%s].' % '; '.join(coq_Z(c) for c in prog))


# ------------------------------------------------------------------------------------------------ keepdims

def item_c01_keepdims(repo, out):
    """The keepdims glue of the v2 / v3 readers: _force_full_dim re-inserts one axis per scalar of the (padded /
    truncated) second-stage index and is appended LAST to the transforms iff self._keepdims, which is the keepdims
    argument of the constructor (default False)."""
    rows = []
    forms = {
        'H5DataV2': ('_force_3dim',
                     ['keep=keep[:3]+(slice(None),)*(3-len(keep))',
                      'keep_singles=[np.newaxisifnp.isscalar(dim_keep)elseslice(None)fordim_keepinkeep]',
                      'returndata[tuple(keep_singles)]'],
                     ["force_3dim=LazyTransform('force_3dim',_force_3dim)",
                      'transforms=[extractor,force_3dim]ifself._keepdimselse[extractor]',
                      'returnLazyIndexer(dataset,stage1,transforms)']),
        'H5DataV3': ('_force_full_dim',
                     ['keep=keep[:dims]+(slice(None),)*(dims-len(keep))',
                      'keep_singles=[np.newaxisifnp.isscalar(dim_keep)elseslice(None)fordim_keepinkeep]',
                      'returndata[tuple(keep_singles)]'],
                     ["force_full_dim=LazyTransform('force_full_dim',_force_full_dim)", 'transforms=[]',
                      'ifextractor:transforms.append(extractor)', 'ifself._keepdims:transforms.append(force_full_dim)',
                      'returnLazyIndexer(dataset,stage1,transforms)'])}
    for rel, cname in (('katdal/h5datav2.py', 'H5DataV2'), ('katdal/h5datav3.py', 'H5DataV3')):
        cls = _class(_parse(repo, rel), cname, rel)
        fn = _func(cls, '_vislike_indexer', rel)
        fname, want, want_tail = forms[cname]
        inner = [n for n in fn.body if isinstance(n, ast.FunctionDef) and n.name == fname]
        if len(inner) != 1 or [a.arg for a in inner[0].args.args] != ['data', 'keep']:
            raise TranslateError('%s._vislike_indexer: %s(data, keep) not found' % (cname, fname))
        body = [_norm(n) for n in inner[0].body if not (isinstance(n, ast.Expr) and isinstance(n.value, ast.Constant))]
        if body != want:
            raise TranslateError('%s.%s: body is %s' % (cname, fname, body))
        tail = [_norm(n).replace('\n', '') for n in fn.body[fn.body.index(inner[0]) + 1:]]
        if tail != want_tail:
            raise TranslateError('%s._vislike_indexer: transform assembly is %s' % (cname, tail))
        init = _func(cls, '__init__', rel)
        sets = [n for n in ast.walk(cls) if isinstance(n, (ast.Assign, ast.AugAssign))
                and any(_norm(t) == 'self._keepdims' for t in (n.targets if isinstance(n, ast.Assign) else [n.target]))]
        if len(sets) != 1 or sets[0] not in init.body or _norm(sets[0]) != 'self._keepdims=keepdims':
            raise TranslateError('%s: self._keepdims is not set once, unconditionally, from the keepdims argument' % cname)
        names = [a.arg for a in init.args.args]
        dflt = dict(zip(names[len(names) - len(init.args.defaults):], init.args.defaults))
        if 'keepdims' not in dflt or _norm(dflt['keepdims']) != 'False':
            raise TranslateError('%s.__init__: keepdims does not default to False' % cname)
        # vis / flags / weights all go through _vislike_indexer with the default dims; only the helper indexer of the
        # per-channel weights (dims=2) has its transforms cleared
        for prop in ('vis', 'flags', 'weights'):
            pf = _func(cls, prop, rel)
            rets = [n for n in ast.walk(pf) if isinstance(n, ast.Return) and n.value is not None and n in pf.body]
            calls = [n for n in ast.walk(pf) if isinstance(n, ast.Call) and _norm(n.func) == 'self._vislike_indexer']
            main = [c for c in calls if not any(k.arg == 'dims' for k in c.keywords) and len(c.args) + len(c.keywords) == 2]
            if len(rets) != 1 or len(main) != 1:
                raise TranslateError('%s.%s: not one _vislike_indexer(dataset, extract) call' % (cname, prop))
            clears = [n for n in ast.walk(pf) if isinstance(n, ast.Assign) and _norm(n.targets[0]).endswith('.transforms')]
            if any(_norm(n.targets[0]) != 'weights_channel.transforms' for n in clears):
                raise TranslateError('%s.%s: transforms of the returned indexer are modified' % (cname, prop))
        rows.append('(%s, true)' % coq_string(cname))
    out.append('Definition keepdims_glue : list (string * bool) := [%s].' % '; '.join(rows))


# ------------------------------------------------------------------------------------------------ v3 resynthesis

# H5DataV3.__init__ from `self._timestamps = data_group['timestamps'][:]` to `self._time_keep = ...`, statement by
# statement, in the translator's normal form (log calls reduced to their arguments).  Statements marked with a slot
# name are TRANSLATED (expression / comparison operator -> Generated.v, used by Model/DataSetResyn.v); every other
# statement must be exactly the text below (anything else is refused).
_CMP = {ast.Lt: 1, ast.LtE: 2, ast.Gt: 3, ast.GtE: 4}
V3_RESYN_BLOCK = [
    (None, "self._timestamps = data_group['timestamps'][:]"),
    (None, "self._keepdims = keepdims"),
    (None, "old_scale = self._get_cbf_attr('scale_factor_timestamp', cbf_group)"),
    (None, "old_origin = self._get_cbf_attr('sync_time', cbf_group)"),
    (None, "time_scale = old_scale if time_scale is None else time_scale"),
    (None, "time_origin = old_origin if time_origin is None else time_origin"),
    ('wrap', "adc_wrap_period = 2 ** ADC_COUNTER_BITS / time_scale"),
    ('regular', "regular_sensors = ()"),
    ('duration', "data_duration = 0"),
    ('start0', "sensor_start_time = 0"),
    ('pick', """for sensor_name, sensor_data in cache.items():
    if sensor_name.endswith(regular_sensors) and sensor_data:
        sensor_times = sensor_data.get().timestamp
        proposed_sensor_start_time = sensor_times[0]
        sensor_duration = sensor_times[-1] - proposed_sensor_start_time
        if sensor_duration > data_duration:
            sensor_start_time = proposed_sensor_start_time
            break"""),
    ('loop', """while sensor_start_time - time_origin > adc_wrap_period:
    time_origin += adc_wrap_period"""),
    (None, """if time_origin != old_origin:
    logger.warning("m")
    logger.warning("m %s %s" % (katpoint.Timestamp(old_origin), katpoint.Timestamp(time_origin)))
    logger.warning("m")"""),
    ('samples', "samples = 0"),
    ('resyn', "self._timestamps = 0"),
    (None, "time_deltas = np.diff(self._timestamps)"),
    ('wraps', "time_wraps = np.nonzero(time_deltas < 0)[0]"),
    (None, """if len(time_wraps):
    time_deltas[time_wraps] += adc_wrap_period
    self._timestamps = np.cumsum(np.r_[self._timestamps[0], time_deltas])
    for wrap in time_wraps:
        logger.warning('m %s' % (katpoint.Timestamp(self._timestamps[wrap])))
    logger.warning("m")"""),
    (None, "backward_jumps = np.nonzero(time_deltas < 0.0)[0]"),
    (None, """for jump in backward_jumps:
    logger.warning('m %s %g' % (katpoint.Timestamp(self._timestamps[jump]), time_deltas[jump]))"""),
    (None, "num_dumps = len(self._timestamps)"),
    (None, """if num_dumps != self._vis.shape[0]:
    raise BrokenFile(f'm {num_dumps} {self._vis.shape[0]}')"""),
    (None, "num_dumps = (num_dumps - 1) if num_dumps > 1 and (self._timestamps[-1] == self._timestamps[-2]) else num_dumps"),
    (None, "self._timestamps = self._timestamps[:num_dumps]"),
    (None, """if num_dumps > 1:
    expected_dumps = (self._timestamps[-2] - self._timestamps[0]) / self.dump_period + 2
    if abs(expected_dumps - num_dumps) >= 0.01:
        logger.warning("m %s %.3f %d", filename, expected_dumps, num_dumps)"""),
    (None, "self._timestamps += offset_to_middle_of_dump + self.time_offset"),
]


def _cmp_slot(node, canon, what):
    """The single comparison operator of `node` (a Compare with one operator): its code; the operator is then replaced
    by `canon` so that the surrounding statement can be compared with the template text."""
    if not (isinstance(node, ast.Compare) and len(node.ops) == 1 and type(node.ops[0]) in _CMP):
        raise TranslateError('%s: not a single ordering comparison: %s' % (what, ast.unparse(node)[:80]))
    code = _CMP[type(node.ops[0])]
    node.ops[0] = canon()
    return code


def item_c01_v3_resynth(repo, out):
    """H5DataV3.__init__: resynthesis of the timestamps from the ADC sample counter (scale / origin overrides with their
    None defaults, wrap period of the ADC_COUNTER_BITS-bit counter, second opinion on the start time from the regular
    sensors, sync time moved forward in steps of the wrap period, unwrapping of decreases larger than half a wrap
    period), the dump-count check, the duplicate final dump and the shift to mid-dump - in this ORDER."""
    import copy
    from vh.translate import parse_template
    from vh.items.c17 import tx, OPS, _promote
    rel = 'katdal/h5datav3.py'
    tree = _parse(repo, rel)
    cls = _class(tree, 'H5DataV3', rel)
    init = copy.deepcopy(_func(cls, '__init__', rel))
    what = 'H5DataV3.__init__'
    texts = [ast.unparse(n) for n in init.body]
    first = [i for i, t in enumerate(texts) if t == "self._timestamps = data_group['timestamps'][:]"]
    last = [i for i, t in enumerate(texts) if t.startswith('self._time_keep =')]
    if len(first) != 1 or len(last) != 1 or last[0] - first[0] != len(V3_RESYN_BLOCK):
        raise TranslateError('%s: the block between loading the timestamps and self._time_keep has %s statements, %d expected'
                             % (what, (last[0] - first[0]) if len(first) == 1 and len(last) == 1 else '?', len(V3_RESYN_BLOCK)))
    # nothing before the block may touch the names it reads (the arguments keep their values until then) and nothing
    # after it may rebind self._timestamps (the sensor-grid item checks the latter as well)
    for n in init.body[:first[0]]:
        for m in ast.walk(n):
            if isinstance(m, (ast.Assign, ast.AugAssign)) and set(_targets(m)) & {'time_scale', 'time_origin', 'self.time_offset',
                                                                                'self._timestamps'}:
                raise TranslateError('%s: %s is rebound before the timestamps are resynthesised' % (what, _targets(m)))
    names = [a.arg for a in init.args.args]
    dflt = dict(zip(names[len(names) - len(init.args.defaults):], init.args.defaults))
    for k, v in (('time_scale', 'None'), ('time_origin', 'None'), ('time_offset', '0.0')):
        if k not in dflt or _norm(dflt[k]) != v:
            raise TranslateError('%s: %s does not default to %s' % (what, k, v))
    ds_init = _func(_class(_parse(repo, 'katdal/dataset.py'), 'DataSet', 'katdal/dataset.py'), '__init__', 'katdal/dataset.py')
    if 'self.time_offset=time_offset' not in [_norm(n) for n in ds_init.body]:
        raise TranslateError('DataSet.__init__: self.time_offset is not the time_offset argument')
    bits = _module_assign(tree, 'ADC_COUNTER_BITS', rel)
    if not (isinstance(bits, ast.Constant) and isinstance(bits.value, int) and 0 < bits.value < 200):
        raise TranslateError('ADC_COUNTER_BITS is not a small positive integer literal')
    defs, cmps = {}, {}
    for (slot, tmpl), node in zip(V3_RESYN_BLOCK, init.body[first[0]:last[0]]):
        w = '%s: %s' % (what, (slot or tmpl.split('\n')[0])[:50])
        if slot == 'wrap':
            if not (isinstance(node, ast.Assign) and _targets(node) == ['adc_wrap_period'] and isinstance(node.value, ast.BinOp)
                    and isinstance(node.value.op, ast.Div) and _norm(node.value.left) == '2**ADC_COUNTER_BITS'):
                raise TranslateError(w + ': not 2 ** ADC_COUNTER_BITS / <expr>')
            t = tx(node.value.right, {'time_scale': ('Q', 'time_scale')}, w)
            defs['wrap'] = '(o_div (o_ofZ %s) %s)' % (coq_Z(2 ** bits.value), _promote(t))
            continue
        if slot == 'regular':
            if not (isinstance(node, ast.Assign) and _targets(node) == ['regular_sensors'] and isinstance(node.value, ast.Tuple)
                    and node.value.elts and all(isinstance(e, ast.Constant) and isinstance(e.value, str) for e in node.value.elts)):
                raise TranslateError(w + ': not a tuple of names')
            defs['regular'] = [e.value for e in node.value.elts]
            continue
        if slot in ('duration', 'start0', 'samples', 'resyn'):
            tgt = {'duration': 'data_duration', 'start0': 'sensor_start_time', 'samples': 'samples', 'resyn': 'self._timestamps'}[slot]
            if not (isinstance(node, ast.Assign) and _targets(node) == [tgt]):
                raise TranslateError(w + ': not an assignment to ' + tgt)
            env = {'duration': {'self._timestamps[-1]': ('Q', 't_last'), 'self._timestamps[0]': ('Q', 't_first'),
                                'self.dump_period': ('Q', 'dump_period')},
                   'start0': {},
                   'samples': {'self._timestamps': ('Q', 't'), 'old_scale': ('Q', 'old_scale'), 'old_origin': ('Q', 'old_origin')},
                   'resyn': {'samples': ('Q', 'samples'), 'time_scale': ('Q', 'time_scale'), 'time_origin': ('Q', 'time_origin')}}[slot]
            defs[slot] = _promote(tx(node.value, env, w))
            continue
        if slot == 'pick':
            inner = [m for m in ast.walk(node) if isinstance(m, ast.Compare)]
            if len(inner) != 1:
                raise TranslateError(w + ': expected exactly one comparison')
            cmps['pick'] = _cmp_slot(inner[0], ast.Gt, w)
        if slot == 'loop':
            if not isinstance(node, ast.While):
                raise TranslateError(w + ': not a while loop')
            cmps['loop'] = _cmp_slot(node.test, ast.Gt, w)
        if slot == 'wraps':
            cm = [m for m in ast.walk(node) if isinstance(m, ast.Compare)]
            if len(cm) != 1 or _norm(cm[0].left) != 'time_deltas':
                raise TranslateError(w + ': expected time_deltas <cmp> threshold')
            defs['thr'] = _promote(tx(cm[0].comparators[0], {'adc_wrap_period': ('Q', 'adc_wrap_period')}, w))
            cmps['wraps'] = _cmp_slot(cm[0], ast.Lt, w)
            cm[0].comparators[0] = ast.Constant(0)
        want = ast.unparse(parse_template(tmpl).body[0])
        got = ast.unparse(ast.fix_missing_locations(node))
        if got != want:
            raise TranslateError('%s: statement is\n%s\nexpected\n%s' % (w, got[:300], want[:300]))
    out.append('Definition gen_v3_adc_bits : Z := %s.' % coq_Z(bits.value))
    out.append('Definition gen_v3_adc_wrap %s (time_scale : A) : A := %s.' % (OPS, defs['wrap']))
    out.append('Definition gen_v3_regular_sensors : list string := [%s].' % '; '.join(coq_string(x) for x in defs['regular']))
    out.append('Definition gen_v3_data_duration %s (t_last dump_period t_first : A) : A := %s.' % (OPS, defs['duration']))
    out.append('Definition gen_v3_sensor_start_default %s : A := %s.' % (OPS, defs['start0']))
    out.append('Definition gen_v3_samples %s (t old_scale old_origin : A) : A := %s.' % (OPS, defs['samples']))
    out.append('Definition gen_v3_resyn %s (samples time_scale time_origin : A) : A := %s.' % (OPS, defs['resyn']))
    out.append('Definition gen_v3_wrap_threshold %s (adc_wrap_period : A) : A := %s.' % (OPS, defs['thr']))
    out.append('(* comparison operators (1 <, 2 <=, 3 >, 4 >=): sensor_duration ? data_duration; sensor_start_time - time_origin ?\n'
               '   adc_wrap_period (while); time_deltas ? threshold *)')
    out.append('Definition gen_v3_resyn_cmps : Z * Z * Z := (%s, %s, %s).' % (coq_Z(cmps['pick']), coq_Z(cmps['loop']), coq_Z(cmps['wraps'])))


ITEMS = [item_c01_attrs, item_c01_tconv, item_c01_conj, item_c01_weight_names, item_c01_snapshot,
         item_c01_sensor_grid, item_c01_construction_grid, item_c01_freq_axes, item_c01_keepdims, item_c01_v3_resynth]
