"""Translator items for C18: telstate stream resolution and flag-stream upgrade (katdal/datasources.py).

Everything is looked up by shape (Python ast, statements compared after `ast.unparse` with blanks removed); a
function that no longer has the expected skeleton raises TranslateError = broken tie (fail-closed).

Emitted into coq/Gen/Generated.v and USED by coq/Model/Telstate.v (the theorems of Props/C18.v are re-checked
against them at every run):

  item_view_capture_stream
    ts_sep            : string          katsdptelstate's SEPARATOR (the installed package is parsed, not imported)
    ts_inherit_key    : string          key that names the parent stream (`<stream>_inherit`)
    vcs_step, vcs_steps                 the ORDER in which view_capture_stream stacks the views after the inherit
                                        chain was collected: VRev (streams.reverse()), VStreams r (one view per
                                        stream, r = iterates reversed(streams)), VCb (view of the capture block),
                                        VCbStreams r (one view per join(capture block, stream))
  item_l0_stream   (view_l0_capture_stream)
    l0_cbid_key, l0_stream_key          keys holding the defaults recorded in the file
    l0_empty_falls_back : bool          the defaults are taken when the given value is falsy (`if not x`) rather
                                        than only when it is None
    l0_type_key, l0_type_default, l0_expected_type
  item_upgrade_flags   (_upgrade_flags, _upgrade_chunk_info)
    fl_archived_key, fl_type_key, fl_type, fl_src_key, fl_chunk_info_key
  item_open   (TelstateDataSource.__init__, from_url)
    ds_reads_chunk_info (has_store has_ts : bool) : bool    when chunk info (hence the flag streams) is consulted
    ds_upgrade_default : bool           default of the upgrade_flags keyword
    ds_chunk_info_key : string          key of the opened stream's own chunk info
    ds_dumps_array : string             array whose (aligned) shape gives the number of synthesised timestamps
    url_keyword_wins : bool             from_url: keywords override the URL query
"""
import ast
import os
import re

from vh.translate import TranslateError, _class, _func, _parse, coq_string

REL = 'katdal/datasources.py'


def _u(node):
    return ast.unparse(node).replace(' ', '')


def _body(fn):
    """Statements of a function without docstring and without logger calls."""
    out = []
    for s in fn.body:
        if isinstance(s, ast.Expr) and isinstance(s.value, ast.Constant):
            continue
        out.append(s)
    return out


def _no_log(stmts):
    return [s for s in stmts if not (isinstance(s, ast.Expr) and _u(s).startswith('logger.'))]


def _match(pattern, text, what):
    m = re.fullmatch(pattern, text)
    if not m:
        raise TranslateError('%s: expected %s, found %s' % (what, pattern, text[:160]))
    return m


def _bool(b):
    return 'true' if b else 'false'


STR = r"'([^'\\]*)'"


# --------------------------------------------------------------------------- view_capture_stream

def _separator():
    import importlib.util
    spec = importlib.util.find_spec('katsdptelstate')
    if spec is None or not spec.submodule_search_locations:
        raise TranslateError('katsdptelstate: package not found')
    p = os.path.join(list(spec.submodule_search_locations)[0], 'telescope_state_base.py')
    try:
        tree = ast.parse(open(p).read(), p)
    except (OSError, SyntaxError) as e:
        raise TranslateError('katsdptelstate: %s' % e)
    found = []
    for c in tree.body:
        if isinstance(c, ast.ClassDef):
            for n in c.body:
                if isinstance(n, ast.Assign) and len(n.targets) == 1 and isinstance(n.targets[0], ast.Name) \
                        and n.targets[0].id == 'SEPARATOR' and isinstance(n.value, ast.Constant) \
                        and isinstance(n.value.value, str):
                    found.append(n.value.value)
    if len(found) != 1 or len(found[0]) != 1:
        raise TranslateError('katsdptelstate: SEPARATOR not found as a one-character string constant')
    return found[0]


def item_view_capture_stream(repo, out):
    what = 'view_capture_stream'
    fn = _func(_parse(repo, REL), what, REL)
    if [a.arg for a in fn.args.args] != ['telstate', 'capture_block_id', 'stream_name']:
        raise TranslateError('%s: unexpected parameters' % what)
    body = _body(fn)
    if len(body) < 4:
        raise TranslateError('%s: body too short' % what)
    _match(r'streams=\[stream_name\]', _u(body[0]), what + ' first statement')
    loop = body[1]
    if not (isinstance(loop, ast.While) and _u(loop.test) == 'True' and not loop.orelse and len(loop.body) == 3):
        raise TranslateError('%s: inherit loop is not `while True:` with three statements' % what)
    m = _match(r"inherit=telstate\.view\(streams\[-1\],exclusive=True\)\.get\(%s\)" % STR, _u(loop.body[0]),
               what + ' inherit lookup')
    inherit_key = m.group(1)
    _match(r'ifinheritisNone:break', _u(loop.body[1]).replace('\n', ''), what + ' end of chain test')
    _match(r'streams\.append\(inherit\)', _u(loop.body[2]), what + ' chain append')
    if _u(body[-1]) != 'returntelstate':
        raise TranslateError('%s: does not return the telstate view' % what)
    steps = []
    for s in body[2:-1]:
        t = _u(s).replace('\n', ';')
        if t == 'streams.reverse()':
            steps.append('VRev')
            continue
        if t == 'telstate=telstate.view(capture_block_id)':
            steps.append('VCb')
            continue
        m = re.fullmatch(r'forstreamin(streams|reversed\(streams\)):(.*)', t)
        if m:
            rev = _bool(m.group(1) != 'streams')
            inner = m.group(2).strip(';')
            if inner == 'telstate=telstate.view(stream)':
                steps.append('VStreams %s' % rev)
                continue
            if inner in ('capture_stream=telstate.join(capture_block_id,stream);telstate=telstate.view(capture_stream)',
                         'telstate=telstate.view(telstate.join(capture_block_id,stream))'):
                steps.append('VCbStreams %s' % rev)
                continue
        raise TranslateError('%s: unsupported statement %s' % (what, t[:160]))
    out.append('Definition ts_sep : string := %s.' % coq_string(_separator()))
    out.append('Definition ts_inherit_key : string := %s.' % coq_string(inherit_key))
    out.append('Inductive vcs_step := VRev | VStreams (reversed : bool) | VCb | VCbStreams (reversed : bool).')
    out.append('Definition vcs_steps : list vcs_step := [%s].' % '; '.join(steps))


# --------------------------------------------------------------------------- view_l0_capture_stream

def _default_from_file(stmt, var, what):
    """if not <var>: try: <var> = telstate['<key>'] except KeyError as e: raise ValueError(...) from e"""
    if not (isinstance(stmt, ast.If) and not stmt.orelse and len(stmt.body) == 1 and isinstance(stmt.body[0], ast.Try)):
        raise TranslateError('%s: default of %s is not `if ...: try: ...`' % (what, var))
    test = _u(stmt.test)
    if test == 'not' + var:
        falsy = True
    elif test == var + 'isNone':
        falsy = False
    else:
        raise TranslateError('%s: unsupported test %s for the default of %s' % (what, test, var))
    tr = stmt.body[0]
    if not (len(tr.body) == 1 and len(tr.handlers) == 1 and not tr.orelse and not tr.finalbody):
        raise TranslateError('%s: default of %s: unexpected try statement' % (what, var))
    m = _match(r"%s=telstate\[%s\]" % (var, STR), _u(tr.body[0]), '%s default of %s' % (what, var))
    h = tr.handlers[0]
    if not (h.type is not None and _u(h.type) == 'KeyError' and len(h.body) == 1 and isinstance(h.body[0], ast.Raise)
            and _u(h.body[0].exc).startswith('ValueError(')):
        raise TranslateError('%s: a missing %s is not reported as ValueError' % (what, var))
    return m.group(1), falsy


def item_l0_stream(repo, out):
    what = 'view_l0_capture_stream'
    fn = _func(_parse(repo, REL), what, REL)
    if [a.arg for a in fn.args.args] != ['telstate', 'capture_block_id', 'stream_name'] \
            or [_u(d) for d in fn.args.defaults] != ['None', 'None']:
        raise TranslateError('%s: unexpected parameters' % what)
    body = _no_log(_body(fn))
    if len(body) != 8:
        raise TranslateError('%s: expected 8 statements, found %d' % (what, len(body)))
    _match(r'telstate=TelstateToStr\(telstate\)', _u(body[0]), what)
    cb_key, cb_falsy = _default_from_file(body[1], 'capture_block_id', what)
    sn_key, sn_falsy = _default_from_file(body[2], 'stream_name', what)
    if cb_falsy != sn_falsy:
        raise TranslateError('%s: capture block and stream defaults use different tests' % what)
    _match(r'telstate=view_capture_stream\(telstate,capture_block_id,stream_name\)', _u(body[3]), what)
    m = _match(r"stream_type=telstate\.get\(%s,%s\)" % (STR, STR), _u(body[4]), what + ' stream type lookup')
    type_key, type_default = m.group(1), m.group(2)
    m = _match(r"expected_type=%s" % STR, _u(body[5]), what + ' expected type')
    expected = m.group(1)
    chk = body[6]
    if not (isinstance(chk, ast.If) and _u(chk.test) == 'stream_type!=expected_type' and not chk.orelse
            and len(chk.body) == 1 and isinstance(chk.body[0], ast.Raise) and _u(chk.body[0].exc).startswith('ValueError(')):
        raise TranslateError('%s: stream type check is not `if stream_type != expected_type: raise ValueError`' % what)
    _match(r'return\(telstate,capture_block_id,stream_name\)', _u(body[7]), what + ' return')
    out.append('Definition l0_cbid_key : string := %s.' % coq_string(cb_key))
    out.append('Definition l0_stream_key : string := %s.' % coq_string(sn_key))
    out.append('Definition l0_empty_falls_back : bool := %s.' % _bool(cb_falsy))
    out.append('Definition l0_type_key : string := %s.' % coq_string(type_key))
    out.append('Definition l0_type_default : string := %s.' % coq_string(type_default))
    out.append('Definition l0_expected_type : string := %s.' % coq_string(expected))


# --------------------------------------------------------------------------- _upgrade_flags

def item_upgrade_flags(repo, out):
    what = '_upgrade_flags'
    tree = _parse(repo, REL)
    fn = _func(tree, what, REL)
    if [a.arg for a in fn.args.args] != ['chunk_info', 'telstate', 'capture_block_id', 'stream_name']:
        raise TranslateError('%s: unexpected parameters' % what)
    body = _body(fn)
    if len(body) != 3:
        raise TranslateError('%s: expected try / for / return' % what)
    tr = body[0]
    if not (isinstance(tr, ast.Try) and len(tr.body) == 1 and len(tr.handlers) == 1 and not tr.orelse
            and not tr.finalbody and _u(tr.handlers[0].type) == 'KeyError'):
        raise TranslateError('%s: archived stream lookup is not try/except KeyError' % what)
    m = _match(r"archived_streams=telstate\[%s\]" % STR, _u(tr.body[0]), what + ' archived streams')
    archived_key = m.group(1)
    hb = _no_log(tr.handlers[0].body)
    if [_u(s) for s in hb] != ['returnchunk_info']:
        raise TranslateError('%s: missing archived streams do not leave chunk_info unchanged' % what)
    loop = body[1]
    if not (isinstance(loop, ast.For) and _u(loop.target) == 's' and _u(loop.iter) == 'archived_streams' and not loop.orelse):
        raise TranslateError('%s: loop does not run over archived_streams' % what)
    lb = _no_log(loop.body)
    if len(lb) != 5:
        raise TranslateError('%s: expected 5 loop statements, found %d' % (what, len(lb)))
    _match(r'telstate_cs=view_capture_stream\(telstate,capture_block_id,s\)', _u(lb[0]), what + ' candidate view')
    skip = lb[1]
    if not (isinstance(skip, ast.If) and not skip.orelse and [_u(s) for s in skip.body] == ['continue']):
        raise TranslateError('%s: candidate filter is not `if ...: continue`' % what)
    m = _match(r"telstate_cs\.get\(%s\)!=%sorstream_namenotintelstate_cs\[%s\]" % (STR, STR, STR), _u(skip.test),
               what + ' candidate filter')
    type_key, ftype, src_key = m.groups()
    m = _match(r"flags_info=telstate_cs\[%s\]" % STR, _u(lb[2]), what + ' candidate chunk info')
    ci_key = m.group(1)
    _match(r'flags_info=_ensure_prefix_is_set\(flags_info,telstate_cs\)', _u(lb[3]), what)
    _match(r'chunk_info=_upgrade_chunk_info\(chunk_info,flags_info\)', _u(lb[4]), what + ' replacement')
    _match(r'returnchunk_info', _u(body[2]), what + ' return')
    # _upgrade_chunk_info: shapes beyond the dump axis must agree, then the whole entry is replaced
    up = _func(tree, '_upgrade_chunk_info', REL)
    ub = _body(up)
    if not (len(ub) == 2 and isinstance(ub[0], ast.For) and _u(ub[1]) == 'returnchunk_info'
            and _u(ub[0].target).strip('()') == 'key,improved_info' and _u(ub[0].iter) == 'improved_chunk_info.items()'):
        raise TranslateError('_upgrade_chunk_info: unexpected skeleton')
    ul = _no_log(ub[0].body)
    if len(ul) != 3:
        raise TranslateError('_upgrade_chunk_info: expected 3 loop statements')
    _match(r'original_info=chunk_info\.get\(key,improved_info\)', _u(ul[0]), '_upgrade_chunk_info')
    if not (isinstance(ul[1], ast.If) and not ul[1].orelse and len(ul[1].body) == 1 and isinstance(ul[1].body[0], ast.Raise)
            and _u(ul[1].body[0].exc).startswith('ValueError(')):
        raise TranslateError('_upgrade_chunk_info: shape check is not `if <shapes differ>: raise ValueError`')
    # (WHICH axes are compared and how: item_chunk_arrays -> uci_lo, uci_hi, uci_refuses)
    _match(r'chunk_info\[key\]=improved_info', _u(ul[2]), '_upgrade_chunk_info replacement')
    # _ensure_prefix_is_set: an info without 'prefix' gets telstate[<chunk name key>] of the telstate it is given
    ep = _func(tree, '_ensure_prefix_is_set', REL)
    eb = [_u(s).replace('\n', ';') for s in _body(ep)]
    if [a.arg for a in ep.args.args] != ['chunk_info', 'telstate'] or len(eb) != 2 or eb[1] != 'returnchunk_info':
        raise TranslateError('_ensure_prefix_is_set: unexpected skeleton')
    m = _match(r"forinfoinchunk_info\.values\(\):;if'prefix'notininfo:;info\['prefix'\]=telstate\[%s\]" % STR, eb[0],
               '_ensure_prefix_is_set')
    out.append('Definition ci_prefix_key : string := %s.' % coq_string(m.group(1)))
    out.append('Definition fl_archived_key : string := %s.' % coq_string(archived_key))
    out.append('Definition fl_type_key : string := %s.' % coq_string(type_key))
    out.append('Definition fl_type : string := %s.' % coq_string(ftype))
    out.append('Definition fl_src_key : string := %s.' % coq_string(src_key))
    out.append('Definition fl_chunk_info_key : string := %s.' % coq_string(ci_key))


# --------------------------------------------------------------------------- chunk infos with all their arrays

def _slice_bounds(node, var, what):
    """`<var>['shape'][lo:hi]` (or `[i]`) -> (lo, hi or None)."""
    def const(n, default):
        if n is None:
            return default
        if isinstance(n, ast.Constant) and isinstance(n.value, int) and not isinstance(n.value, bool) and n.value >= 0:
            return n.value
        raise TranslateError('%s: unsupported slice bound %s' % (what, _u(n)))
    if not (isinstance(node, ast.Subscript) and _u(node.value) == "%s['shape']" % var):
        raise TranslateError("%s: expected a slice of %s['shape'], found %s" % (what, var, _u(node)[:80]))
    sl = node.slice
    if isinstance(sl, ast.Slice):
        if sl.step is not None:
            raise TranslateError('%s: slice with a step' % what)
        return const(sl.lower, 0), (None if sl.upper is None else const(sl.upper, None))
    i = const(sl, None)
    return i, i + 1


def item_chunk_arrays(repo, out):
    """_upgrade_chunk_info: the slice of the shapes that is compared and the comparison; _align_chunk_info: the whole
    skeleton, the test that decides whether an array is extended, the length of a phantom chunk."""
    tree = _parse(repo, REL)
    what = '_upgrade_chunk_info'
    up = _func(tree, what, REL)
    if [a.arg for a in up.args.args] != ['chunk_info', 'improved_chunk_info'] or up.args.defaults:
        raise TranslateError('%s: unexpected parameters' % what)
    ub = _body(up)
    if not (len(ub) == 2 and isinstance(ub[0], ast.For) and not ub[0].orelse):
        raise TranslateError('%s: unexpected skeleton' % what)
    ul = _no_log(ub[0].body)
    if len(ul) != 3 or not isinstance(ul[1], ast.If):
        raise TranslateError('%s: expected get / shape test / replacement' % what)
    test = ul[1].test
    if not (isinstance(test, ast.Compare) and len(test.ops) == 1 and isinstance(test.ops[0], (ast.NotEq, ast.Eq))):
        raise TranslateError('%s: shape test is not one == / != comparison: %s' % (what, _u(test)[:120]))
    a, b = test.left, test.comparators[0]
    names = {_u(a.value.value) if isinstance(a, ast.Subscript) and isinstance(a.value, ast.Subscript) else '?',
             _u(b.value.value) if isinstance(b, ast.Subscript) and isinstance(b.value, ast.Subscript) else '?'}
    if names != {'improved_info', 'original_info'}:
        raise TranslateError('%s: the shapes compared are not those of improved_info and original_info' % what)
    ba = _slice_bounds(a, _u(a.value.value), what)
    bb = _slice_bounds(b, _u(b.value.value), what)
    if ba != bb:
        raise TranslateError('%s: the two shapes are sliced differently (%s vs %s)' % (what, ba, bb))
    lo, hi = ba
    out.append('Definition uci_lo : nat := %d%%nat.' % lo)
    out.append('Definition uci_hi : option nat := %s.' % ('None' if hi is None else 'Some %d%%nat' % hi))
    out.append('Definition uci_refuses (same : bool) : bool := %s.   (* %s *)'
               % ('negb same' if isinstance(test.ops[0], ast.NotEq) else 'same', ast.unparse(test)))
    # _align_chunk_info
    what = '_align_chunk_info'
    al = _func(tree, what, REL)
    if [x.arg for x in al.args.args] != ['chunk_info'] or al.args.defaults:
        raise TranslateError('%s: unexpected parameters' % what)
    ab = _no_log(_body(al))
    if not (len(ab) == 3 and isinstance(ab[1], ast.For) and not ab[1].orelse and _u(ab[2]) == 'returnchunk_info'):
        raise TranslateError('%s: unexpected skeleton' % what)
    _match(r"max_dumps=max\(\(?info\['shape'\]\[0\]forinfoinchunk_info\.values\(\)\)?\)", _u(ab[0]), what + ' maximum')
    if _u(ab[1].target).strip('()') != 'key,info' or _u(ab[1].iter) != 'chunk_info.items()':
        raise TranslateError('%s: loop does not run over chunk_info.items()' % what)
    lb = _no_log(ab[1].body)
    if not (len(lb) == 3 and [_u(s) for s in lb[:2]] == ["shape=info['shape']", 'n_dumps=shape[0]']
            and isinstance(lb[2], ast.If) and not lb[2].orelse):
        raise TranslateError('%s: unexpected loop body' % what)
    t = lb[2].test
    ops = {ast.Lt: 'Z.ltb n m', ast.LtE: 'Z.leb n m', ast.NotEq: 'negb (Z.eqb n m)', ast.Gt: 'Z.ltb m n', ast.GtE: 'Z.leb m n'}
    if not (isinstance(t, ast.Compare) and len(t.ops) == 1 and type(t.ops[0]) in ops
            and _u(t.left) == 'n_dumps' and _u(t.comparators[0]) == 'max_dumps'):
        raise TranslateError('%s: extension test is not a comparison of n_dumps with max_dumps: %s' % (what, _u(t)[:100]))
    ib = [_u(s) for s in _no_log(lb[2].body)]
    if len(ib) != 3 or ib[0] != "info['shape']=(max_dumps,)+shape[1:]" \
            or ib[2] != "info['chunks']=(time_chunks,)+info['chunks'][1:]":
        raise TranslateError('%s: unexpected extension statements %s' % (what, ' | '.join(ib)[:240]))
    m = _match(r"time_chunks=info\['chunks'\]\[0\]\+\(max_dumps-n_dumps\)\*\((\d+),\)", ib[1], what + ' phantom chunks')
    out.append('Definition al_extends (n m : Z) : bool := (%s)%%Z.   (* %s *)' % (ops[type(t.ops[0])], ast.unparse(t)))
    out.append('Definition al_phantom : Z := %d%%Z.' % int(m.group(1)))


# --------------------------------------------------------------------------- TelstateDataSource.__init__, from_url

def _gate(node):
    """Boolean expression over `chunk_store is [not] None`, `timestamps is [not] None`."""
    if isinstance(node, ast.BoolOp):
        op = ' || ' if isinstance(node.op, ast.Or) else ' && '
        return '(' + op.join(_gate(v) for v in node.values) + ')'
    if isinstance(node, ast.UnaryOp) and isinstance(node.op, ast.Not):
        return '(negb %s)' % _gate(node.operand)
    t = _u(node)
    table = {'chunk_storeisnotNone': 'has_store', 'chunk_storeisNone': '(negb has_store)',
             'timestampsisnotNone': 'has_ts', 'timestampsisNone': '(negb has_ts)'}
    if t in table:
        return table[t]
    raise TranslateError('TelstateDataSource.__init__: unsupported chunk-info condition %s' % t[:120])


def item_open(repo, out):
    what = 'TelstateDataSource.__init__'
    tree = _parse(repo, REL)
    cls = _class(tree, 'TelstateDataSource', REL)
    init = _func(cls, '__init__', REL)
    names = [a.arg for a in init.args.args]
    defaults = dict(zip(names[len(names) - len(init.args.defaults):], init.args.defaults))
    for need in ('chunk_store', 'timestamps', 'upgrade_flags'):
        if need not in defaults:
            raise TranslateError('%s: keyword %s not found' % (what, need))
    if _u(defaults['chunk_store']) != 'None' or _u(defaults['timestamps']) != 'None':
        raise TranslateError('%s: chunk_store / timestamps do not default to None' % what)
    if _u(defaults['upgrade_flags']) not in ('True', 'False'):
        raise TranslateError('%s: upgrade_flags default is not a boolean literal' % what)
    src = _u(init)
    for fname in ('_upgrade_flags(', '_align_chunk_info(', 'chunk_info=telstate['):
        if src.count(fname) != 1:
            raise TranslateError('%s: expected exactly one use of %s, found %d' % (what, fname, src.count(fname)))
    if len(re.findall(r"telstate\[[^\]]*chunk_info[^\]]*\]", src)) != 1:
        raise TranslateError('%s: chunk info is read from the telstate more than once' % what)
    gates = [s for s in init.body if isinstance(s, ast.If) and '_align_chunk_info(' in _u(s)]
    if len(gates) != 1 or gates[0].orelse:
        raise TranslateError('%s: chunk info is not prepared in exactly one top-level `if` without else' % what)
    gate = gates[0]
    gb = [_u(s).replace('\n', ';') for s in _no_log(gate.body)]
    m = _match(r"chunk_info=telstate\[%s\]" % STR, gb[0] if gb else '', what + ' own chunk info')
    ci_key = m.group(1)
    expect = [gb[0],
              'chunk_info=_ensure_prefix_is_set(chunk_info,telstate)',
              'ifupgrade_flags:;chunk_info=_upgrade_flags(chunk_info,telstate,capture_block_id,stream_name)',
              'chunk_info=_align_chunk_info(chunk_info)']
    if [re.sub(r';+', ';', g) for g in gb] != expect:
        raise TranslateError('%s: chunk info preparation is %s' % (what, ' | '.join(gb)[:300]))
    cond = _gate(gate.test)
    # the data object is built from this chunk_info iff a chunk store is given
    data_ifs = [s for s in init.body if isinstance(s, ast.If) and 'ChunkStoreVisFlagsWeights(' in _u(s)]
    if len(data_ifs) != 1 or _u(data_ifs[0].test) != 'chunk_storeisNone' or [_u(s) for s in data_ifs[0].body] != ['data=None']:
        raise TranslateError('%s: data is not `None if chunk_store is None else ChunkStoreVisFlagsWeights(...)`' % what)
    if 'ChunkStoreVisFlagsWeights(chunk_store,chunk_info,' not in _u(data_ifs[0]):
        raise TranslateError('%s: the data object is not built from (chunk_store, chunk_info)' % what)
    if init.body.index(data_ifs[0]) < init.body.index(gate):
        raise TranslateError('%s: data object built before the chunk info is prepared' % what)
    ts_ifs = [s for s in init.body if isinstance(s, ast.If) and _u(s.test) == 'timestampsisNone']
    if len(ts_ifs) != 1 or ts_ifs[0].orelse:
        raise TranslateError('%s: timestamp synthesis `if timestamps is None:` not found' % what)
    tb = [_u(s) for s in _no_log(ts_ifs[0].body)]
    arr = None
    for t in tb:
        m = re.fullmatch(r"n_dumps=chunk_info\[%s\]\['shape'\]\[0\]" % STR, t)
        if m:
            arr = m.group(1)
    if arr is None or 'timestamps=t0+np.arange(n_dumps)*int_time' not in tb:
        raise TranslateError('%s: timestamps are not synthesised as t0 + arange(n_dumps) * int_time from chunk_info' % what)
    if init.body.index(ts_ifs[0]) < init.body.index(gate):
        raise TranslateError('%s: timestamps synthesised before the chunk info is prepared' % what)
    # from_url: URL query merged with keywords
    fu = _func(cls, 'from_url', REL)
    fb = [_u(s) for s in _body(fu)]
    try:
        i = fb.index('url_kwargs=dict(urllib.parse.parse_qsl(url_parts.query))')
    except ValueError:
        raise TranslateError('from_url: URL query is not parsed into url_kwargs')
    if fb[i + 1:i + 3] == ['url_kwargs.update(kwargs)', 'kwargs=url_kwargs']:
        kw_wins = True
    elif fb[i + 1:i + 2] == ['kwargs.update(url_kwargs)']:
        kw_wins = False
    else:
        raise TranslateError('from_url: unsupported merge of URL query and keywords: %s' % ' | '.join(fb[i + 1:i + 3]))
    tail = fb[fb.index('kwargs=url_kwargs') + 1:] if kw_wins else fb[i + 2:]
    need = ['telstate,capture_block_id,stream_name=view_l0_capture_stream(telstate,**kwargs)',
            "returncls(telstate,capture_block_id,stream_name,chunk_store,url=url_parts.geturl(),**kwargs)"]
    for n in need:
        if n not in tail:
            raise TranslateError('from_url: expected statement %s' % n)
    out.append('Definition ds_reads_chunk_info (has_store has_ts : bool) : bool := %s%%bool.' % cond)
    out.append('Definition ds_upgrade_default : bool := %s.' % _bool(_u(defaults['upgrade_flags']) == 'True'))
    out.append('Definition ds_chunk_info_key : string := %s.' % coq_string(ci_key))
    out.append('Definition ds_dumps_array : string := %s.' % coq_string(arr))
    out.append('Definition url_keyword_wins : bool := %s.' % _bool(kw_wins))


# --------------------------------------------------------------------------- _shorten_key and the sensor loop

_CMP = {ast.LtE: 'Nat.leb %(a)s %(b)s', ast.Lt: 'Nat.ltb %(a)s %(b)s', ast.GtE: 'Nat.leb %(b)s %(a)s',
        ast.Gt: 'Nat.ltb %(b)s %(a)s', ast.Eq: 'Nat.eqb %(a)s %(b)s', ast.NotEq: 'negb (Nat.eqb %(a)s %(b)s)'}


def item_sensor_loop(repo, out):
    """_shorten_key (first prefix IN VIEW ORDER that fits, '' when none does) and the sensor-collection loop of
    TelstateDataSource.__init__: which keys are sensors (key type), the rank expression and the comparison that
    decides whether a key replaces the entry of the same sensor name.  sn_type_through_view: the type of the (full) key
    is asked of the VIEW (which resolves the full key through its prefixes once more, the behaviour before the repair
    of finding F-C18x-1) rather than of the root namespace; the getter must read from the same object."""
    tree = _parse(repo, REL)
    what = '_shorten_key'
    fn = _func(tree, what, REL)
    if [a.arg for a in fn.args.args] != ['telstate', 'key']:
        raise TranslateError('%s: unexpected parameters' % what)
    body = _body(fn)
    if len(body) != 2 or not isinstance(body[0], ast.For) or body[0].orelse:
        raise TranslateError('%s: expected `for prefix in ...: ...` then a return' % what)
    loop = body[0]
    it = _u(loop.iter)
    if _u(loop.target) != 'prefix' or it not in ('telstate.prefixes', 'reversed(telstate.prefixes)', 'telstate.prefixes[::-1]'):
        raise TranslateError('%s: loop is not over telstate.prefixes: %s' % (what, it))
    if [_u(s).replace('\n', ';') for s in loop.body] != ['ifkey.startswith(prefix):;returnkey[len(prefix):]']:
        raise TranslateError('%s: loop body is not `if key.startswith(prefix): return key[len(prefix):]`' % what)
    m = _match(r"return%s" % STR, _u(body[1]), what + ' fall-through')
    nomatch = m.group(1)
    # the loop
    what = 'TelstateDataSource.__init__ (sensors)'
    init = _func(_class(tree, 'TelstateDataSource', REL), '__init__', REL)
    loops = [s for s in init.body if isinstance(s, ast.For) and _u(s.iter) == 'telstate.keys()']
    if len(loops) != 1 or loops[0].orelse or _u(loops[0].target) != 'key':
        raise TranslateError('%s: expected exactly one `for key in telstate.keys():`' % what)
    loop = loops[0]
    i = init.body.index(loop)
    before = [_u(s) for s in init.body[:i]]
    has_root = before[-1:] == ['root=telstate.root()']
    if has_root:
        before = before[:-1]
    if before[-2:] != ['sensors={}', 'namespace_ranks={}'] or 'sensors' in ''.join(before[:-2]) or 'root=' in ''.join(before):
        raise TranslateError('%s: the loop does not start from empty `sensors` and `namespace_ranks`' % what)
    if _u(init.body[i + 1]) != 'metadata=AttrsSensors(telstate,sensors)':
        raise TranslateError('%s: the table is not handed to AttrsSensors right after the loop' % what)
    if sum(_u(s).count('sensors[') for s in init.body) != 1 or _u(init).count('namespace_ranks[') != 1:
        raise TranslateError('%s: sensors / namespace_ranks are assigned elsewhere too' % what)
    if len(loop.body) != 1 or not isinstance(loop.body[0], ast.If) or loop.body[0].orelse:
        raise TranslateError('%s: loop body is not one `if key_type ...:`' % what)
    kt = loop.body[0]
    m = _match(r'(telstate|root)\.key_type\(key\)(==|!=)katsdptelstate\.KeyType\.([A-Z]+)', _u(kt.test), what + ' key type test')
    where, type_eq, type_name = m.group(1), m.group(2) == '==', m.group(3)
    if (where == 'root') != has_root or _u(init).count('root=') != int(has_root):
        raise TranslateError('%s: `root` is not `telstate.root()` taken right before the loop' % what)
    if len(kt.body) != 2 or _u(kt.body[0]) != 'sensor_name=_shorten_key(telstate,key)':
        raise TranslateError('%s: the sensor name is not `_shorten_key(telstate, key)`' % what)
    ne = kt.body[1]
    if not (isinstance(ne, ast.If) and _u(ne.test) == 'sensor_name' and not ne.orelse):
        raise TranslateError('%s: expected `if sensor_name:`' % what)
    inner = [s for s in ne.body if not (isinstance(s, ast.Expr) and isinstance(s.value, ast.Constant))]
    if len(inner) != 2:
        raise TranslateError('%s: expected the rank assignment and one comparison' % what)
    _match(r'rank=telstate\.prefixes\.index\(key\[:len\(key\)-len\(sensor_name\)\]\)', _u(inner[0]), what + ' rank')
    cmp_ = inner[1]
    if not (isinstance(cmp_, ast.If) and not cmp_.orelse and isinstance(cmp_.test, ast.Compare)
            and len(cmp_.test.ops) == 1 and type(cmp_.test.ops[0]) in _CMP):
        raise TranslateError('%s: unsupported replacement test %s' % (what, _u(cmp_.test) if hasattr(cmp_, 'test') else ''))
    left, right = cmp_.test.left, cmp_.test.comparators[0]

    def old_rank(node):
        if isinstance(node, ast.Call) and _u(node.func) == 'namespace_ranks.get' and len(node.args) == 2 \
                and not node.keywords and _u(node.args[0]) == 'sensor_name':
            d = node.args[1]
            if _u(d) == 'rank':
                return 'rank'
            if isinstance(d, ast.Constant) and isinstance(d.value, int) and not isinstance(d.value, bool) and 0 <= d.value < 1000:
                return '%d%%nat' % d.value
            raise TranslateError('%s: unsupported default rank %s' % (what, _u(d)))
        return None
    if _u(left) == 'rank' and old_rank(right) is not None:
        expr, default = _CMP[type(cmp_.test.ops[0])] % dict(a='rank', b='old'), old_rank(right)
    elif _u(right) == 'rank' and old_rank(left) is not None:
        expr, default = _CMP[type(cmp_.test.ops[0])] % dict(a='old', b='rank'), old_rank(left)
    else:
        raise TranslateError('%s: the replacement test does not compare rank with namespace_ranks.get(sensor_name, ...): %s'
                             % (what, _u(cmp_.test)))
    if [_u(s) for s in cmp_.body] != ['namespace_ranks[sensor_name]=rank', 'sensors[sensor_name]=TelstateSensorGetter(%s,key)' % where]:
        raise TranslateError('%s: a replacing key does not record its rank and its getter' % what)
    out.append('Definition sk_reversed : bool := %s.' % _bool(it != 'telstate.prefixes'))
    out.append('Definition sk_nomatch : string := %s.' % coq_string(nomatch))
    out.append('Definition sn_type_through_view : bool := %s.' % _bool(where == 'telstate'))
    out.append('Definition sn_key_type : string := %s.' % coq_string(type_name))
    out.append('Definition sn_key_type_eq : bool := %s.' % _bool(type_eq))
    out.append('Definition sn_replaces (rank old : nat) : bool := (%s)%%nat.' % expr)
    out.append('Definition sn_default_rank (rank : nat) : nat := %s.' % default)


# --------------------------------------------------------------------------- from_url / open_data_source / katdal.open: sources

def _exc_names(node):
    if node is None:
        return None
    elts = node.elts if isinstance(node, ast.Tuple) else [node]
    return [_u(e).split('.')[-1] for e in elts]


def item_sources(repo, out):
    """Which failures of a source are reported as DataSourceNotFound: the scheme dispatch of from_url, the exceptions
    caught around load_from_file, the unknown-scheme branch; open_data_source re-raises the same class; katdal.open
    sends '*.rdb' paths and anything with a scheme to open_data_source."""
    tree = _parse(repo, REL)
    cls = _class(tree, 'TelstateDataSource', REL)
    fu = _func(cls, 'from_url', REL)
    what = 'from_url'
    if [a.arg for a in fu.args.args] != ['cls', 'url', 'chunk_store'] or [_u(d) for d in fu.args.defaults] != ["'auto'"]:
        raise TranslateError('%s: unexpected parameters' % what)
    body = _body(fu)
    if _u(body[0]) != 'url_parts=parse_url_or_path(url)':
        raise TranslateError('%s: the URL is not parsed by parse_url_or_path first' % what)
    chains = [s for s in body if isinstance(s, ast.If) and _u(s.test).startswith('url_parts.scheme')]
    if len(chains) != 1:
        raise TranslateError('%s: expected one dispatch on url_parts.scheme' % what)
    node, branches = chains[0], []
    while True:
        branches.append((node.test, node.body))
        if len(node.orelse) == 1 and isinstance(node.orelse[0], ast.If):
            node = node.orelse[0]
        else:
            final = node.orelse
            break
    schemes, file_scheme, caught, raised = [], None, None, None
    for test, b in branches:
        t = _u(test)
        m = re.fullmatch(r"url_parts\.scheme==%s" % STR, t)
        if m:
            names = [m.group(1)]
        else:
            m = re.fullmatch(r"url_parts\.schemein\{(.*)\}", t)
            if not m:
                raise TranslateError('%s: unsupported scheme test %s' % (what, t))
            names = [re.fullmatch(STR, x).group(1) for x in m.group(1).split(',')]
        schemes += names
        if any('load_from_file(url_parts.path)' in _u(s) for s in b):
            if file_scheme is not None or len(names) != 1:
                raise TranslateError('%s: more than one branch loads a file' % what)
            file_scheme = names[0]
            trys = [s for s in b if isinstance(s, ast.Try)]
            if len(trys) != 1 or len(trys[0].handlers) != 1 or trys[0].orelse or trys[0].finalbody \
                    or [_u(s) for s in trys[0].body] != ['telstate.load_from_file(url_parts.path)']:
                raise TranslateError('%s: the RDB file is not loaded inside one try/except' % what)
            h = trys[0].handlers[0]
            caught = _exc_names(h.type)
            if caught is None or len(h.body) != 1 or not isinstance(h.body[0], ast.Raise) or h.body[0].exc is None:
                raise TranslateError('%s: unsupported handler around load_from_file' % what)
            raised = _u(h.body[0].exc.func) if isinstance(h.body[0].exc, ast.Call) else _u(h.body[0].exc)
            if [_u(s) for s in b if not isinstance(s, ast.Try)] != ['telstate=katsdptelstate.TelescopeState()']:
                raise TranslateError('%s: unexpected statements in the file branch' % what)
    if file_scheme is None:
        raise TranslateError('%s: no branch loads an RDB file' % what)
    if len(final) != 1 or not isinstance(final[0], ast.Raise) or not isinstance(final[0].exc, ast.Call):
        raise TranslateError('%s: an unknown scheme does not raise' % what)
    unknown = _u(final[0].exc.func)
    # nothing between the dispatch and the view may swallow or re-class errors: no other try at top level
    if any(isinstance(s, ast.Try) for s in body):
        raise TranslateError('%s: unexpected top-level try statement' % what)
    # open_data_source
    what = 'open_data_source'
    od = _body(_func(tree, what, REL))
    if not (len(od) == 1 and isinstance(od[0], ast.Try) and len(od[0].handlers) == 1 and not od[0].orelse and not od[0].finalbody
            and [_u(s) for s in od[0].body] == ['returnTelstateDataSource.from_url(url,**kwargs)']):
        raise TranslateError('%s: not `try: return TelstateDataSource.from_url(url, **kwargs) except ...`' % what)
    h = od[0].handlers[0]
    ods_caught = _exc_names(h.type)
    reraised = set()
    for n in ast.walk(ast.Module(body=h.body, type_ignores=[])):
        if isinstance(n, ast.Raise):
            reraised.add(ods_caught[0] if n.exc is None and len(ods_caught) == 1 else
                         _u(n.exc.func) if isinstance(n.exc, ast.Call) else '?')
        if isinstance(n, (ast.Return, ast.Try)):
            raise TranslateError('%s: the handler returns or nests a try' % what)
    if not h.body or not isinstance(h.body[-1], ast.Raise) or len(reraised) != 1:
        raise TranslateError('%s: the handler does not always re-raise one exception class' % what)
    # katdal.open
    what = 'katdal.open'
    op = _func(_parse(repo, 'katdal/__init__.py'), 'open', 'katdal/__init__.py')
    fors = [s for s in op.body if isinstance(s, ast.For) and _u(s.target) == 'f']
    if len(fors) != 1:
        raise TranslateError('%s: loop over file names not found' % what)
    fb = fors[0].body
    if len(fb) < 2 or _u(fb[0]) != 'parsed=urllib.parse.urlsplit(f)' or not isinstance(fb[1], ast.If):
        raise TranslateError('%s: expected `parsed = urllib.parse.urlsplit(f)` then the format dispatch' % what)
    disp = fb[1]

    def gate(node):
        if isinstance(node, ast.BoolOp):
            return '(' + (' || ' if isinstance(node.op, ast.Or) else ' && ').join(gate(v) for v in node.values) + ')'
        if isinstance(node, ast.UnaryOp) and isinstance(node.op, ast.Not):
            return '(negb %s)' % gate(node.operand)
        t = _u(node)
        table = {"parsed.path.endswith('.rdb')": 'ends_rdb', "parsed.scheme!=''": 'has_scheme', "parsed.scheme==''": '(negb has_scheme)',
                 'parsed.scheme': 'has_scheme'}
        if t in table:
            return table[t]
        raise TranslateError('%s: unsupported format test %s' % (what, t))
    v4cond = gate(disp.test)
    if [_u(s) for s in disp.body] != ['dataset=VisibilityDataV4(open_data_source(f,**kwargs),ref_ant,time_offset,**kwargs)']:
        raise TranslateError('%s: the v4 branch is not VisibilityDataV4(open_data_source(f, **kwargs), ref_ant, time_offset, **kwargs)' % what)
    out.append('Definition src_file_scheme : string := %s.' % coq_string(file_scheme))
    out.append('Definition src_schemes : list string := [%s].' % '; '.join(coq_string(x) for x in schemes))
    out.append('Definition src_load_caught : list string := [%s].' % '; '.join(coq_string(x) for x in caught))
    out.append('Definition src_load_raises : string := %s.' % coq_string(raised))
    out.append('Definition src_unknown_raises : string := %s.' % coq_string(unknown))
    out.append('Definition ods_catches : list string := [%s].' % '; '.join(coq_string(x) for x in ods_caught))
    out.append('Definition ods_raises : string := %s.' % coq_string(sorted(reraised)[0]))
    out.append('Definition open_is_v4 (ends_rdb has_scheme : bool) : bool := %s%%bool.' % v4cond)


# --------------------------------------------------------------------------- visdatav4._relative_view

def item_relative_view(repo, out):
    rel = 'katdal/visdatav4.py'
    what = '_relative_view'
    fn = _func(_parse(repo, rel), what, rel)
    if [a.arg for a in fn.args.args] != ['telstate', 'name']:
        raise TranslateError('%s: unexpected parameters' % what)
    body = [_u(s).replace('\n', ';') for s in _body(fn)]
    if len(body) != 4 or body[0] != 'prefix=telstate.prefixes[-1]' or body[3] != 'returnview':
        raise TranslateError('%s: unexpected skeleton %s' % (what, ' | '.join(body)[:200]))
    m = _match(r'view=telstate\.view\(prefix\+name(,exclusive=(True|False))?\)', body[1], what + ' base view')
    exclusive = m.group(2) == 'True'
    m = _match(r'forprefixin(reversed\(telstate\.prefixes\[:-1\]\)|telstate\.prefixes\[:-1\]):;view=view\.view\(prefix\+name\)', body[2],
               what + ' loop')
    # the call sites: the type of every archived stream and the attributes of the L1 / L2 cal streams are read through it
    reg = _func(_class(_parse(repo, rel), 'VisibilityDataV4', rel), '_register_standard_cal_streams', rel)
    rsrc = _u(reg)
    for need, n in (('attrs=self.source.metadata.attrs', 1), ("archived_streams=attrs.get('sdp_archived_streams',[])", 1),
                    ('stream_attrs=_relative_view(attrs,stream)', 1), ("stream_type=stream_attrs.get('stream_type')", 1),
                    ('l1_attrs=_relative_view(attrs,l1_stream)', 1), ('l2_attrs=_relative_view(attrs,l2_streams[0])', 1),
                    ('.view(', 0), ('_relative_view(', 3)):
        if rsrc.count(need) != n:
            raise TranslateError('_register_standard_cal_streams: expected %d x `%s`, found %d' % (n, need, rsrc.count(need)))
    out.append('Definition rv_exclusive : bool := %s.' % _bool(exclusive))
    out.append('Definition rv_reversed : bool := %s.' % _bool(m.group(1).startswith('reversed')))


ITEMS = [item_view_capture_stream, item_l0_stream, item_upgrade_flags, item_chunk_arrays, item_open, item_sensor_loop,
         item_sources, item_relative_view]
