"""Translator items for C17: the CBF timestamp-fix rule of VisibilityDataV4.__init__ and preselect validation."""
import ast
import calendar
import time

from vh.translate import TranslateError, _parse, _class, _func, coq_string, coq_Z


def _date_secs(s):
    try:
        return calendar.timegm(time.strptime(s, '%Y-%m-%d'))
    except ValueError:
        raise TranslateError('fix rule: date %r not in YYYY-MM-DD form' % s)


def _bexpr(node, dates):
    """Boolean expression over _before('<date>') calls and the names cmc2, cbf4k."""
    if isinstance(node, ast.BoolOp):
        op = ' || ' if isinstance(node.op, ast.Or) else ' && '
        return '(' + op.join(_bexpr(v, dates) for v in node.values) + ')'
    if isinstance(node, ast.UnaryOp) and isinstance(node.op, ast.Not):
        return 'negb ' + _bexpr(node.operand, dates)
    if isinstance(node, ast.Name) and node.id in ('cmc2', 'cbf4k'):
        return node.id
    if (isinstance(node, ast.Call) and isinstance(node.func, ast.Name) and node.func.id == '_before'
            and len(node.args) == 1 and isinstance(node.args[0], ast.Constant) and isinstance(node.args[0].value, str)):
        secs = _date_secs(node.args[0].value)
        dates.append((node.args[0].value, secs))
        return '(before %s)' % coq_Z(secs)
    raise TranslateError('fix rule: unsupported expression ' + ast.dump(node)[:100])


def item_fix_rule(repo, out):
    rel = 'katdal/visdatav4.py'
    tree = _parse(repo, rel)
    init = _func(_class(tree, 'VisibilityDataV4', rel), '__init__', rel)
    # _before must be `source.timestamps[0] < katpoint.Timestamp(date).secs`
    bef = [n for n in init.body if isinstance(n, ast.FunctionDef) and n.name == '_before']
    if len(bef) != 1 or len(bef[0].body) != 1 or not isinstance(bef[0].body[0], ast.Return):
        raise TranslateError('visdatav4: _before helper not of the expected shape')
    src = ast.unparse(bef[0].body[0].value).replace(' ', '')
    if src != 'capture_start<katpoint.Timestamp(date).secs':
        raise TranslateError('visdatav4: _before is %s' % src)
    # capture_start must be the first timestamp of the CAPTURE (recorded by the data source before preselection)
    srcs = [ast.unparse(n).replace(' ', '') for n in init.body]
    for need in ("capture_start=getattr(source,'capture_start',None)",
                 'capture_start=source.timestamps[0]ifcapture_startisNoneelsecapture_start+self.time_offset'):
        if need not in srcs:
            raise TranslateError('visdatav4: capture_start is not computed as expected (%s)' % need)
    ds = _func(_class(_parse(repo, 'katdal/datasources.py'), 'TelstateDataSource', 'katdal/datasources.py'), '__init__', 'katdal/datasources.py')
    dsrc = [ast.unparse(n).replace(' ', '') for n in ds.body]
    rec = 'capture_start=timestamps[0]iflen(timestamps)elseNone'
    pre = [k for k, x in enumerate(dsrc) if x.startswith("if'dumps'inpreselect:")]
    if not (rec in dsrc and pre and dsrc.index(rec) < pre[0] and 'self.capture_start=capture_start' in dsrc):
        raise TranslateError('datasources: capture_start is not recorded before the dump preselection')
    markers = {}
    rule = None
    fix_body = None
    for n in init.body:
        if isinstance(n, ast.Assign) and len(n.targets) == 1 and isinstance(n.targets[0], ast.Name) \
                and n.targets[0].id in ('cmc2', 'cbf4k'):
            v = n.value
            if not (isinstance(v, ast.Compare) and len(v.ops) == 1 and isinstance(v.ops[0], ast.In)
                    and isinstance(v.left, ast.Constant) and isinstance(v.left.value, str)):
                raise TranslateError('visdatav4: %s is not a substring test' % n.targets[0].id)
            markers[n.targets[0].id] = (v.left.value, ast.unparse(v.comparators[0]))
        if isinstance(n, ast.If) and '_before' in ast.unparse(n.test) and 'cmc2' in ast.unparse(n.test):
            if rule is not None:
                raise TranslateError('visdatav4: more than one fix rule')
            dates = []
            rule = _bexpr(n.test, dates)
            fix_body = n
    if rule is None or set(markers) != {'cmc2', 'cbf4k'}:
        raise TranslateError('visdatav4: fix rule / markers not found')
    out.append('Definition fix_rule (before : Z -> bool) (cmc2 cbf4k : bool) : bool :=\n  %s.' % rule)
    out.append('Definition fix_dates : list Z := [%s].' % '; '.join(coq_Z(s) for _, s in dates))
    out.append('Definition fix_cmc2_marker : string := %s.' % coq_string(markers['cmc2'][0]))
    out.append('Definition fix_cbf4k_marker : string := %s.' % coq_string(markers['cbf4k'][0]))


def item_preselect(repo, out):
    rel = 'katdal/datasources.py'
    tree = _parse(repo, rel)
    init = _func(_class(tree, 'TelstateDataSource', rel), '__init__', rel)
    keys = None
    steps = None
    for n in ast.walk(init):
        if isinstance(n, ast.Assign) and ast.unparse(n.targets[0]) == 'unexpected':
            v = n.value
            if isinstance(v, ast.BinOp) and isinstance(v.op, ast.Sub) and isinstance(v.right, ast.Set):
                keys = sorted(ast.literal_eval(v.right))
        if isinstance(n, ast.If) and 'idx.step not in' in ast.unparse(n.test):
            t = ast.unparse(n.test).replace(' ', '')
            if t != 'notisinstance(idx,slice)oridx.stepnotin{None,1}':
                raise TranslateError('datasources: preselect step test is %s' % t)
            steps = True
    if keys is None or not steps:
        raise TranslateError('datasources: preselect validation not found')
    out.append('Definition preselect_keys : list string := [%s].' % '; '.join(coq_string(k) for k in keys))


ITEMS = [item_fix_rule, item_preselect]
